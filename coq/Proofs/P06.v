(* Proofs/P06.v — C06: scrolling, IL/DL, DECSTBM. *)
From Coq Require Import NArith List Bool Lia.
From MT Require Import Lib Types Charsets Tables Screen Spec Obs Stmt.
From MT.Proofs Require Import WF Aeq Loops View RefineSimple RefineErase RefineShift RefineScroll P05.
Import ListNotations.
Open Scope N_scope.

Definition is_c06 (o : op) : bool :=
  match o with OIndex | ORevIndex | OLinefeed | OIl _ | ODl _ | OMargins _ _ => true | _ => false end.

Section S.
Variable wid : cp -> N. Variable is_comb : cp -> bool. Variable nfc : str -> str.
Notation step := (step wid is_comb nfc).
Notation astep := (astep wid is_comb nfc).

Lemma WF_margins_op s t b : WF s -> WF (step s (OMargins t b)).
Proof.
  intros W. pose proof W as [w1 w2 w3 w4 w5 w6 w7 w8]. cbn [step]. unfold set_margins.
  destruct ((match t with Some t0 => t0 | None => 0 end =? 0) && match b with None => true | Some _ => false end).
  - constructor; auto. exact I.
  - pose proof (margins_or_full_wf s) as MW. destruct (margins_or_full s) as [mt mb]. specialize (MW mt mb W eq_refl).
    set (t' := match t with None => mt | Some t0 => N.max 0 (N.min (t0 - 1) (lines s - 1)) end).
    set (b' := match b with None => mb | Some b0 => N.max 0 (N.min (b0 - 1) (lines s - 1)) end).
    destruct (N.leb_spec (t' + 1) b'); [|exact W].
    assert (Hb : b' <= lines s - 1) by (unfold b'; destruct b; lia).
    (* cursor_position None None from a state with the new margins *)
    unfold cursor_position. cbn [margins set_margins_f]. unfold has_mode. cbn [mode set_margins_f].
    assert (G : forall line, line < lines s ->
       WF (ensure_vbounds (ensure_hbounds (set_y (set_x (set_margins_f s (Some (t', b'))) (1 - 1)) line)) false)).
    { intros line Hl. unfold ensure_vbounds, ensure_hbounds, set_y, set_x, set_cur, cx, cy, has_mode.
      cbn [margins set_margins_f cur cu_x cu_y cu_attr cu_hidden mode columns lines].
      destruct (false || nmem DECOM (mode s)); constructor; unfold cx, cy, margins_wf;
        cbn [margins cur cu_x cu_y columns lines dirty buffer]; auto; try lia. }
    destruct (nmem DECOM (mode s)).
    + destruct ((1 - 1 + t' <? t') || (b' <? 1 - 1 + t')).
      * constructor; auto. unfold margins_wf. cbn. lia.
      * apply G. lia.
    + apply G. lia.
Qed.

Lemma c06_refines s o : WF s -> is_c06 o = true -> Aeq (abs (step s o)) (astep (abs s) o) /\ WF (step s o).
Proof.
  intros W H. destruct o; try discriminate H.
  - split; [apply ref_index; exact W|apply WF_index_gen; exact W].
  - split; [apply ref_linefeed; exact W|apply WF_linefeed_gen; exact W].
  - split; [apply ref_rindex; exact W|apply WF_rindex; exact W].
  - split; [apply ref_il; exact W|apply WF_il; exact W].
  - split; [apply ref_dl; exact W|apply WF_dl; exact W].
  - split; [apply Aeq_of_eq; apply ref_margins|apply WF_margins_op; exact W].
Qed.

(* region of an abstract state *)
Definition reg (a : astate) : N * N := match a_margins a with Some m => m | None => (0, a_lines a - 1) end.

(* index at the bottom margin: the region moves up by exactly one line *)
Lemma reg_wf a t b : AWF a -> reg a = (t, b) -> t <= b /\ b <= a_lines a - 1.
Proof.
  intros W R. unfold reg in R. pose proof (aw_margins a W) as M. pose proof (aw_lines a W).
  destruct (a_margins a) as [[t0 b0]|]; inversion R; subst; lia.
Qed.
Lemma c06_index_scroll a t b : reg a = (t, b) -> t <= b -> ay a = b ->
  let a' := astep a OIndex in
  (forall r c, t <= r < b -> a_grid a' r c = a_grid a (r + 1) c) /\
  (forall c, a_grid a' b c = adc a) /\
  (forall r c, (r < t \/ b < r) -> a_grid a' r c = a_grid a r c) /\
  a_cur a' = a_cur a /\ (forall r, r < a_lines a -> nmem r (a_dirty a') = true).
Proof.
  intros R Htb Hy. cbn [astep]. unfold a_index, atb. unfold reg in R. rewrite R. rewrite Hy, N.eqb_refl.
  repeat split.
  - intros r c Hr. cbn [a_grid a_with_grid]. bdestruct; cbn; try reflexivity; lia.
  - intros c. cbn [a_grid a_with_grid]. bdestruct; cbn; try reflexivity; lia.
  - intros r c Hr. cbn [a_grid a_with_grid]. bdestruct; cbn; try reflexivity; lia.
  - intros r Hr. cbn [a_dirty a_with_grid a_all_dirty a_dirty_range a_with_dirty]. rewrite nmem_nunion, nmem_range.
    bdestruct; cbn; try reflexivity; lia.
Qed.
Lemma c06_index_move a t b : reg a = (t, b) -> ay a <> b -> astep a OIndex = astep a (OCud None).
Proof. intros R Hy. cbn [astep]. unfold a_index, atb. unfold reg in R. rewrite R. destruct (N.eqb_spec (ay a) b); [contradiction|reflexivity]. Qed.
Lemma c06_rindex_scroll a t b : reg a = (t, b) -> t <= b -> ay a = t ->
  let a' := astep a ORevIndex in
  (forall r c, t < r <= b -> a_grid a' r c = a_grid a (r - 1) c) /\
  (forall c, a_grid a' t c = adc a) /\
  (forall r c, (r < t \/ b < r) -> a_grid a' r c = a_grid a r c) /\
  a_cur a' = a_cur a /\ (forall r, r < a_lines a -> nmem r (a_dirty a') = true).
Proof.
  intros R Htb Hy. cbn [astep]. unfold a_rindex, atb. unfold reg in R. rewrite R. rewrite Hy, N.eqb_refl.
  repeat split.
  - intros r c Hr. cbn [a_grid a_with_grid]. bdestruct; cbn; try reflexivity; lia.
  - intros c. cbn [a_grid a_with_grid]. bdestruct; cbn; try reflexivity; lia.
  - intros r c Hr. cbn [a_grid a_with_grid]. bdestruct; cbn; try reflexivity; lia.
  - intros r Hr. cbn [a_dirty a_with_grid a_all_dirty a_dirty_range a_with_dirty]. rewrite nmem_nunion, nmem_range.
    bdestruct; cbn; try reflexivity; lia.
Qed.
Lemma c06_rindex_move a t b : reg a = (t, b) -> ay a <> t -> astep a ORevIndex = astep a (OCuu None).
Proof. intros R Hy. cbn [astep]. unfold a_rindex, atb. unfold reg in R. rewrite R. destruct (N.eqb_spec (ay a) t); [contradiction|reflexivity]. Qed.
(* LF / VT / FF / NEL = index, plus carriage return under LNM *)
Lemma c06_linefeed a : astep a OLinefeed = (if amode (astep a OIndex) LNM then a_cr (astep a OIndex) else astep a OIndex).
Proof. reflexivity. Qed.

(* IL / DL: only inside the region, only rows y..bottom, by min(n̂, rows available), vacated rows blank, x := 0 *)
Lemma c06_il a n t b : reg a = (t, b) ->
  let a' := astep a (OIl n) in let y := ay a in let k := hat n in
  if (t <=? y) && (y <=? b) then
    (forall r c, y <= r <= b -> a_grid a' r c = if r <? y + k then adc a else a_grid a (r - k) c) /\
    (forall r c, (r < y \/ b < r) -> a_grid a' r c = a_grid a r c) /\ ax a' = 0 /\ ay a' = y
  else a' = a.
Proof.
  intros R. cbn [astep]. unfold a_il, atb. unfold reg in R. rewrite R.
  destruct ((t <=? ay a) && (ay a <=? b)); [|reflexivity].
  repeat split.
  - intros r c Hr. cbn [a_grid a_with_grid a_cr a_x a_xy a_with_cur]. bdestruct; cbn; try reflexivity; lia.
  - intros r c Hr. cbn [a_grid a_with_grid a_cr a_x a_xy a_with_cur]. bdestruct; cbn; try reflexivity; lia.
Qed.
Lemma c06_dl a n t b : reg a = (t, b) ->
  let a' := astep a (ODl n) in let y := ay a in let k := hat n in
  if (t <=? y) && (y <=? b) then
    (forall r c, y <= r <= b -> a_grid a' r c = if r + k <=? b then a_grid a (r + k) c else adc a) /\
    (forall r c, (r < y \/ b < r) -> a_grid a' r c = a_grid a r c) /\ ax a' = 0 /\ ay a' = y
  else a' = a.
Proof.
  intros R. cbn [astep]. unfold a_dl, atb. unfold reg in R. rewrite R.
  destruct ((t <=? ay a) && (ay a <=? b)); [|reflexivity].
  repeat split.
  - intros r c Hr. cbn [a_grid a_with_grid a_cr a_x a_xy a_with_cur]. bdestruct; cbn; try reflexivity; lia.
  - intros r c Hr. cbn [a_grid a_with_grid a_cr a_x a_xy a_with_cur]. bdestruct; cbn; try reflexivity; lia.
Qed.

Lemma a_vclamp_margins a u : a_margins (a_vclamp a u) = a_margins a.
Proof.
  unfold a_vclamp. destruct (a_margins a) as [[t b]|] eqn:E; [destruct (u || amode a DECOM)|];
    unfold a_y, a_xy, a_with_cur; cbn [a_margins]; exact E.
Qed.
(* DECSTBM: accepted only if the clamped region spans at least two rows; then the cursor is homed; CSI r removes it *)
Definition clampm (a : astate) (v : N) : N := N.min (v - 1) (a_lines a - 1).
Lemma c06_stbm a top bottom : AWF a ->
  let a' := astep a (OMargins top bottom) in
  if (match top with Some t => t | None => 0 end =? 0) && (match bottom with None => true | _ => false end)
  then a' = a_with_margins a None
  else
    let t := match top with Some v => clampm a v | None => fst (reg a) end in
    let b := match bottom with Some v => clampm a v | None => snd (reg a) end in
    if t <? b then a_margins a' = Some (t, b) /\ t < b <= a_lines a - 1 /\ a' = a_cup (a_with_margins a (Some (t, b))) None None
    else a' = a.
Proof.
  intros W. cbn [astep]. unfold a_stbm.
  destruct ((match top with Some t => t | None => 0 end =? 0) && match bottom with None => true | Some _ => false end); [reflexivity|].
  unfold atb, reg, clampm. pose proof (aw_margins a W) as M. pose proof (aw_lines a W) as L.
  destruct (match a_margins a with Some m => m | None => (0, a_lines a - 1) end) as [mt mb] eqn:EM. cbn [fst snd].
  set (t := match top with Some v => N.min (v - 1) (a_lines a - 1) | None => mt end).
  set (b := match bottom with Some v => N.min (v - 1) (a_lines a - 1) | None => mb end).
  destruct (N.ltb_spec t b); [|reflexivity].
  assert (Hb : b <= a_lines a - 1).
  { unfold b. destruct bottom; [lia|]. destruct (a_margins a) as [[t0 b0]|]; inversion EM; subst; lia. }
  split; [|split; [lia|reflexivity]].
  unfold a_cup. cbn [a_margins a_with_margins]. unfold amode. cbn [a_mode a_with_margins].
  destruct (nmem DECOM (a_mode a)); [destruct (b <? hat None - 1 + t)|]; rewrite ?a_vclamp_margins; reflexivity.
Qed.
End S.

(* IL n followed by DL n on the same line: the region is what it was, except that the n lines pushed past the bottom margin are
   gone (blank default lines at the bottom of the region); lines outside the region are never touched *)
Lemma c06_il_then_dl a n t b r c : reg a = (t, b) -> t <= ay a <= b ->
  a_grid (a_dl (a_il a n) n) r c =
  if (ay a <=? r) && (r <=? b) && (b <? r + hat n) then adc a else a_grid a r c.
Proof.
  intros R Hy. unfold reg in R.
  assert (EI : a_il a n = a_cr (a_with_grid (a_dirty_range a (ay a) (a_lines a))
      (fun r c => if (ay a <=? r) && (r <=? b) then (if r <? ay a + hat n then adc a else a_grid a (r - hat n) c) else a_grid a r c))).
  { unfold a_il, atb. rewrite R. destruct (N.leb_spec t (ay a)), (N.leb_spec (ay a) b); try lia. reflexivity. }
  rewrite EI. set (bb := a_cr _).
  assert (Eb : atb bb = (t, b)) by (unfold atb; exact R).
  assert (Ey : ay bb = ay a) by reflexivity. assert (Ed : adc bb = adc a) by reflexivity.
  assert (G : forall r c, a_grid bb r c = if (ay a <=? r) && (r <=? b) then (if r <? ay a + hat n then adc a else a_grid a (r - hat n) c) else a_grid a r c) by reflexivity.
  unfold a_dl. rewrite Eb, Ey, Ed. destruct (N.leb_spec t (ay a)), (N.leb_spec (ay a) b); try lia. cbn [andb].
  cbn [a_grid a_cr a_x a_xy a_with_cur a_with_grid]. rewrite !G. clearbody bb.
  destruct (N.leb_spec (ay a) r); cbn [andb]; [|reflexivity].
  destruct (N.leb_spec r b); cbn [andb]; [|reflexivity].
  destruct (N.leb_spec (r + hat n) b), (N.ltb_spec b (r + hat n)); try lia; [|reflexivity].
  destruct (N.leb_spec (ay a) (r + hat n)); [|lia]. cbn [andb].
  destruct (N.ltb_spec (r + hat n) (ay a + hat n)); [lia|]. f_equal. lia.
Qed.
