(* Proofs/P01Tables.v — facts about the tables of the CURRENT source (regenerated every run) that index / slice expressions of the
   Rust text rely on. Kept apart from P01.v so that only C01 depends on the regenerated file. *)
From Coq Require Import NArith List Bool.
Import ListNotations.
Open Scope N_scope.
From MT.Gen Require Import GenTables.
Lemma charset_tables_have_256_entries :
  length g_lat1 = 256%nat /\ length g_vt100 = 256%nat /\ length g_ibmpc = 256%nat /\ length g_vax42 = 256%nat.
Proof. vm_compute. repeat split. Qed.
Lemma palette_has_256_entries : length g_palette = 256%nat.
Proof. vm_compute. reflexivity. Qed.
Lemma text_table_strings_nonempty : forallb (fun e : N * list N => match snd e with [] => false | _ => true end) g_text = true.
Proof. vm_compute. reflexivity. Qed.
