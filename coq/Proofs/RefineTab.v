(* Proofs/RefineTab.v — HT: scanning the sorted stop list finds the least stop strictly right of the
   cursor; the result never passes the last column. *)
From Coq Require Import NArith List Bool Lia Sorting.Sorted.
From MT Require Import Lib Types Charsets Tables Screen Spec Obs Stmt.
From MT.Proofs Require Import WF Aeq.
Import ListNotations.
Open Scope N_scope.

Lemma In_ninsert x l y : In y (ninsert x l) <-> y = x \/ In y l.
Proof.
  induction l as [|a l IH]; cbn; [intuition (subst; auto)|].
  destruct (x <=? a); cbn; [intuition (subst; auto)|]. rewrite IH. intuition (subst; auto).
Qed.
Lemma In_nsort l y : In y (nsort l) <-> In y l.
Proof. induction l as [|a l IH]; cbn; [tauto|]. rewrite In_ninsert, IH. intuition (subst; auto). Qed.
Lemma ninsert_sorted x l : StronglySorted N.le l -> StronglySorted N.le (ninsert x l).
Proof.
  induction 1 as [|a l S IH F]; cbn; [repeat constructor|].
  destruct (N.leb_spec x a).
  - constructor; [constructor; assumption|]. constructor; [assumption|].
    rewrite Forall_forall in *. intros y Hy. specialize (F y Hy). lia.
  - constructor; [exact IH|]. rewrite Forall_forall in *. intros y Hy. apply In_ninsert in Hy.
    destruct Hy as [->|Hy]; [lia|auto].
Qed.
Lemma nsort_sorted l : StronglySorted N.le (nsort l).
Proof. induction l as [|a l IH]; cbn; [constructor|apply ninsert_sorted; exact IH]. Qed.

(* least element of l strictly above x *)
Definition is_least_gt (x : N) (l : list N) (o : option N) : Prop :=
  match o with
  | Some m => In m l /\ x < m /\ forall y, In y l -> x < y -> m <= y
  | None => forall y, In y l -> y <= x
  end.
Lemma find_sorted x l : StronglySorted N.le l -> is_least_gt x l (find (fun st => x <? st) l).
Proof.
  induction 1 as [|a l S IH F]; cbn; [intros y []|].
  destruct (N.ltb_spec x a).
  - split; [left; reflexivity|]. split; [assumption|]. intros y [->|Hy] _; [lia|].
    rewrite Forall_forall in F. apply F. exact Hy.
  - unfold is_least_gt in *. destruct (find (fun st => x <? st) l) as [m|].
    + destruct IH as [I1 [I2 I3]]. split; [right; exact I1|]. split; [exact I2|].
      intros y [->|Hy] Hxy; [lia|auto].
    + intros y [->|Hy]; [lia|auto].
Qed.
Lemma least_gt_spec x l : is_least_gt x l (least_gt x l).
Proof.
  unfold least_gt.
  assert (G : forall l acc pre, is_least_gt x pre acc ->
             is_least_gt x (pre ++ l)
               (fold_left (fun acc t => if x <? t then match acc with Some m => Some (N.min m t) | None => Some t end else acc) l acc)).
  { clear l. induction l as [|a l IH]; intros acc pre I; cbn [fold_left]; [rewrite app_nil_r; exact I|].
    replace (pre ++ a :: l) with ((pre ++ [a]) ++ l) by (rewrite <- app_assoc; reflexivity).
    apply IH. destruct (N.ltb_spec x a).
    - destruct acc as [m|]; cbn in *.
      + destruct I as [I1 [I2 I3]]. split; [|split].
        * apply in_or_app. destruct (N.min_spec m a) as [[_ ->]|[_ ->]]; [left; exact I1|right; left; reflexivity].
        * lia.
        * intros y Hy Hxy. apply in_app_or in Hy. destruct Hy as [Hy|[<-|[]]]; [specialize (I3 y Hy Hxy); lia|lia].
      + split; [apply in_or_app; right; left; reflexivity|]. split; [assumption|].
        intros y Hy Hxy. apply in_app_or in Hy. destruct Hy as [Hy|[<-|[]]]; [specialize (I y Hy); lia|lia].
    - destruct acc as [m|]; cbn in *.
      + destruct I as [I1 [I2 I3]]. split; [apply in_or_app; left; exact I1|]. split; [exact I2|].
        intros y Hy Hxy. apply in_app_or in Hy. destruct Hy as [Hy|[<-|[]]]; [auto|lia].
      + intros y Hy. apply in_app_or in Hy. destruct Hy as [Hy|[<-|[]]]; [auto|lia]. }
  apply (G l None []). intros y [].
Qed.
Lemma is_least_gt_unique x l o1 o2 : is_least_gt x l o1 -> is_least_gt x l o2 -> o1 = o2.
Proof.
  destruct o1 as [m1|], o2 as [m2|]; cbn; intros H1 H2; try reflexivity.
  - destruct H1 as [A1 [A2 A3]], H2 as [B1 [B2 B3]]. f_equal. specialize (A3 m2 B1 B2). specialize (B3 m1 A1 A2). lia.
  - destruct H1 as [A1 [A2 _]]. specialize (H2 m1 A1). lia.
  - destruct H2 as [A1 [A2 _]]. specialize (H1 m2 A1). lia.
Qed.
Lemma is_least_gt_ext x l l' o : (forall y, In y l <-> In y l') -> is_least_gt x l o -> is_least_gt x l' o.
Proof.
  intros E. destruct o as [m|]; cbn.
  - intros [A1 [A2 A3]]. split; [apply E; exact A1|]. split; [exact A2|]. intros y Hy. apply A3. apply E. exact Hy.
  - intros H y Hy. apply H. apply E. exact Hy.
Qed.
Lemma find_nsort_least x l : find (fun st => x <? st) (nsort l) = least_gt x l.
Proof.
  apply (is_least_gt_unique x l).
  - apply (is_least_gt_ext x (nsort l)); [intros y; apply In_nsort|]. apply find_sorted. apply nsort_sorted.
  - apply least_gt_spec.
Qed.

Section S.
Variable wid : cp -> N. Variable is_comb : cp -> bool. Variable nfc : str -> str.
Notation step := (step wid is_comb nfc).
Notation astep := (astep wid is_comb nfc).

Lemma ref_tab s : abs (step s OTab) = astep (abs s) OTab.
Proof.
  cbn [step astep]. unfold tab, a_tab. rewrite find_nsort_least.
  change (a_tabs (abs s)) with (tabstops s). change (ax (abs s)) with (cx s). change (a_cols (abs s)) with (columns s).
  pose proof (least_gt_spec (cx s) (tabstops s)) as L.
  destruct (least_gt (cx s) (tabstops s)) as [m|]; cbn in L.
  - destruct L as [_ [L _]]. destruct (N.eqb_spec m 0); [lia|reflexivity].
  - cbn. reflexivity.
Qed.
(* C18's bound: HT never leaves the last column *)
Lemma tab_bound s : 1 <= columns s -> cx (tab s) <= columns s - 1.
Proof. intros H. unfold tab, cx, set_x. cbn. lia. Qed.
End S.
