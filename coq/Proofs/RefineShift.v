(* Proofs/RefineShift.v — ICH / DCH (cells of the cursor row) and IL / DL (rows of the region):
   the in-place loops of the sparse model compute the documented splice, and keep WF. *)
From Coq Require Import NArith List Bool Lia.
From MT Require Import Lib Types Charsets Tables Screen Spec Obs Stmt.
From MT.Proofs Require Import WF Aeq Loops View RefineSimple RefineErase.
Import ListNotations.
Open Scope N_scope.

Lemma hat_ge1 n : 1 <= hat n. Proof. destruct n as [[|p]|]; cbn; lia. Qed.
Lemma rowv_fill_opt d o : match fill d o with Some x => x | None => d end = match o with Some x => x | None => d end.
Proof. destruct o; reflexivity. Qed.

Section S.
Variable wid : cp -> N. Variable is_comb : cp -> bool. Variable nfc : str -> str.
Notation step := (step wid is_comb nfc).
Notation astep := (astep wid is_comb nfc).
Ltac aeq_fields := constructor; try reflexivity; try apply seteq_refl.

(* ---------------- ICH ---------------- *)
Definition ich_line (s : screen) (k : N) : row :=
  fold_left (shr_body k (columns s) (fill (default_char s)) (Some (default_char s))) (rev (range (cx s) (columns s)))
            (orow (NMap.get (cy s) (buffer s))).
Lemma ich_line_get s k c : WF s -> 1 <= k ->
  NMap.get c (ich_line s k) =
  if (cx s <=? c) && (c <? columns s)
  then (if c <? cx s + k then Some (default_char s) else fill (default_char s) (NMap.get (c - k) (orow (NMap.get (cy s) (buffer s)))))
  else NMap.get c (orow (NMap.get (cy s) (buffer s))).
Proof. intros W Hk. unfold ich_line. apply shr_get; [exact Hk|apply (wf_x s W)]. Qed.
Lemma ich_buffer s n : buffer (insert_characters s n) = NMap.set (cy s) (ich_line s (hat n)) (buffer s).
Proof. unfold insert_characters. rewrite nhat_hat. reflexivity. Qed.
Lemma ref_ich_gen s n : WF s -> Aeq (abs (insert_characters s n)) (a_ich (abs s) n).
Proof.
  intros W. aeq_fields.
  intros r c Hr Hc. cbn [abs a_grid] in *.
    rewrite (cellv_set_row s _ (cy s) (ich_line s (hat n))); [|reflexivity|apply ich_buffer].
    unfold a_ich. snorm.
    destruct (N.eqb_spec r (cu_y (cur s))); [|reflexivity]. subst r. cbn [andb].
    unfold rowv. rewrite ich_line_get by (auto using hat_ge1). unfold cx, cy.
    change (columns (insert_characters s n)) with (columns s) in Hc.
    destruct (N.leb_spec (cu_x (cur s)) c); cbn [andb].
    + assert (E : (c <? columns s) = true) by (apply N.ltb_lt; exact Hc). rewrite E.
      destruct (c <? cu_x (cur s) + hat n); [reflexivity|].
      rewrite rowv_fill_opt. rewrite cellv_rowv. reflexivity.
    + rewrite cellv_rowv. reflexivity.
Qed.
Lemma WF_ich_gen s n : WF s -> WF (insert_characters s n).
Proof.
  intros W. apply (WF_set_row s _ (cy s) (ich_line s (hat n))); try reflexivity; auto.
  - apply (wf_y s W).
  - unfold insert_characters. cbn. apply nmem_nadd_lt; [apply (wf_y s W)|apply (wf_dirty s W)].
  - apply ich_buffer.
  - intros c x. rewrite ich_line_get by (auto using hat_ge1).
    destruct (N.leb_spec (cx s) c), (N.ltb_spec c (columns s)); cbn [andb]; try (intros _; assumption); apply orow_keys; exact W.
Qed.

(* ---------------- DCH ---------------- *)
Definition dch_line (s : screen) (k : N) : row :=
  fold_left (shl_body k (columns s) (fill (default_char s))) (range (cx s) (columns s)) (orow (NMap.get (cy s) (buffer s))).
Lemma dch_line_get s k c : WF s -> 1 <= k ->
  NMap.get c (dch_line s k) =
  if (cx s <=? c) && (c <? columns s)
  then (if c + k <? columns s then fill (default_char s) (NMap.get (c + k) (orow (NMap.get (cy s) (buffer s)))) else None)
  else NMap.get c (orow (NMap.get (cy s) (buffer s))).
Proof. intros W Hk. unfold dch_line. apply shl_get; [exact Hk|apply (wf_x s W)]. Qed.
Lemma dch_buffer s n : buffer (delete_characters s n) = NMap.set (cy s) (dch_line s (hat n)) (buffer s).
Proof. unfold delete_characters. rewrite nhat_hat. reflexivity. Qed.
Lemma ref_dch s n : WF s -> Aeq (abs (step s (ODch n))) (astep (abs s) (ODch n)).
Proof.
  intros W. cbn [step astep]. aeq_fields.
  intros r c Hr Hc. cbn [abs a_grid] in *.
    rewrite (cellv_set_row s _ (cy s) (dch_line s (hat n))); [|reflexivity|apply dch_buffer].
    unfold a_dch. snorm.
    destruct (N.eqb_spec r (cu_y (cur s))); [|reflexivity]. subst r. cbn [andb].
    unfold rowv. rewrite dch_line_get by (auto using hat_ge1). unfold cx, cy.
    change (columns (delete_characters s n)) with (columns s) in Hc.
    destruct (N.leb_spec (cu_x (cur s)) c); cbn [andb].
    + assert (E : (c <? columns s) = true) by (apply N.ltb_lt; exact Hc). rewrite E.
      destruct (c + hat n <? columns s); [|reflexivity].
      rewrite rowv_fill_opt. rewrite cellv_rowv. reflexivity.
    + rewrite cellv_rowv. reflexivity.
Qed.
Lemma WF_dch s n : WF s -> WF (step s (ODch n)).
Proof.
  intros W. cbn [step]. apply (WF_set_row s _ (cy s) (dch_line s (hat n))); try reflexivity; auto.
  - apply (wf_y s W).
  - unfold delete_characters. cbn. apply nmem_nadd_lt; [apply (wf_y s W)|apply (wf_dirty s W)].
  - apply dch_buffer.
  - intros c x. rewrite dch_line_get by (auto using hat_ge1).
    destruct (N.leb_spec (cx s) c), (N.ltb_spec c (columns s)); cbn [andb]; try (intros _; assumption); try (apply orow_keys; exact W).
Qed.
Lemma ref_ich s n : WF s -> Aeq (abs (step s (OIch n))) (astep (abs s) (OIch n)).
Proof. apply ref_ich_gen. Qed.
Lemma WF_ich s n : WF s -> WF (step s (OIch n)).
Proof. apply WF_ich_gen. Qed.

(* ---------------- IL / DL ---------------- *)
Lemma WF_rows_update s s' :
  WF s -> columns s' = columns s -> lines s' = lines s -> cu_y (cur s') = cu_y (cur s) -> cu_x (cur s') <= columns s ->
  margins s' = margins s -> (forall q, nmem q (dirty s') = true -> q < lines s) ->
  (forall r line, NMap.get r (buffer s') = Some line ->
     r < lines s /\ (forall c x, NMap.get c line = Some x -> c < columns s)) ->
  WF s'.
Proof.
  intros W Hc Hl Hy Hx Hm Hd Hb. destruct W as [w1 w2 w3 w4 w5 w6 w7 w8].
  constructor; unfold cx, cy, margins_wf in *; rewrite ?Hc, ?Hl, ?Hy, ?Hm; auto.
  - intros r ln E. apply (Hb r ln E).
  - intros r ln c x E. apply (Hb r ln E).
Qed.

Lemma ref_il s n : WF s -> Aeq (abs (step s (OIl n))) (astep (abs s) (OIl n)).
Proof.
  intros W. cbn [step astep]. unfold insert_lines, a_il, atb, margins_or_full. rewrite nhat_hat.
  change (a_margins (abs s)) with (margins s). change (a_lines (abs s)) with (lines s). change (ay (abs s)) with (cy s).
  pose proof (margins_or_full_wf s) as MW. unfold margins_or_full in MW.
  destruct (match margins s with Some m => m | None => (0, lines s - 1) end) as [top bottom].
  specialize (MW top bottom W eq_refl). destruct MW as [M1 M2].
  destruct (N.leb_spec top (cy s)), (N.leb_spec (cy s) bottom); cbn [andb]; try apply Aeq_refl.
  aeq_fields. intros r c Hr Hc. cbn [abs a_grid] in *.
  rewrite cellv_rowv. snorm.
  change (default_char _) with (default_char s).
  rewrite shr_get by (try apply hat_ge1; lia).
  change (adc (abs s)) with (default_char s).
  pose proof (wf_lines s W).
  destruct (N.leb_spec (cu_y (cur s)) r), (N.ltb_spec r (bottom + 1)), (N.leb_spec r bottom); cbn [andb]; try lia.
  - destruct (r <? cu_y (cur s) + hat n); [reflexivity|]. rewrite cellv_rowv. reflexivity.
  - rewrite cellv_rowv. reflexivity.
  - rewrite cellv_rowv. reflexivity.
Qed.
Lemma WF_il s n : WF s -> WF (step s (OIl n)).
Proof.
  intros W. cbn [step]. unfold insert_lines, margins_or_full. rewrite nhat_hat.
  pose proof (margins_or_full_wf s) as MW. unfold margins_or_full in MW.
  destruct (match margins s with Some m => m | None => (0, lines s - 1) end) as [top bottom].
  specialize (MW top bottom W eq_refl). destruct MW as [M1 M2].
  destruct (N.leb_spec top (cy s)), (N.leb_spec (cy s) bottom); cbn [andb]; try exact W.
  pose proof (wf_lines s W).
  apply (WF_rows_update s); try reflexivity; auto.
  - cbn. lia.
  - cbn. apply nmem_nunion_range_lt; [lia|apply (wf_dirty s W)].
  - intros r line. snorm. rewrite shr_get by (try apply hat_ge1; lia).
    destruct (N.leb_spec (cu_y (cur s)) r), (N.ltb_spec r (bottom + 1)); cbn [andb].
    + destruct (r <? cu_y (cur s) + hat n); [discriminate|]. intros E. split; [lia|]. intros c x. apply (wf_cells s W _ _ c x E).
    + intros E. split; [apply (wf_rows s W _ _ E)|]. intros c x. apply (wf_cells s W _ _ c x E).
    + intros E. split; [apply (wf_rows s W _ _ E)|]. intros c x. apply (wf_cells s W _ _ c x E).
    + intros E. split; [apply (wf_rows s W _ _ E)|]. intros c x. apply (wf_cells s W _ _ c x E).
Qed.
Lemma ref_dl_gen s n : WF s -> Aeq (abs (delete_lines s n)) (a_dl (abs s) n).
Proof.
  intros W. unfold delete_lines, a_dl, atb, margins_or_full. rewrite nhat_hat.
  change (a_margins (abs s)) with (margins s). change (a_lines (abs s)) with (lines s). change (ay (abs s)) with (cy s).
  pose proof (margins_or_full_wf s) as MW. unfold margins_or_full in MW.
  destruct (match margins s with Some m => m | None => (0, lines s - 1) end) as [top bottom].
  specialize (MW top bottom W eq_refl). destruct MW as [M1 M2].
  destruct (N.leb_spec top (cy s)), (N.leb_spec (cy s) bottom); cbn [andb]; try apply Aeq_refl.
  aeq_fields. intros r c Hr Hc. cbn [abs a_grid] in *.
  rewrite cellv_rowv. snorm.
  change (default_char _) with (default_char s).
  rewrite shl_get by (try apply hat_ge1; lia).
  change (adc (abs s)) with (default_char s).
  pose proof (wf_lines s W).
  destruct (N.leb_spec (cu_y (cur s)) r), (N.ltb_spec r (bottom + 1)), (N.leb_spec r bottom); cbn [andb]; try lia.
  - destruct (N.ltb_spec (r + hat n) (bottom + 1)), (N.leb_spec (r + hat n) bottom); try lia; [rewrite cellv_rowv|]; reflexivity.
  - rewrite cellv_rowv. reflexivity.
  - rewrite cellv_rowv. reflexivity.
Qed.
Lemma WF_dl_gen s n : WF s -> WF (delete_lines s n).
Proof.
  intros W. unfold delete_lines, margins_or_full. rewrite nhat_hat.
  pose proof (margins_or_full_wf s) as MW. unfold margins_or_full in MW.
  destruct (match margins s with Some m => m | None => (0, lines s - 1) end) as [top bottom].
  specialize (MW top bottom W eq_refl). destruct MW as [M1 M2].
  destruct (N.leb_spec top (cy s)), (N.leb_spec (cy s) bottom); cbn [andb]; try exact W.
  pose proof (wf_lines s W).
  apply (WF_rows_update s); try reflexivity; auto.
  - cbn. lia.
  - cbn. apply nmem_nunion_range_lt; [lia|apply (wf_dirty s W)].
  - intros r line. snorm. rewrite shl_get by (try apply hat_ge1; lia).
    destruct (N.leb_spec (cu_y (cur s)) r), (N.ltb_spec r (bottom + 1)); cbn [andb].
    + destruct (r + hat n <? bottom + 1); [|discriminate]. intros E. split; [lia|]. intros c x. apply (wf_cells s W _ _ c x E).
    + intros E. split; [apply (wf_rows s W _ _ E)|]. intros c x. apply (wf_cells s W _ _ c x E).
    + intros E. split; [apply (wf_rows s W _ _ E)|]. intros c x. apply (wf_cells s W _ _ c x E).
    + intros E. split; [apply (wf_rows s W _ _ E)|]. intros c x. apply (wf_cells s W _ _ c x E).
Qed.
Lemma ref_dl s n : WF s -> Aeq (abs (step s (ODl n))) (astep (abs s) (ODl n)).
Proof. apply ref_dl_gen. Qed.
Lemma WF_dl s n : WF s -> WF (step s (ODl n)).
Proof. apply WF_dl_gen. Qed.
End S.
