(* Proofs/RefineErase.v — ED / EL / ECH: the sparse model refines the closed forms, and keeps WF. *)
From Coq Require Import NArith List Bool Lia.
From MT Require Import Lib Types Charsets Tables Screen Spec Obs Stmt.
From MT.Proofs Require Import WF Aeq Loops View RefineSimple.
Import ListNotations.
Open Scope N_scope.

Lemma rowv_fill d a lo hi line c :
  rowv d (fill_row a lo hi line) c = if (lo <=? c) && (c <? hi) then a else rowv d line c.
Proof. unfold rowv, fill_row. rewrite fill_range_get. destruct ((lo <=? c) && (c <? hi)); reflexivity. Qed.
Lemma fill_row_keys a lo hi line L c x :
  hi <= L -> (forall c x, NMap.get c line = Some x -> c < L) -> NMap.get c (fill_row a lo hi line) = Some x -> c < L.
Proof.
  intros Hh Hk. unfold fill_row. rewrite fill_range_get.
  destruct (N.leb_spec lo c), (N.ltb_spec c hi); cbn; try (intros _; lia); apply Hk.
Qed.
Lemma orow_keys s r c x : WF s -> NMap.get c (orow (NMap.get r (buffer s))) = Some x -> c < columns s.
Proof.
  intros W. destruct (NMap.get r (buffer s)) as [line|] eqn:E; cbn; [apply (wf_cells s W r line c x E)|discriminate].
Qed.

(* map over a range of keys, each key rewritten from its own old value *)
Lemma map_range_get {A} (F : option A -> A) n : forall lo (m : NMap.t A) r,
  NMap.get r (fold_left (fun b y => NMap.set y (F (NMap.get y b)) b) (range_nat lo n) m)
  = if (lo <=? r) && (r <? lo + N.of_nat n) then Some (F (NMap.get r m)) else NMap.get r m.
Proof.
  induction n as [|n IH]; intros lo m r.
  - cbn [range_nat fold_left]. bdestruct; cbn; try reflexivity; lia.
  - cbn [range_nat fold_left]. rewrite IH, !NMap.get_set.
    bdestruct; cbn; try reflexivity; try lia; subst. all: try reflexivity; try lia.
Qed.

Section S.
Variable wid : cp -> N. Variable is_comb : cp -> bool. Variable nfc : str -> str.
Notation step := (step wid is_comb nfc).
Notation astep := (astep wid is_comb nfc).

Lemma erase_row_range_view s lo hi r c :
  cellv (erase_row_range s lo hi) r c =
  if (r =? cy s) && (lo <=? c) && (c <? hi) then cu_attr (cur s) else cellv s r c.
Proof.
  rewrite (cellv_set_row s (erase_row_range s lo hi) (cy s) (fill_row (cu_attr (cur s)) lo hi (orow (NMap.get (cy s) (buffer s)))));
    [|reflexivity|reflexivity].
  rewrite rowv_fill, cellv_rowv.
  destruct (N.eqb_spec r (cy s)); [subst|]; cbn; [|reflexivity].
  destruct ((lo <=? c) && (c <? hi)); reflexivity.
Qed.
Lemma erase_row_range_WF s lo hi : WF s -> hi <= columns s -> WF (erase_row_range s lo hi).
Proof.
  intros W Hh.
  apply (WF_set_row s _ (cy s) (fill_row (cu_attr (cur s)) lo hi (orow (NMap.get (cy s) (buffer s))))); try reflexivity; auto.
  - apply (wf_y s W).
  - apply (wf_dirty s W).
  - intros c x. apply fill_row_keys; [exact Hh|]. intros c' x'. apply orow_keys. exact W.
Qed.
Lemma add_dirty_WF s y : WF s -> y < lines s -> WF (add_dirty s y).
Proof.
  intros [w1 w2 w3 w4 w5 w6 w7 w8] Hy. constructor; auto.
  cbn. apply nmem_nadd_lt; auto.
Qed.
Lemma add_dirty_range_WF s lo hi : WF s -> hi <= lines s -> WF (add_dirty_range s lo hi).
Proof.
  intros [w1 w2 w3 w4 w5 w6 w7 w8] Hy. constructor; auto.
  cbn. apply nmem_nunion_range_lt; auto.
Qed.

Ltac aeq_fields := constructor; try reflexivity; try apply seteq_refl.

(* ---- ECH ---- *)
Lemma ref_ech s n : WF s -> Aeq (abs (step s (OEch n))) (astep (abs s) (OEch n)).
Proof.
  intros W. cbn [step astep]. unfold erase_characters, a_ech. rewrite nhat_hat.
  aeq_fields. intros r c Hr Hc. cbn [abs a_grid] in *.
  rewrite erase_row_range_view. change (cellv (add_dirty s (cy s)) r c) with (cellv s r c). snorm.
  bdestruct; cbn; try reflexivity; lia.
Qed.
Lemma WF_ech s n : WF s -> WF (step s (OEch n)).
Proof.
  intros W. cbn [step]. unfold erase_characters.
  apply erase_row_range_WF; [apply add_dirty_WF; [exact W|apply (wf_y s W)]|]. cbn. lia.
Qed.

(* ---- EL ---- *)
Lemma ref_el_gen s h : WF s -> Aeq (abs (erase_in_line s h)) (a_el (abs s) h).
Proof.
  intros W. unfold erase_in_line, a_el.
  set (hh := match h with Some v => v | None => 0 end).
  destruct (hh =? 0); [|destruct (hh =? 1); [|destruct (hh =? 2)]].
  all: aeq_fields; intros r c Hr Hc; cbn [abs a_grid] in *;
    rewrite ?erase_row_range_view; change (cellv (add_dirty s (cy s)) r c) with (cellv s r c); snorm;
    try reflexivity; bdestruct; cbn; try reflexivity; lia.
Qed.
Lemma ref_el s h : WF s -> Aeq (abs (step s (OEl h))) (astep (abs s) (OEl h)).
Proof. apply ref_el_gen. Qed.
Lemma WF_el_gen s h : WF s -> WF (erase_in_line s h).
Proof.
  intros W. unfold erase_in_line.
  assert (W1 : WF (add_dirty s (cy s))) by (apply add_dirty_WF; [exact W|apply (wf_y s W)]).
  destruct (_ =? 0); [|destruct (_ =? 1); [|destruct (_ =? 2)]]; try exact W1;
    apply erase_row_range_WF; try exact W1; cbn; lia.
Qed.

(* ---- ED ---- *)
Definition ed_rows (s : screen) (lo hi : N) : NMap.t row :=
  fold_left (fun b y => NMap.set y (fill_row (cu_attr (cur s)) 0 (columns s) (orow (NMap.get y b))) b) (range lo hi) (buffer s).
Lemma ed_rows_get s lo hi r :
  NMap.get r (ed_rows s lo hi) =
  if (lo <=? r) && (r <? hi) then Some (fill_row (cu_attr (cur s)) 0 (columns s) (orow (NMap.get r (buffer s)))) else NMap.get r (buffer s).
Proof.
  unfold ed_rows, range.
  rewrite (map_range_get (fun o => fill_row (cu_attr (cur s)) 0 (columns s) (orow o))).
  bdestruct; cbn; try reflexivity; lia.
Qed.
Lemma ed_rows_view s s' lo hi r c :
  default_char s' = default_char s -> buffer s' = ed_rows s lo hi -> c < columns s ->
  cellv s' r c = if (lo <=? r) && (r <? hi) then cu_attr (cur s) else cellv s r c.
Proof.
  intros Hd Hb Hc. rewrite !cellv_rowv, Hd, Hb, ed_rows_get.
  destruct ((lo <=? r) && (r <? hi)); [|reflexivity].
  cbn [orow]. rewrite rowv_fill. bdestruct; cbn; try reflexivity; lia.
Qed.
Lemma ed_rows_WF s s' lo hi :
  WF s -> hi <= lines s -> columns s' = columns s -> lines s' = lines s -> cur s' = cur s -> margins s' = margins s ->
  (forall q, nmem q (dirty s') = true -> q < lines s) -> buffer s' = ed_rows s lo hi -> WF s'.
Proof.
  intros W Hh Hc Hl Hcu Hm Hd Hb. pose proof W as [w1 w2 w3 w4 w5 w6 w7 w8].
  constructor; unfold cx, cy, margins_wf in *; rewrite ?Hc, ?Hl, ?Hcu, ?Hm; auto.
  - intros r ln. rewrite Hb, ed_rows_get. destruct (N.leb_spec lo r), (N.ltb_spec r hi); cbn; try apply w7. intros _. lia.
  - intros r ln c x. rewrite Hb, ed_rows_get. destruct ((lo <=? r) && (r <? hi)); [|apply w8].
    intros E. inversion E; subst. apply fill_row_keys; [lia|]. intros c' x'. apply orow_keys. exact W.
Qed.

Lemma ref_ed s h : WF s -> Aeq (abs (step s (OEd h))) (astep (abs s) (OEd h)).
Proof.
  intros W. cbn [step astep]. unfold erase_in_display, a_ed.
  set (hh := match h with Some v => v | None => 0 end).
  change (ay (abs s)) with (cy s). change (a_lines (abs s)) with (lines s).
  set (iv := if hh =? 0 then (cy s + 1, lines s) else if hh =? 1 then (0, cy s) else if (hh =? 2) || (hh =? 3) then (0, lines s) else (0, 0)).
  destruct iv as [lo hi] eqn:Eiv.
  set (s1 := set_buffer (add_dirty_range s lo hi) _).
  assert (W1 : WF s1).
  { apply (ed_rows_WF s s1 lo hi); try reflexivity; auto.
    - unfold iv in Eiv. pose proof (wf_y s W). destruct (hh =? 0); [|destruct (hh =? 1); [|destruct ((hh =? 2) || (hh =? 3))]]; inversion Eiv; subst; lia.
    - cbn. apply nmem_nunion_range_lt; [|apply (wf_dirty s W)].
      unfold iv in Eiv. pose proof (wf_y s W). destruct (hh =? 0); [|destruct (hh =? 1); [|destruct ((hh =? 2) || (hh =? 3))]]; inversion Eiv; subst; lia. }
  assert (G1 : Aeq (abs s1) (a_with_grid (a_dirty_range (abs s) lo hi)
                 (fun r c => if (lo <=? r) && (r <? hi) then aattr (abs s) else a_grid (abs s) r c))).
  { constructor; try reflexivity; try apply seteq_refl. intros r c Hr Hc. cbn [abs a_grid a_lines a_cols] in *.
    rewrite (ed_rows_view s s1 lo hi r c); [reflexivity|reflexivity|reflexivity|exact Hc]. }
  destruct ((hh =? 0) || (hh =? 1)) eqn:E01; [|exact G1].
  (* followed by EL hh on the cursor line *)
  eapply Aeq_trans; [apply ref_el_gen; exact W1|].
  (* a_el is a congruence for Aeq on these two states: same cursor, same size *)
  unfold a_el. set (g2 := a_with_grid _ _) in *.
  assert (Ecur : a_cur (abs s1) = a_cur g2) by reflexivity.
  destruct (hh =? 0); [|destruct (hh =? 1); [|destruct (hh =? 2)]].
  all: destruct G1 as [q1 q2 q3 q4 q5 q6 q7 q8 q9 q10 q11 q12 q13 q14 q15];
    constructor; try assumption; try reflexivity;
    try (cbn [a_dirty a_dirty_add a_with_dirty a_fill_row a_with_grid]; unfold ay; rewrite Ecur; apply seteq_nadd; assumption).
  all: intros r c Hr Hc; unfold a_fill_row; cbn [a_grid a_with_grid a_dirty_add a_with_dirty a_cols a_lines] in *;
    unfold ay, ax, aattr; cbn [a_cur a_with_dirty a_dirty_add]; rewrite ?Ecur, ?q1;
    try (rewrite q3 by assumption); reflexivity.
Qed.
Lemma WF_ed s h : WF s -> WF (step s (OEd h)).
Proof.
  intros W. cbn [step]. unfold erase_in_display.
  set (hh := match h with Some v => v | None => 0 end).
  set (iv := if hh =? 0 then (cy s + 1, lines s) else if hh =? 1 then (0, cy s) else if (hh =? 2) || (hh =? 3) then (0, lines s) else (0, 0)).
  destruct iv as [lo hi] eqn:Eiv.
  set (s1 := set_buffer (add_dirty_range s lo hi) _).
  assert (Hh : hi <= lines s).
  { unfold iv in Eiv. pose proof (wf_y s W). destruct (hh =? 0); [|destruct (hh =? 1); [|destruct ((hh =? 2) || (hh =? 3))]]; inversion Eiv; subst; lia. }
  assert (W1 : WF s1).
  { apply (ed_rows_WF s s1 lo hi); try reflexivity; auto.
    cbn. apply nmem_nunion_range_lt; [exact Hh|apply (wf_dirty s W)]. }
  destruct ((hh =? 0) || (hh =? 1)); [apply WF_el_gen; exact W1|exact W1].
Qed.
End S.
