(* Proofs/RefineSimple.v — refinement of the operations that do not touch the cell buffer:
   abs (step s o) = astep (abs s) o  (Leibniz equality of abstract states). *)
From Coq Require Import NArith List Bool Lia.
From MT Require Import Lib Types Charsets Tables Screen Spec Obs Stmt.
From MT.Proofs Require Import WF Aeq.
Import ListNotations.
Open Scope N_scope.

Lemma nhat_hat n : nhat n = hat n.
Proof. destruct n as [[|p]|]; reflexivity. Qed.
Lemma max0 x : N.max 0 x = x. Proof. lia. Qed.

Section S.
Variable wid : cp -> N. Variable is_comb : cp -> bool. Variable nfc : str -> str.
Notation step := (step wid is_comb nfc).
Notation astep := (astep wid is_comb nfc).

Lemma abs_set_x s x : abs (set_x s x) = a_x (abs s) x. Proof. reflexivity. Qed.
Lemma abs_set_y s y : abs (set_y s y) = a_y (abs s) y. Proof. reflexivity. Qed.

Lemma ref_cuu s n : abs (step s (OCuu n)) = astep (abs s) (OCuu n).
Proof. cbn [step astep]. unfold cursor_up, a_cuu. rewrite nhat_hat. reflexivity. Qed.
Lemma ref_cud s n : abs (step s (OCud n)) = astep (abs s) (OCud n).
Proof. cbn [step astep]. unfold cursor_down, a_cud. rewrite nhat_hat. reflexivity. Qed.
Lemma ref_cnl s n : abs (step s (OCnl n)) = astep (abs s) (OCnl n).
Proof. cbn [step astep]. unfold cursor_down1, cursor_down, a_cud, carriage_return. rewrite nhat_hat. reflexivity. Qed.
Lemma ref_cpl s n : abs (step s (OCpl n)) = astep (abs s) (OCpl n).
Proof. cbn [step astep]. unfold cursor_up1, cursor_up, a_cuu, carriage_return. rewrite nhat_hat. reflexivity. Qed.
Lemma ref_cuf s n : abs (step s (OCuf n)) = astep (abs s) (OCuf n).
Proof.
  cbn [step astep]. unfold cursor_forward, ensure_hbounds, a_cuf. rewrite nhat_hat.
  unfold cx. cbn. rewrite max0. reflexivity.
Qed.
Lemma cursor_back_closed s n : WF s -> cursor_back s n = set_x s (N.min (cx s) (columns s - 1) - hat n).
Proof.
  intros W. unfold cursor_back, ensure_hbounds. rewrite nhat_hat.
  pose proof (wf_x s W) as Hx. pose proof (wf_cols s W) as Hc. unfold cx in *.
  destruct (cu_x (cur s) =? columns s) eqn:E1.
  - apply N.eqb_eq in E1. cbn [set_x set_cur cur cu_x columns].
    destruct (hat n <=? cu_x (cur s) - 1) eqn:E2; unfold set_x, set_cur; cbn [cur cu_x cu_y cu_attr cu_hidden columns savepoints lines dirty margins buffer mode title icon_name charset g0 g1 tabstops saved_columns];
      f_equal; f_equal; [apply N.leb_le in E2|apply N.leb_gt in E2]; lia.
  - apply N.eqb_neq in E1.
    destruct (hat n <=? cu_x (cur s)) eqn:E2; unfold set_x, set_cur; cbn [cur cu_x cu_y cu_attr cu_hidden columns savepoints lines dirty margins buffer mode title icon_name charset g0 g1 tabstops saved_columns];
      f_equal; f_equal; [apply N.leb_le in E2|apply N.leb_gt in E2]; lia.
Qed.
Lemma ref_cub_gen s n : WF s -> abs (cursor_back s n) = a_cub (abs s) n.
Proof. intros W. rewrite cursor_back_closed by assumption. reflexivity. Qed.
Lemma ref_cub s n : WF s -> abs (step s (OCub n)) = astep (abs s) (OCub n).
Proof. apply ref_cub_gen. Qed.
Lemma ref_bs s : WF s -> abs (step s OBackspace) = astep (abs s) OBackspace.
Proof. apply ref_cub_gen. Qed.
Lemma ref_cr s : abs (step s OCR) = astep (abs s) OCR. Proof. reflexivity. Qed.
Lemma ref_bell s : abs (step s OBell) = astep (abs s) OBell. Proof. reflexivity. Qed.
Lemma ref_da s m p : abs (step s (ODa m p)) = astep (abs s) (ODa m p). Proof. reflexivity. Qed.
Lemma ref_cha s n : abs (step s (OCha n)) = astep (abs s) (OCha n).
Proof. cbn [step astep]. unfold cursor_to_column, ensure_hbounds, a_cha, cx. cbn. rewrite max0. reflexivity. Qed.

Lemma abs_vbounds s u : abs (ensure_vbounds s u) = a_vclamp (abs s) u.
Proof.
  unfold ensure_vbounds, a_vclamp. unfold abs at 2. cbn [a_margins].
  unfold amode, has_mode. cbn [a_mode abs].
  destruct (margins s) as [[t b]|]; [destruct (u || nmem DECOM (mode s))|]; rewrite N.max_comm; reflexivity.
Qed.
Lemma ref_vpa s n : abs (step s (OVpa n)) = astep (abs s) (OVpa n).
Proof.
  cbn [step astep]. unfold cursor_to_line, a_vpa. rewrite abs_vbounds. f_equal.
  unfold has_mode, amode. cbn [mode set_y set_cur abs a_mode].
  destruct (nmem DECOM (mode s)); [|reflexivity].
  cbn [margins set_y set_cur abs a_margins]. destruct (margins s) as [[t b]|]; reflexivity.
Qed.
Lemma abs_cup s l c : abs (cursor_position s l c) = a_cup (abs s) l c.
Proof.
  unfold cursor_position, a_cup. cbn [abs a_margins a_cols].
  assert (Hh : forall o : option N, match o with Some a => if a =? 0 then 1 else a | None => 1 end = hat o).
  { intros [[|p]|]; reflexivity. }
  rewrite !Hh.
  assert (G : forall line, abs (ensure_vbounds (ensure_hbounds (set_y (set_x s (hat c - 1)) line)) false)
              = a_vclamp (a_xy (abs s) (N.min (hat c - 1) (columns s - 1)) line) false).
  { intros line. rewrite abs_vbounds. f_equal. unfold ensure_hbounds, cx. cbn. rewrite max0. reflexivity. }
  unfold amode, has_mode. cbn [a_mode abs].
  destruct (margins s) as [[t b]|]; [|apply G].
  destruct (nmem DECOM (mode s)); [|apply G].
  assert (E : (hat l - 1 + t <? t) = false) by (apply N.ltb_ge; lia). rewrite E. cbn [orb].
  destruct (b <? hat l - 1 + t); [reflexivity|apply G].
Qed.
Lemma ref_cup s l c : abs (step s (OCup l c)) = astep (abs s) (OCup l c).
Proof. apply abs_cup. Qed.

Lemma ref_settab s : abs (step s OSetTab) = astep (abs s) OSetTab. Proof. reflexivity. Qed.
Lemma ref_tbc s h : abs (step s (OTbc h)) = astep (abs s) (OTbc h).
Proof.
  cbn [step astep]. unfold clear_tab_stop, a_tbc.
  destruct (match h with Some v => v | None => 0 end =? 0); [reflexivity|].
  destruct (match h with Some v => v | None => 0 end =? 3); reflexivity.
Qed.
Lemma ref_save s : abs (step s OSave) = astep (abs s) OSave. Proof. reflexivity. Qed.
Lemma ref_so s : abs (step s OShiftOut) = astep (abs s) OShiftOut. Proof. reflexivity. Qed.
Lemma ref_si s : abs (step s OShiftIn) = astep (abs s) OShiftIn. Proof. reflexivity. Qed.
Lemma ref_title s t : abs (step s (OTitle t)) = astep (abs s) (OTitle t). Proof. reflexivity. Qed.
Lemma ref_icon s t : abs (step s (OIcon t)) = astep (abs s) (OIcon t). Proof. reflexivity. Qed.
Lemma ref_defcs s c m : abs (step s (ODefCharset c m)) = astep (abs s) (ODefCharset c m).
Proof.
  cbn [step astep]. unfold define_charset, a_defcs. destruct (charset_of_code c); [|reflexivity].
  destruct (leqb m [40]); [reflexivity|]. destruct (leqb m [41]); reflexivity.
Qed.
Lemma ref_margins s t b : abs (step s (OMargins t b)) = astep (abs s) (OMargins t b).
Proof.
  cbn [step astep]. unfold set_margins, a_stbm.
  destruct ((match t with Some t0 => t0 | None => 0 end =? 0) && match b with None => true | Some _ => false end); [reflexivity|].
  unfold margins_or_full, atb. cbn [abs a_margins a_lines].
  destruct (match margins s with Some m => m | None => (0, lines s - 1) end) as [mt mb].
  assert (G : forall t' b', (if t' + 1 <=? b' then cursor_position (set_margins_f s (Some (t', b'))) None None else s) = 
                            (if t' <? b' then cursor_position (set_margins_f s (Some (t', b'))) None None else s)).
  { intros t' b'. destruct (t' <? b') eqn:E1.
    - apply N.ltb_lt in E1. assert (E2 : (t' + 1 <=? b') = true) by (apply N.leb_le; lia). rewrite E2. reflexivity.
    - apply N.ltb_ge in E1. assert (E2 : (t' + 1 <=? b') = false) by (apply N.leb_gt; lia). rewrite E2. reflexivity. }
  rewrite G.
  destruct t as [t0|], b as [b0|]; rewrite ?max0;
    match goal with |- abs (if ?c then _ else _) = _ => destruct c; [apply abs_cup|reflexivity] end.
Qed.
End S.
