(* Proofs/Aeq.v — observational equality of abstract states (Prop form of Stmt.aeqb). *)
From Coq Require Import NArith List Bool Lia.
From MT Require Import Lib Types Charsets Tables Screen Spec Obs Stmt.
Import ListNotations.
Open Scope N_scope.

Definition seteq (l1 l2 : list N) : Prop := forall x, nmem x l1 = nmem x l2.
Record Aeq (a b : astate) : Prop := mkAeq {
  q_cols : a_cols a = a_cols b;
  q_lines : a_lines a = a_lines b;
  q_grid : forall r c, r < a_lines a -> c < a_cols a -> a_grid a r c = a_grid b r c;
  q_cur : a_cur a = a_cur b;
  q_margins : a_margins a = a_margins b;
  q_mode : seteq (a_mode a) (a_mode b);
  q_tabs : seteq (a_tabs a) (a_tabs b);
  q_dirty : seteq (a_dirty a) (a_dirty b);
  q_cs : a_cs a = a_cs b; q_g0 : a_g0 a = a_g0 b; q_g1 : a_g1 a = a_g1 b;
  q_title : a_title a = a_title b; q_icon : a_icon a = a_icon b;
  q_sp : a_sp a = a_sp b; q_savedcols : a_savedcols a = a_savedcols b }.

Lemma seteq_refl l : seteq l l. Proof. intros x; reflexivity. Qed.
Lemma seteq_sym a b : seteq a b -> seteq b a. Proof. intros H x; symmetry; apply H. Qed.
Lemma seteq_trans a b c : seteq a b -> seteq b c -> seteq a c.
Proof. intros H1 H2 x. rewrite H1. apply H2. Qed.
Lemma Aeq_refl a : Aeq a a.
Proof. constructor; auto using seteq_refl. Qed.
Lemma Aeq_of_eq a b : a = b -> Aeq a b. Proof. intros ->; apply Aeq_refl. Qed.
Lemma Aeq_sym a b : Aeq a b -> Aeq b a.
Proof.
  intros [c l g cu m mo t d cs g0 g1 ti ic sp sc].
  constructor; auto using seteq_sym.
  intros r cc Hr Hc. symmetry. apply g; congruence.
Qed.
Lemma Aeq_trans a b c : Aeq a b -> Aeq b c -> Aeq a c.
Proof.
  intros [c1 l1 g1' cu1 m1 mo1 t1 d1 cs1 g01 g11 ti1 ic1 sp1 sc1] [c2 l2 g2' cu2 m2 mo2 t2 d2 cs2 g02 g12 ti2 ic2 sp2 sc2].
  constructor; try congruence; eauto using seteq_trans.
  intros r cc Hr Hc. rewrite g1' by assumption. apply g2'; congruence.
Qed.

(* seteq lemmas for the list-set operations *)
Lemma seteq_nadd x a b : seteq a b -> seteq (nadd x a) (nadd x b).
Proof. intros H y. rewrite !nmem_nadd, H. reflexivity. Qed.
Lemma seteq_nrem x a b : seteq a b -> seteq (nrem x a) (nrem x b).
Proof. intros H y. rewrite !nmem_nrem, H. reflexivity. Qed.
Lemma seteq_nunion l a b : seteq a b -> seteq (nunion l a) (nunion l b).
Proof. intros H y. rewrite !nmem_nunion, H. reflexivity. Qed.
Lemma seteq_nunion2 l l' a b : seteq l l' -> seteq a b -> seteq (nunion l a) (nunion l' b).
Proof. intros H0 H y. rewrite !nmem_nunion, H, H0. reflexivity. Qed.
Lemma seteq_ndiff l a b : seteq a b -> seteq (ndiff a l) (ndiff b l).
Proof. intros H y. rewrite !nmem_ndiff, H. reflexivity. Qed.

(* boolean <-> Prop *)
Lemma nseteq_seteq a b : nseteq a b = true <-> seteq a b.
Proof. apply nseteq_spec. Qed.
