(* Proofs/SpecAll.v — two facts about the whole specification:
   (1) every operation keeps an abstract state well-formed (C09 at the spec level);
   (2) every operation respects observational equality (the visible result depends on visible state only). *)
From Coq Require Import NArith List Bool Lia.
From MT Require Import Lib Types Charsets Tables Screen Spec Obs Stmt.
From MT.Proofs Require Import WF Aeq Loops RefineSimple RefineTab P05 P06 Congr CongrGrid CongrMore.
Import ListNotations.
Open Scope N_scope.

Definition args_ok (o : op) : Prop :=
  match o with
  | OResize l c => (match l with Some v => 1 <= v | None => True end) /\ (match c with Some v => 1 <= v | None => True end)
  | _ => True
  end.

Section S.
Variable wid : cp -> N. Variable is_comb : cp -> bool. Variable nfc : str -> str.
Notation astep := (astep wid is_comb nfc).
Ltac sv := try exact wid; try exact is_comb; try exact nfc.

Lemma AWF_stbm a t bt : AWF a -> AWF (a_stbm a t bt).
Proof.
  intros W. pose proof W as [w1 w2 w3 w4 w5]. unfold a_stbm.
  destruct ((match t with Some t0 => t0 | None => 0 end =? 0) && match bt with None => true | Some _ => false end).
  - constructor; auto. exact I.
  - unfold atb. destruct (match a_margins a with Some m => m | None => (0, a_lines a - 1) end) as [mt mb] eqn:EM.
    set (t' := match t with Some v => N.min (v - 1) (a_lines a - 1) | None => mt end).
    set (b' := match bt with Some v => N.min (v - 1) (a_lines a - 1) | None => mb end).
    destruct (N.ltb_spec t' b'); [|exact W].
    assert (Hmb : mb <= a_lines a - 1) by (destruct (a_margins a) as [[t0 b0]|]; inversion EM; subst; lia).
    assert (Hb : b' <= a_lines a - 1) by (unfold b'; destruct bt; lia).
    apply AWF_cup; sv. constructor; unfold ax, ay in *; cbn [a_margins a_with_margins a_lines a_cols a_cur]; try assumption. split; assumption.
Qed.
Lemma AWF_il a n : AWF a -> AWF (a_il a n).
Proof.
  intros W. unfold a_il. destruct (atb a) as [t b]. destruct ((t <=? ay a) && (ay a <=? b)); [|exact W].
  apply AWF_cr; sv. apply (AWF_same_geom a); [exact W|repeat split].
Qed.
Lemma AWF_dl a n : AWF a -> AWF (a_dl a n).
Proof.
  intros W. unfold a_dl. destruct (atb a) as [t b]. destruct ((t <=? ay a) && (ay a <=? b)); [|exact W].
  apply AWF_cr; sv. apply (AWF_same_geom a); [exact W|repeat split].
Qed.
Ltac dmatch := repeat match goal with
  | |- context [match ?x with Some _ => _ | None => _ end] => destruct x as [[? ?]|] || destruct x
  | |- context [if ?c then _ else _] => destruct c
  | |- context [let '(_, _) := ?x in _] => destruct x
  | |- context [match ?x with [] => _ | _ :: _ => _ end] => destruct x
  end.
Lemma savedcols_linefeed a : a_savedcols (a_linefeed a) = a_savedcols a.
Proof. destruct a as [co li g cu ma mo ta di cs g0 g1 ti ic sp sc]. unf. dmatch; reflexivity. Qed.
Lemma savedcols_draw_char a ch : a_savedcols (a_draw_char wid is_comb nfc a ch) = a_savedcols a.
Proof.
  rewrite draw_char_stages. cbv zeta.
  assert (P : a_savedcols (pre_wrap a (wid ch)) = a_savedcols a).
  { unfold pre_wrap. destruct (ax a =? a_cols a); [|reflexivity].
    destruct (amode a DECAWM); [|destruct (0 <? wid ch); reflexivity].
    rewrite savedcols_linefeed. reflexivity. }
  revert P. generalize (pre_wrap a (wid ch)) as a1. intros a1 P.
  assert (Q : a_savedcols (if amode a1 IRM && (0 <? wid ch) then a_ich a1 (Some (wid ch)) else a1) = a_savedcols a)
    by (destruct (amode a1 IRM && (0 <? wid ch)); exact P).
  revert Q. generalize (if amode a1 IRM && (0 <? wid ch) then a_ich a1 (Some (wid ch)) else a1) as a2. intros a2 Q.
  assert (R : a_savedcols (place is_comb nfc a2 ch (wid ch)) = a_savedcols a).
  { rewrite <- Q. unfold place. destruct (_ =? 1); [reflexivity|]. destruct (_ =? 2); [destruct (_ <? _); reflexivity|].
    destruct (_ && _); [|reflexivity]. destruct (0 <? ax a2); [reflexivity|]. destruct (0 <? ay a2); reflexivity. }
  destruct (0 <? wid ch); exact R.
Qed.
Lemma savedcols_draw a t : a_savedcols (a_draw wid is_comb nfc a t) = a_savedcols a.
Proof.
  unfold a_draw. cbn [a_savedcols a_dirty_add a_with_dirty].
  generalize (map (a_translate a) t) as cs. intros cs. revert a. induction cs as [|c cs IH]; intros a; [reflexivity|].
  cbn [fold_left]. rewrite IH. apply savedcols_draw_char.
Qed.
Lemma savedcols_astep a o : (match o with OSm _ _ | ORm _ _ | OReset => False | _ => True end) ->
  a_savedcols (astep a o) = a_savedcols a.
Proof.
  intros Ho. destruct o; try contradiction; cbn [Spec.astep]; try apply savedcols_draw; try (apply savedcols_cup; sv); try (apply savedcols_ed; sv);
    try reflexivity.
  all: destruct a as [co li g cu ma mo ta di cs g0 g1 ti ic sp sc]; unfold a_resize, a_tbc; unf; dmatch; reflexivity.
Qed.
Lemma ASC_frame (a a' : astate) : a_savedcols a' = a_savedcols a -> ASC a -> ASC a'.
Proof. unfold ASC. intros ->. auto. Qed.

Theorem awf_astep a o : AWF a -> ASC a -> args_ok o -> AWF (astep a o) /\ ASC (astep a o).
Proof.
  intros W SC Ho. pose proof W as [w1 w2 w3 w4 w5].
  assert (F : (match o with OSm _ _ | ORm _ _ | OReset => False | _ => True end) -> AWF (astep a o) -> AWF (astep a o) /\ ASC (astep a o)).
  { intros Hn Hw. split; [exact Hw|]. apply (ASC_frame a); [apply savedcols_astep; exact Hn|exact SC]. }
  destruct o; cbn [Spec.astep]; try (apply AWF_set_mode; sv; assumption); try (apply F; [exact I|]); cbn [Spec.astep].
  all: try solve [apply (AWF_same_geom a); [exact W|repeat split; reflexivity]].
  - unfold a_defcs. destruct (charset_of_code code); [destruct (leqb mode [40]); [|destruct (leqb mode [41])]|]; apply (AWF_same_geom a); try exact W; repeat split.
  - split; [constructor; cbn; try assumption; try lia; exact I|exact I].
  - apply AWF_index; sv; exact W.
  - apply AWF_linefeed; sv; exact W.
  - apply AWF_rindex; sv; exact W.
  - apply AWF_restore; sv; exact W.
  - apply (c05_keeps_AWF wid is_comb nfc a OBackspace W eq_refl).
  - unfold a_tab. apply AWF_x; sv; [exact W|lia].
  - apply AWF_cr; sv; exact W.
  - apply AWF_draw; sv; exact W.
  - apply (c05_keeps_AWF wid is_comb nfc a (OCuu n) W eq_refl).
  - apply (c05_keeps_AWF wid is_comb nfc a (OCud n) W eq_refl).
  - apply (c05_keeps_AWF wid is_comb nfc a (OCuf n) W eq_refl).
  - apply (c05_keeps_AWF wid is_comb nfc a (OCub n) W eq_refl).
  - apply (c05_keeps_AWF wid is_comb nfc a (OCnl n) W eq_refl).
  - apply (c05_keeps_AWF wid is_comb nfc a (OCpl n) W eq_refl).
  - apply (c05_keeps_AWF wid is_comb nfc a (OCha n) W eq_refl).
  - apply AWF_cup; sv; exact W.
  - apply AWF_ed; sv; exact W.
  - apply AWF_el; sv; exact W.
  - apply AWF_il; exact W.
  - apply AWF_dl; exact W.
  - apply (c05_keeps_AWF wid is_comb nfc a (OVpa n) W eq_refl).
  - unfold a_tbc. destruct (_ =? 0); [|destruct (_ =? 3)]; apply (AWF_same_geom a); try exact W; repeat split.
  - apply AWF_stbm; exact W.
  - destruct Ho as [Hl Hc]. apply AWF_resize; sv; assumption.
Qed.

(* (2) the visible result of every operation depends on the visible state only *)
Theorem cg_astep a b o : AWF a -> ASC a -> Aeq a b -> Aeq (astep a o) (astep b o).
Proof.
  intros W SC H.
  destruct o; cbn [Spec.astep].
  - apply cg_decaln; assumption.
  - apply (congr_misc_ops wid is_comb nfc (ODefCharset code mode) a b W H I).
  - apply (congr_misc_ops wid is_comb nfc OReset a b W H I).
  - apply cg_index; assumption.
  - apply cg_linefeed; assumption.
  - apply cg_rindex; assumption.
  - apply (congr_tabs_ops wid is_comb nfc OSetTab a b W H). left; reflexivity.
  - apply (congr_misc_ops wid is_comb nfc OSave a b W H I).
  - apply cg_restore; sv; assumption.
  - apply (congr_misc_ops wid is_comb nfc OShiftOut a b W H I).
  - apply (congr_misc_ops wid is_comb nfc OShiftIn a b W H I).
  - apply (congr_misc_ops wid is_comb nfc OBell a b W H I).
  - apply (congr_cursor_ops wid is_comb nfc OBackspace a b W H eq_refl).
  - apply (congr_tabs_ops wid is_comb nfc OTab a b W H). right; right; reflexivity.
  - apply (congr_cursor_ops wid is_comb nfc OCR a b W H eq_refl).
  - apply cg_draw; assumption.
  - apply cg_ich; assumption.
  - apply (congr_cursor_ops wid is_comb nfc (OCuu n) a b W H eq_refl).
  - apply (congr_cursor_ops wid is_comb nfc (OCud n) a b W H eq_refl).
  - apply (congr_cursor_ops wid is_comb nfc (OCuf n) a b W H eq_refl).
  - apply (congr_cursor_ops wid is_comb nfc (OCub n) a b W H eq_refl).
  - apply (congr_cursor_ops wid is_comb nfc (OCnl n) a b W H eq_refl).
  - apply (congr_cursor_ops wid is_comb nfc (OCpl n) a b W H eq_refl).
  - apply (congr_cursor_ops wid is_comb nfc (OCha n) a b W H eq_refl).
  - apply (congr_cursor_ops wid is_comb nfc (OCup l c) a b W H eq_refl).
  - apply cg_ed; assumption.
  - apply cg_el; assumption.
  - apply cg_il; assumption.
  - apply cg_dl; assumption.
  - apply cg_dch; assumption.
  - apply cg_ech; assumption.
  - apply (congr_misc_ops wid is_comb nfc (ODa m p) a b W H I).
  - apply (congr_cursor_ops wid is_comb nfc (OVpa n) a b W H eq_refl).
  - apply (congr_tabs_ops wid is_comb nfc (OTbc how) a b W H). right; left; eexists; reflexivity.
  - apply cg_set_mode; assumption.
  - apply cg_set_mode; assumption.
  - apply (congr_misc_ops wid is_comb nfc (OSgr ps) a b W H I).
  - apply (congr_misc_ops wid is_comb nfc (OTitle t) a b W H I).
  - apply (congr_misc_ops wid is_comb nfc (OIcon t) a b W H I).
  - apply cg_stbm; assumption.
  - apply cg_resize; sv; assumption.
  - apply (congr_misc_ops wid is_comb nfc ODisplay a b W H I).
Qed.
(* lifted to operation sequences *)
Definition arun (a : astate) (os : list op) : astate := fold_left astep os a.
Theorem awf_arun os : forall a, AWF a -> ASC a -> Forall args_ok os -> AWF (arun a os) /\ ASC (arun a os).
Proof.
  induction os as [|o os IH]; intros a W SC F; [split; assumption|].
  inversion F; subst. cbn [arun fold_left]. destruct (awf_astep a o W SC H1) as [W' SC']. apply IH; assumption.
Qed.
Theorem cg_arun os : forall a b, AWF a -> ASC a -> Forall args_ok os -> Aeq a b -> Aeq (arun a os) (arun b os).
Proof.
  induction os as [|o os IH]; intros a b W SC F H; [exact H|].
  inversion F; subst. cbn [arun fold_left]. destruct (awf_astep a o W SC H2) as [W' SC'].
  apply IH; try assumption. apply cg_astep; assumption.
Qed.
End S.
