(* Proofs/RefineReset.v — RIS / Screen::new: reset yields the power-on state of the current geometry. *)
From Coq Require Import NArith List Bool Lia.
From MT Require Import Lib Types Charsets Tables Screen Spec Obs Stmt.
From MT.Proofs Require Import WF Aeq Loops View RefineSimple.
Import ListNotations.
Open Scope N_scope.

Section S.
Variable wid : cp -> N. Variable is_comb : cp -> bool. Variable nfc : str -> str.
Notation step := (step wid is_comb nfc).
Notation astep := (astep wid is_comb nfc).

(* closed form of reset on the sparse model (Leibniz) *)
Lemma reset_closed s : 1 <= columns s -> 1 <= lines s ->
  reset s = mkScreen (savepoints s) (columns s) (lines s) (range 0 (lines s)) None NMap.empty default_modes [] [] G0 Lat1 Vt100
                     (default_tabstops (columns s)) (mkCursor 0 0 cell_default false) None.
Proof.
  intros Hc Hl. destruct s as [sp c l d m b mo ti ic cs g0' g1' ts cu sc].
  cbn [columns lines savepoints] in *.
  lazy beta iota zeta delta [reset cursor_position ensure_vbounds ensure_hbounds set_x set_y set_cur set_dirty set_buffer
    set_margins_f set_mode_f set_title_f set_icon_f set_charset set_g0 set_g1 set_tabstops set_saved_columns cx cy
    default_char has_mode
    savepoints columns lines dirty margins buffer mode title icon_name charset g0 g1 tabstops cur saved_columns
    cu_x cu_y cu_attr cu_hidden].
  change (nmem DECSCNM default_modes) with false.
  f_equal. f_equal; lia.
Qed.
Lemma WF_reset s : 1 <= columns s -> 1 <= lines s -> WF (reset s).
Proof.
  intros Hc Hl. rewrite reset_closed by assumption.
  constructor; unfold cx, cy, margins_wf; cbn [savepoints columns lines dirty margins buffer mode title icon_name charset g0 g1 tabstops cur saved_columns cu_x cu_y]; try lia; try exact I.
  - intros y H. rewrite nmem_range in H. apply andb_true_iff in H. destruct H as [_ H]. apply N.ltb_lt in H. exact H.
  - intros r line H. discriminate H.
  - intros r line c x H. discriminate H.
Qed.
Lemma WF_init c l : 1 <= c -> 1 <= l -> WF (init c l).
Proof. intros Hc Hl. unfold init. apply WF_reset; assumption. Qed.

Lemma ref_reset s : WF s -> Aeq (abs (step s OReset)) (astep (abs s) OReset).
Proof.
  intros W. cbn [step astep]. rewrite reset_closed by (apply W).
  constructor; try reflexivity; try apply seteq_refl.
Qed.
Lemma init_abs c l : 1 <= c -> 1 <= l -> Aeq (abs (init c l)) (a_init c l).
Proof.
  intros Hc Hl. unfold init. rewrite reset_closed by assumption.
  constructor; try reflexivity; try apply seteq_refl.
Qed.
End S.
