(* Proofs/P13.v — C13: ICH / DCH splice the cursor row; what crosses the edge is gone for good. *)
From Coq Require Import NArith List Bool Lia.
From MT Require Import Lib Types Charsets Tables Screen Spec Obs Stmt.
From MT.Proofs Require Import WF Aeq Loops View RefineSimple RefineErase RefineShift.
Import ListNotations.
Open Scope N_scope.

Definition is_ichdch (o : op) : bool := match o with OIch _ | ODch _ => true | _ => false end.

Section S.
Variable wid : cp -> N. Variable is_comb : cp -> bool. Variable nfc : str -> str.
Notation step := (step wid is_comb nfc).
Notation astep := (astep wid is_comb nfc).

Lemma c13_refines s o : WF s -> is_ichdch o = true -> Aeq (abs (step s o)) (astep (abs s) o) /\ WF (step s o).
Proof.
  intros W H. destruct o; try discriminate H.
  - split; [apply ref_ich|apply WF_ich]; exact W.
  - split; [apply ref_dch|apply WF_dch]; exact W.
Qed.
(* ICH n: min(n̂, columns-x) blanks at the cursor, the rest shifted right, the overflow discarded *)
Lemma c13_ich a n r c : r < a_lines a -> c < a_cols a ->
  a_grid (astep a (OIch n)) r c =
  if (r =? ay a) && (ax a <=? c) then (if c <? ax a + hat n then adc a else a_grid a (ay a) (c - hat n)) else a_grid a r c.
Proof. intros _ _. reflexivity. Qed.
(* DCH n: min(n̂, columns-x) cells removed, the remainder shifted left, the right end filled with blank default cells *)
Lemma c13_dch a n r c : r < a_lines a -> c < a_cols a ->
  a_grid (astep a (ODch n)) r c =
  if (r =? ay a) && (ax a <=? c) then (if c + hat n <? a_cols a then a_grid a (ay a) (c + hat n) else adc a) else a_grid a r c.
Proof. intros _ _. reflexivity. Qed.
Lemma c13_frame a o : is_ichdch o = true ->
  let a' := astep a o in
  a_cur a' = a_cur a /\ a_mode a' = a_mode a /\ a_margins a' = a_margins a /\ a_tabs a' = a_tabs a /\
  a_cols a' = a_cols a /\ a_lines a' = a_lines a /\ a_sp a' = a_sp a /\
  (forall r c, r <> ay a -> a_grid a' r c = a_grid a r c).
Proof.
  intros H. destruct o; try discriminate H; cbn [astep]; repeat split; try reflexivity;
    intros r c Hr; unfold a_ich, a_dch; cbn [a_grid a_with_grid]; destruct (N.eqb_spec r (ay a)); try contradiction; reflexivity.
Qed.
(* "never reappear": the visible result of any later operation is a function of the visible grid only —
   the result of ICH/DCH depends on no cell at or beyond column `columns` *)
Lemma c13_no_hidden_source a b o : is_ichdch o = true ->
  a_cols a = a_cols b -> a_lines a = a_lines b -> a_cur a = a_cur b -> a_mode a = a_mode b ->
  (forall r c, r < a_lines a -> c < a_cols a -> a_grid a r c = a_grid b r c) -> ay a < a_lines a ->
  forall r c, r < a_lines a -> c < a_cols a -> a_grid (astep a o) r c = a_grid (astep b o) r c.
Proof.
  intros H Ec El Ecu Em G Hy r c Hr Hc. destruct o; try discriminate H; cbn [astep]; unfold a_ich, a_dch, adc, amode, ax, ay in *;
    cbn [a_grid a_with_grid]; rewrite <- ?Ecu, <- ?Em, <- ?Ec;
    bdestruct; cbn; try reflexivity; try (apply G; lia).
Qed.
End S.

(* ICH n followed by DCH n at the same position: the row is what it was, except that the n cells pushed over the right
   edge are gone for good (blank default cells at the end of the row) *)
Lemma c13_ich_then_dch a n r c : c < a_cols a ->
  a_grid (a_dch (a_ich a n) n) r c =
  if (r =? ay a) && (ax a <=? c) && (a_cols a <=? c + hat n) then adc a else a_grid a r c.
Proof.
  intros Hc. set (b := a_ich a n).
  assert (Ex : ax b = ax a) by reflexivity. assert (Ey : ay b = ay a) by reflexivity.
  assert (Ec : a_cols b = a_cols a) by reflexivity. assert (Ed : adc b = adc a) by reflexivity.
  assert (G : forall r c, a_grid b r c = if (r =? ay a) && (ax a <=? c) then (if c <? ax a + hat n then adc a else a_grid a (ay a) (c - hat n)) else a_grid a r c) by reflexivity.
  unfold a_dch. cbn [a_grid a_with_grid]. rewrite Ex, Ey, Ec, Ed, !G. clearbody b.
  destruct (N.eqb_spec r (ay a)) as [->|Hr]; cbn [andb]; [|reflexivity].
  rewrite N.eqb_refl. cbn [andb].
  destruct (N.leb_spec (ax a) c); cbn [andb]; [|reflexivity].
  destruct (N.ltb_spec (c + hat n) (a_cols a)), (N.leb_spec (a_cols a) (c + hat n)); try lia; [|reflexivity].
  destruct (N.leb_spec (ax a) (c + hat n)); [|lia]. destruct (N.ltb_spec (c + hat n) (ax a + hat n)); [lia|].
  f_equal. lia.
Qed.
