(* Proofs/RefineModes.v — SM / RM: mode bookkeeping, DECCOLM (remember width, resize, erase, home),
   DECOM (home), DECSCNM (reverse video everywhere), DECTCEM (cursor visibility). *)
From Coq Require Import NArith List Bool Lia.
From MT Require Import Lib Types Charsets Tables Screen Spec Obs Stmt.
From MT.Proofs Require Import WF Aeq Loops View RefineSimple RefineErase RefineShift RefineScroll RefineSgr RefineRestore RefineResize P05 Congr CongrGrid CongrMore RefineDraw.
Import ListNotations.
Open Scope N_scope.

(* observational equality of everything except the cells *)
Record Aeq_ng (a b : astate) : Prop := mkNg {
  n_cols : a_cols a = a_cols b; n_lines : a_lines a = a_lines b; n_cur : a_cur a = a_cur b; n_margins : a_margins a = a_margins b;
  n_mode : seteq (a_mode a) (a_mode b); n_tabs : seteq (a_tabs a) (a_tabs b); n_dirty : seteq (a_dirty a) (a_dirty b);
  n_cs : a_cs a = a_cs b; n_g0 : a_g0 a = a_g0 b; n_g1 : a_g1 a = a_g1 b; n_title : a_title a = a_title b; n_icon : a_icon a = a_icon b;
  n_sp : a_sp a = a_sp b; n_savedcols : a_savedcols a = a_savedcols b }.
Lemma Aeq_ng_of_Aeq a b : Aeq a b -> Aeq_ng a b.
Proof. intros [q1 q2 q3 q4 q5 q6 q7 q8 q9 q10 q11 q12 q13 q14 q15]. constructor; assumption. Qed.
Lemma Aeq_of_ng a b : Aeq_ng a b -> (forall r c, r < a_lines a -> c < a_cols a -> a_grid a r c = a_grid b r c) -> Aeq a b.
Proof. intros [n1 n2 n3 n4 n5 n6 n7 n8 n9 n10 n11 n12 n13 n14] G. constructor; assumption. Qed.
(* swap in another grid *)
Lemma ng_regrid a b : Aeq_ng a b -> Aeq a (a_with_grid b (a_grid a)).
Proof. intros N. apply Aeq_of_ng; [destruct N; constructor; assumption|reflexivity]. Qed.

Section S.
Variable wid : cp -> N. Variable is_comb : cp -> bool. Variable nfc : str -> str.
Notation step := (step wid is_comb nfc).
Notation astep := (astep wid is_comb nfc).
Ltac sv := try exact wid; try exact is_comb; try exact nfc.

(* operations that never look at the cells commute with swapping the grid *)
Lemma cup_regrid a g l c : a_cup (a_with_grid a g) l c = a_with_grid (a_cup a l c) g.
Proof.
  destruct a as [co li g0 cu ma mo ta di cs g0' g1' ti ic sp sc]. unf.
  destruct ma as [[t b]|]; repeat match goal with |- context [if ?x then _ else _] => destruct x end; reflexivity.
Qed.
Lemma ng_cup a b l c : AWF a -> Aeq_ng a b ->
  Aeq_ng (a_cup a l c) (a_cup b l c) /\ a_grid (a_cup a l c) = a_grid a /\ a_grid (a_cup b l c) = a_grid b.
Proof.
  intros W N.
  assert (G : forall x, a_grid (a_cup x l c) = a_grid x).
  { intros x. change (a_cup x l c) with (Spec.astep wid is_comb nfc x (OCup l c)). rewrite (c05_frame wid is_comb nfc x (OCup l c) eq_refl). reflexivity. }
  split; [|split; apply G].
  pose proof (cg_cup a (a_with_grid b (a_grid a)) l c W (ng_regrid a b N)) as H. rewrite cup_regrid in H.
  apply Aeq_ng_of_Aeq in H. destruct H as [n1 n2 n3 n4 n5 n6 n7 n8 n9 n10 n11 n12 n13 n14]. constructor; assumption.
Qed.
Lemma resize_regrid a g l c : exists g', a_resize (a_with_grid a g) l c = a_with_grid (a_resize a l c) g'.
Proof.
  destruct a as [co li g0 cu ma mo ta di cs g0' g1' ti ic sp sc]. unfold a_resize, a_with_grid, ax, ay, aattr, adc, amode.
  cbn [a_cols a_lines a_grid a_cur a_margins a_mode a_tabs a_dirty a_cs a_g0 a_g1 a_title a_icon a_sp a_savedcols].
  destruct (_ && _); eexists; reflexivity.
Qed.
Lemma ng_resize a b l c : AWF a -> Aeq_ng a b -> Aeq_ng (a_resize a l c) (a_resize b l c).
Proof.
  intros W N. pose proof (cg_resize a (a_with_grid b (a_grid a)) l c W (ng_regrid a b N)) as H.
  destruct (resize_regrid b (a_grid a) l c) as [g' E]. rewrite E in H.
  apply Aeq_ng_of_Aeq in H. destruct H as [n1 n2 n3 n4 n5 n6 n7 n8 n9 n10 n11 n12 n13 n14]. constructor; assumption.
Qed.
(* ED 2 overwrites every visible cell: the result no longer depends on the old cells *)
Lemma ng_ed2 a b : Aeq_ng a b -> Aeq (a_ed a (Some 2)) (a_ed b (Some 2)).
Proof.
  intros [n1 n2 n3 n4 n5 n6 n7 n8 n9 n10 n11 n12 n13 n14].
  unfold a_ed. cbn [N.eqb Pos.eqb orb]. unfold a_dirty_range, a_with_dirty, a_with_grid, aattr. rewrite n2, n3.
  constructor; cbn [a_cols a_lines a_grid a_cur a_margins a_mode a_tabs a_dirty a_cs a_g0 a_g1 a_title a_icon a_sp a_savedcols]; auto.
  - intros r c Hr Hc. destruct (N.leb_spec 0 r), (N.ltb_spec r (a_lines b)); cbn [andb]; try reflexivity; lia.
  - apply seteq_nunion. exact n7.
Qed.
Lemma ng_with_savedcols a b v : Aeq_ng a b -> Aeq_ng (a_with_savedcols a v) (a_with_savedcols b v).
Proof. intros [n1 n2 n3 n4 n5 n6 n7 n8 n9 n10 n11 n12 n13 n14]. constructor; cbn; auto. Qed.

Definition SCm (s : screen) : Prop := match saved_columns s with Some w => 1 <= w | None => True end.
Lemma WF_frame s s' : WF s -> columns s' = columns s -> lines s' = lines s -> cur s' = cur s -> margins s' = margins s ->
  dirty s' = dirty s -> buffer s' = buffer s -> WF s'.
Proof.
  intros [w1 w2 w3 w4 w5 w6 w7 w8] e1 e2 e3 e4 e5 e6. constructor; unfold cx, cy, margins_wf in *; rewrite ?e1, ?e2, ?e3, ?e4, ?e5, ?e6; assumption.
Qed.

(* ---- stage 1: dirty marking (DECSCNM) and the mode set ---- *)
Definition m_pre (s : screen) (ml : list N) (on : bool) : screen := if on then sm_pre s ml else rm_pre s ml.
Definition new_modes (m ml : list N) (on : bool) : list N := if on then nunion ml m else ndiff m ml.
Definition a_pre (a : astate) (ml : list N) (on : bool) : astate :=
  a_with_mode (if nmem DECSCNM ml then a_all_dirty a else a) (new_modes (a_mode (if nmem DECSCNM ml then a_all_dirty a else a)) ml on).
Lemma pre_stage s ml on : WF s ->
  WF (m_pre s ml on) /\ Aeq_ng (abs (m_pre s ml on)) (a_pre (abs s) ml on) /\
  buffer (m_pre s ml on) = buffer s /\ mode (m_pre s ml on) = new_modes (mode s) ml on /\
  saved_columns (m_pre s ml on) = saved_columns s /\
  (nmem DECSCNM ml = false -> Aeq (abs (m_pre s ml on)) (a_pre (abs s) ml on)).
Proof.
  intros W. pose proof (wf_lines s W).
  assert (E : m_pre s ml on = set_mode_f (if nmem DECSCNM ml then add_dirty_range s 0 (lines s) else s) (new_modes (mode s) ml on)).
  { unfold m_pre, sm_pre, rm_pre, new_modes. destruct on; destruct (nmem DECSCNM ml); reflexivity. }
  rewrite E. clear E.
  assert (W1 : WF (set_mode_f (if nmem DECSCNM ml then add_dirty_range s 0 (lines s) else s) (new_modes (mode s) ml on))).
  { apply WF_set_mode_f. destruct (nmem DECSCNM ml); [apply add_dirty_range_WF; [exact W|lia]|exact W]. }
  assert (NG : Aeq_ng (abs (set_mode_f (if nmem DECSCNM ml then add_dirty_range s 0 (lines s) else s) (new_modes (mode s) ml on))) (a_pre (abs s) ml on)).
  { unfold a_pre. destruct (nmem DECSCNM ml); constructor; try reflexivity; apply seteq_refl. }
  split; [exact W1|]. split; [exact NG|]. split; [destruct (nmem DECSCNM ml); reflexivity|]. split; [destruct (nmem DECSCNM ml); reflexivity|].
  split; [destruct (nmem DECSCNM ml); reflexivity|].
  intros Hn. apply Aeq_of_ng; [exact NG|]. intros r c Hr Hc. cbn [abs a_grid]. rewrite Hn. unfold a_pre. rewrite Hn. cbn [a_grid a_with_mode abs].
  rewrite !cellv_rowv.
  assert (D : default_char (set_mode_f s (new_modes (mode s) ml on)) = default_char s).
  { apply default_char_mode. cbn [mode set_mode_f]. unfold new_modes. destruct on; [rewrite nmem_nunion, Hn|rewrite nmem_ndiff, Hn]; cbn; try reflexivity. apply andb_true_r. }
  rewrite D. reflexivity.
Qed.

(* ---- stage 2: DECCOLM ---- *)
Lemma colm_tail s x : WF s -> Aeq_ng (abs s) x ->
  WF (cursor_position (erase_in_display s (Some 2)) None None) /\
  Aeq (abs (cursor_position (erase_in_display s (Some 2)) None None)) (a_cup (a_ed x (Some 2)) None None).
Proof.
  intros W N.
  assert (W2 : WF (erase_in_display s (Some 2))) by (apply (WF_ed wid is_comb nfc s (Some 2) W)).
  split; [apply (WF_cup wid is_comb nfc); exact W2|].
  rewrite abs_cup.
  eapply Aeq_trans.
  - apply cg_cup; [apply AWF_abs; exact W2|]. apply (ref_ed wid is_comb nfc s (Some 2) W).
  - apply cg_cup; [apply AWF_ed; apply AWF_abs; exact W|]. apply ng_ed2. exact N.
Qed.
Lemma resize_ng s x l c : WF s -> Aeq_ng (abs s) x ->
  (match l with Some v => 1 <= v | None => True end) -> (match c with Some v => 1 <= v | None => True end) ->
  WF (resize s l c) /\ Aeq_ng (abs (resize s l c)) (a_resize x l c).
Proof.
  intros W N Hl Hc. destruct (resize_spec s l c W Hl Hc) as [A W']. split; [exact W'|].
  apply Aeq_ng_of_Aeq in A. pose proof (ng_resize (abs s) x l c (AWF_abs s W) N) as B.
  destruct A as [a1 a2 a3 a4 a5 a6 a7 a8 a9 a10 a11 a12 a13 a14]. destruct B as [b1 b2 b3 b4 b5 b6 b7 b8 b9 b10 b11 b12 b13 b14].
  constructor; try congruence; eapply seteq_trans; eassumption.
Qed.

(* ---- stages 3-5: DECOM homes, DECSCNM flips every cell and the current rendition, DECTCEM ---- *)
Definition m_flip (s : screen) (on : bool) : screen :=
  select_graphic_rendition (set_buffer s (all_cells (fun c => with_reverse c on) (buffer s))) [if on then 7 else 27].
Definition a_flip (a : astate) (on : bool) : astate :=
  a_with_attr (a_with_grid a (fun r c => with_reverse (a_grid a r c) on)) (with_reverse (aattr a) on).
Definition rev_rel (s : screen) (a : astate) (on : bool) : Prop :=
  forall r c, r < lines s -> c < columns s -> with_reverse (cellv s r c) on = with_reverse (a_grid a r c) on.
Lemma set_text_reverse a b : set_text a FReverse b = with_reverse a b. Proof. destruct a; reflexivity. Qed.
Lemma with_reverse_idem a b : with_reverse (with_reverse a b) b = with_reverse a b. Proof. destruct a; reflexivity. Qed.
Lemma flip_stage s a on : WF s -> has_mode s DECSCNM = on -> Aeq_ng (abs s) a -> rev_rel s a on ->
  WF (m_flip s on) /\ Aeq (abs (m_flip s on)) (a_flip a on).
Proof.
  intros W Hm N R. unfold m_flip. rewrite sgr_closed.
  set (s1 := set_buffer s (all_cells (fun c => with_reverse c on) (buffer s))).
  assert (At : match [if on then 7 else 27] with [] => default_char s1 | _ => sgr_spec (default_char s1) (cu_attr (cur s1)) [if on then 7 else 27] end
               = with_reverse (cu_attr (cur s)) on).
  { destruct on; cbn [sgr_spec N.eqb Pos.eqb orb]; unfold sgr_simple; cbn [N.eqb Pos.eqb]; rewrite set_text_reverse; reflexivity. }
  rewrite At. clear At.
  assert (G : forall r, NMap.get r (buffer s1) = option_map (NMap.map_vals (fun c => with_reverse c on)) (NMap.get r (buffer s))).
  { intros r. unfold s1, all_cells. cbn [buffer set_buffer]. apply NMap.get_map_vals. }
  split.
  - apply (WF_rows_update s); try reflexivity; auto.
    + apply (wf_x s W).
    + apply (wf_dirty s W).
    + intros r line E. cbn [buffer set_attr set_cur] in E. rewrite (G r) in E.
      destruct (NMap.get r (buffer s)) as [ln|] eqn:E2; cbn [option_map] in E; [|discriminate]. inversion E; subst line. split; [apply (wf_rows s W _ _ E2)|].
      intros c x Ec. rewrite NMap.get_map_vals in Ec. destruct (NMap.get c ln) as [y|] eqn:E3; cbn [option_map] in Ec; [|discriminate].
      apply (wf_cells s W _ _ _ _ E2 E3).
  - destruct N as [n1 n2 n3 n4 n5 n6 n7 n8 n9 n10 n11 n12 n13 n14].
    unfold a_flip, a_with_attr, a_with_grid, a_with_cur, ax, ay, aattr. cbn [a_cur a_cols a_lines a_grid] in *. rewrite <- n3.
    constructor; cbn [abs a_cols a_lines a_grid a_cur a_margins a_mode a_tabs a_dirty a_cs a_g0 a_g1 a_title a_icon a_sp a_savedcols
                      columns lines cur margins mode tabstops dirty charset g0 g1 title icon_name savepoints saved_columns set_attr set_cur s1 set_buffer]; auto.
    intros r c Hr Hc. rewrite <- (R r c Hr Hc).
    unfold cellv. cbn [buffer set_attr set_cur]. rewrite (G r).
    assert (D : default_char (set_attr s1 (with_reverse (cu_attr (cur s)) on)) = with_reverse (default_char s) on).
    { unfold default_char, has_mode in *. cbn [mode set_attr set_cur s1 set_buffer]. rewrite Hm. reflexivity. }
    rewrite D. destruct (NMap.get r (buffer s)) as [ln|]; cbn [option_map]; [|reflexivity].
    rewrite NMap.get_map_vals. destruct (NMap.get c ln); reflexivity.
Qed.
Definition m_post (s : screen) (ml : list N) (on : bool) : screen := if on then sm_post s ml else rm_post s ml.
Definition a_post (a : astate) (ml : list N) (on : bool) : astate :=
  let a := if nmem DECOM ml then a_cup a None None else a in
  let a := if nmem DECSCNM ml then a_flip a on else a in
  if nmem DECTCEM ml then a_with_cur a (mkCursor (ax a) (ay a) (aattr a) (negb on)) else a.
Lemma post_stage s a ml on : WF s ->
  (if nmem DECSCNM ml then Aeq_ng (abs s) a /\ rev_rel s a on /\ has_mode s DECSCNM = on else Aeq (abs s) a) ->
  WF (m_post s ml on) /\ Aeq (abs (m_post s ml on)) (a_post a ml on) /\ saved_columns (m_post s ml on) = saved_columns s.
Proof.
  intros W P.
  assert (E : m_post s ml on =
     let s4 := if nmem DECOM ml then cursor_position s None None else s in
     let s5 := if nmem DECSCNM ml then m_flip s4 on else s4 in
     if nmem DECTCEM ml then set_hidden s5 (negb on) else s5).
  { unfold m_post, sm_post, rm_post, m_flip. destruct on; reflexivity. }
  rewrite E. clear E. unfold a_post. cbv zeta.
  (* DECOM *)
  set (s4 := if nmem DECOM ml then cursor_position s None None else s).
  set (a4 := if nmem DECOM ml then a_cup a None None else a).
  assert (W4 : WF s4) by (unfold s4; destruct (nmem DECOM ml); [apply (WF_cup wid is_comb nfc)|]; exact W).
  assert (F4 : buffer s4 = buffer s /\ mode s4 = mode s /\ columns s4 = columns s /\ lines s4 = lines s /\ saved_columns s4 = saved_columns s).
  { unfold s4. destruct (nmem DECOM ml); [|repeat split]. destruct (cup_frame s None None) as [cu Ecu]. rewrite Ecu. repeat split. }
  destruct F4 as [f1 [f2 [f3 [f4 f5]]]].
  assert (P4 : if nmem DECSCNM ml then Aeq_ng (abs s4) a4 /\ rev_rel s4 a4 on /\ has_mode s4 DECSCNM = on else Aeq (abs s4) a4).
  { unfold s4, a4. destruct (nmem DECOM ml) eqn:ED; [|exact P].
    destruct (nmem DECSCNM ml).
    - destruct P as [N [R Hm]]. destruct (ng_cup (abs s) a None None (AWF_abs s W) N) as [N' [G1 G2]].
      rewrite <- abs_cup in N', G1. split; [exact N'|]. split.
      + intros r c Hr Hc. rewrite G2. destruct (cup_frame s None None) as [cu Ecu]. rewrite Ecu in *.
        change (cellv (set_cur s cu) r c) with (cellv s r c). apply R; assumption.
      + destruct (cup_frame s None None) as [cu Ecu]. rewrite Ecu. exact Hm.
    - rewrite abs_cup. apply cg_cup; [apply AWF_abs; exact W|exact P]. }
  clearbody s4 a4.
  (* DECSCNM *)
  set (s5 := if nmem DECSCNM ml then m_flip s4 on else s4).
  set (a5 := if nmem DECSCNM ml then a_flip a4 on else a4).
  assert (S5 : WF s5 /\ Aeq (abs s5) a5 /\ saved_columns s5 = saved_columns s4).
  { unfold s5, a5. destruct (nmem DECSCNM ml); [|split; [exact W4|split; [exact P4|reflexivity]]].
    destruct P4 as [N [R Hm]]. destruct (flip_stage s4 a4 on W4 Hm N R) as [Wf Af]. split; [exact Wf|]. split; [exact Af|].
    unfold m_flip. rewrite sgr_closed. reflexivity. }
  destruct S5 as [W5 [A5 C5]]. clearbody s5 a5.
  destruct (nmem DECTCEM ml); [|split; [exact W5|split; [exact A5|congruence]]].
  split; [|split].
  - destruct W5 as [w1 w2 w3 w4 w5 w6 w7 w8]. constructor; auto.
  - destruct A5 as [q1 q2 q3 q4 q5 q6 q7 q8 q9 q10 q11 q12 q13 q14 q15]. unfold a_with_cur, ax, ay, aattr. rewrite <- q4.
    constructor; cbn [abs a_cols a_lines a_grid a_cur a_margins a_mode a_tabs a_dirty a_cs a_g0 a_g1 a_title a_icon a_sp a_savedcols] in *; auto.
  - cbn [saved_columns set_hidden set_cur]. congruence.
Qed.

(* ---- assembling SM / RM ---- *)
Lemma rev_rel_same_buffer s s0 a on : buffer s = buffer s0 -> columns s = columns s0 -> lines s = lines s0 ->
  (forall r c, a_grid a r c = cellv s0 r c) -> rev_rel s a on.
Proof.
  intros Eb Ec El G r c Hr Hc. rewrite G. unfold cellv. rewrite Eb.
  destruct (NMap.get r (buffer s0)) as [ln|]; [destruct (NMap.get c ln)|]; reflexivity.
Qed.
Lemma rev_rel_of_Aeq s a on : Aeq (abs s) a -> rev_rel s a on.
Proof. intros H r c Hr Hc. f_equal. apply (q_grid _ _ H); assumption. Qed.
Lemma a_pre_mode a ml on : a_mode (a_pre a ml on) = new_modes (a_mode a) ml on.
Proof. unfold a_pre. destruct (nmem DECSCNM ml); reflexivity. Qed.
Lemma new_modes_scnm m ml on : nmem DECSCNM ml = true -> nmem DECSCNM (new_modes m ml on) = on.
Proof. intros H. unfold new_modes. destruct on; [rewrite nmem_nunion, H; reflexivity|rewrite nmem_ndiff, H; apply andb_false_r]. Qed.
Lemma colm_modes x l c : a_mode (a_cup (a_ed (a_resize x l c) (Some 2)) None None) = a_mode x.
Proof.
  change (a_cup (a_ed (a_resize x l c) (Some 2)) None None) with (Spec.astep wid is_comb nfc (a_ed (a_resize x l c) (Some 2)) (OCup None None)).
  rewrite (c05_frame wid is_comb nfc _ (OCup None None) eq_refl). cbn [a_mode a_xy a_with_cur].
  unfold a_ed. cbn [N.eqb Pos.eqb orb a_mode a_with_grid a_dirty_range a_with_dirty]. unfold a_resize. destruct (_ && _); reflexivity.
Qed.

Theorem ref_set_mode s ms p : WF s ->
  WF (set_mode s ms p) /\ Aeq (abs (set_mode s ms p)) (a_set_mode (abs s) ms p true).
Proof.
  intros W. set (ml := enc_modes ms p).
  destruct (pre_stage s ml true W) as [W1 [N1 [B1 [M1 [C1 A1]]]]].
  change (set_mode s ms p) with
    (m_post (if nmem DECCOLM ml then cursor_position (erase_in_display (resize (set_saved_columns (m_pre s ml true) (Some (columns (m_pre s ml true)))) None (Some 132)) (Some 2)) None None
             else m_pre s ml true) ml true).
  change (a_set_mode (abs s) ms p true) with
    (a_post (if nmem DECCOLM ml then a_cup (a_ed (a_resize (a_with_savedcols (a_pre (abs s) ml true) (Some (a_cols (a_pre (abs s) ml true)))) None (Some 132)) (Some 2)) None None
             else a_pre (abs s) ml true) ml true).
  set (s1 := m_pre s ml true) in *. set (a2 := a_pre (abs s) ml true) in *.
  assert (Cs : columns s1 = columns s /\ lines s1 = lines s).
  { unfold s1, m_pre, sm_pre. destruct (nmem DECSCNM ml); split; reflexivity. }
  destruct Cs as [Cc Cl].
  destruct (nmem DECCOLM ml) eqn:EC.
  - (* DECCOLM: remember the width, 132 columns, erase, home *)
    set (s1' := set_saved_columns s1 (Some (columns s1))).
    assert (W1' : WF s1') by (apply (WF_frame s1); try reflexivity; exact W1).
    assert (N1' : Aeq_ng (abs s1') (a_with_savedcols a2 (Some (a_cols a2)))).
    { rewrite <- (n_cols _ _ N1). apply (ng_with_savedcols (abs s1) a2 (Some (columns s1)) N1). }
    destruct (resize_ng s1' _ None (Some 132) W1' N1' I) as [W2 N2]; [cbn; lia|].
    destruct (colm_tail _ _ W2 N2) as [W3 A3].
    destruct (post_stage _ (a_cup (a_ed (a_resize (a_with_savedcols a2 (Some (a_cols a2))) None (Some 132)) (Some 2)) None None) ml true W3) as [W4 [A4 _]]; [|split; assumption].
    destruct (nmem DECSCNM ml) eqn:ES; [|exact A3].
    split; [apply Aeq_ng_of_Aeq; exact A3|]. split; [apply rev_rel_of_Aeq; exact A3|].
    unfold has_mode. change (mode ?x) with (a_mode (abs x)). rewrite (q_mode _ _ A3 DECSCNM), colm_modes.
    cbn [a_mode a_with_savedcols]. unfold a2. rewrite a_pre_mode. apply new_modes_scnm. exact ES.
  - destruct (post_stage s1 a2 ml true W1) as [W4 [A4 _]]; [|split; assumption].
    destruct (nmem DECSCNM ml) eqn:ES; [|apply A1; reflexivity].
    split; [exact N1|]. split.
    + apply (rev_rel_same_buffer s1 s a2 true B1 Cc Cl). intros r c. unfold a2, a_pre. rewrite ES. reflexivity.
    + unfold has_mode. rewrite M1. apply new_modes_scnm. exact ES.
Qed.
Theorem ref_reset_mode s ms p : WF s -> SCm s ->
  WF (reset_mode s ms p) /\ Aeq (abs (reset_mode s ms p)) (a_set_mode (abs s) ms p false).
Proof.
  intros W SC. set (ml := enc_modes ms p).
  destruct (pre_stage s ml false W) as [W1 [N1 [B1 [M1 [C1 A1]]]]].
  change (reset_mode s ms p) with
    (m_post (if nmem DECCOLM ml then
               cursor_position (erase_in_display
                 (if columns (m_pre s ml false) =? 132 then
                    match saved_columns (m_pre s ml false) with
                    | Some w => set_saved_columns (resize (m_pre s ml false) None (Some w)) None
                    | None => m_pre s ml false end
                  else m_pre s ml false) (Some 2)) None None
             else m_pre s ml false) ml false).
  change (a_set_mode (abs s) ms p false) with
    (a_post (if nmem DECCOLM ml then
               a_cup (a_ed (if a_cols (a_pre (abs s) ml false) =? 132 then
                              match a_savedcols (a_pre (abs s) ml false) with
                              | Some w => a_with_savedcols (a_resize (a_pre (abs s) ml false) None (Some w)) None
                              | None => a_pre (abs s) ml false end
                            else a_pre (abs s) ml false) (Some 2)) None None
             else a_pre (abs s) ml false) ml false).
  set (s1 := m_pre s ml false) in *. set (a2 := a_pre (abs s) ml false) in *.
  assert (Cs : columns s1 = columns s /\ lines s1 = lines s).
  { unfold s1, m_pre, rm_pre. destruct (nmem DECSCNM ml); split; reflexivity. }
  destruct Cs as [Cc Cl].
  assert (Ecols : a_cols a2 = columns s1) by (symmetry; apply (n_cols _ _ N1)).
  assert (Esc : a_savedcols a2 = saved_columns s1) by (symmetry; apply (n_savedcols _ _ N1)).
  destruct (nmem DECCOLM ml) eqn:EC.
  - rewrite Ecols, Esc.
    assert (X : exists s2 x2, WF s2 /\ Aeq_ng (abs s2) x2 /\ a_mode x2 = a_mode a2 /\
              s2 = (if columns s1 =? 132 then match saved_columns s1 with Some w => set_saved_columns (resize s1 None (Some w)) None | None => s1 end else s1) /\
              x2 = (if columns s1 =? 132 then match saved_columns s1 with Some w => a_with_savedcols (a_resize a2 None (Some w)) None | None => a2 end else a2)).
    { destruct (columns s1 =? 132); [|exists s1, a2; split; [exact W1|split; [exact N1|split; [reflexivity|split; reflexivity]]]].
      unfold SCm in SC. rewrite <- C1 in SC.
      destruct (saved_columns s1) as [w|]; [|exists s1, a2; split; [exact W1|split; [exact N1|split; [reflexivity|split; reflexivity]]]].
      destruct (resize_ng s1 a2 None (Some w) W1 N1 I SC) as [W2 N2].
      exists (set_saved_columns (resize s1 None (Some w)) None), (a_with_savedcols (a_resize a2 None (Some w)) None).
      split; [apply (WF_frame (resize s1 None (Some w))); try reflexivity; exact W2|].
      split; [apply (ng_with_savedcols _ _ None N2)|]. split; [|split; reflexivity].
      cbn [a_mode a_with_savedcols]. unfold a_resize. destruct (_ && _); reflexivity. }
    destruct X as [s2 [x2 [W2 [N2 [Mx [Es Ex]]]]]]. rewrite <- Es, <- Ex.
    destruct (colm_tail _ _ W2 N2) as [W3 A3].
    destruct (post_stage _ (a_cup (a_ed x2 (Some 2)) None None) ml false W3) as [W4 [A4 _]]; [|split; assumption].
    destruct (nmem DECSCNM ml) eqn:ES; [|exact A3].
    split; [apply Aeq_ng_of_Aeq; exact A3|]. split; [apply rev_rel_of_Aeq; exact A3|].
    unfold has_mode. change (mode ?x) with (a_mode (abs x)). rewrite (q_mode _ _ A3 DECSCNM).
    assert (Em : a_mode (a_cup (a_ed x2 (Some 2)) None None) = a_mode x2).
    { change (a_cup (a_ed x2 (Some 2)) None None) with (Spec.astep wid is_comb nfc (a_ed x2 (Some 2)) (OCup None None)).
      rewrite (c05_frame wid is_comb nfc _ (OCup None None) eq_refl). reflexivity. }
    rewrite Em, Mx. unfold a2. rewrite a_pre_mode. apply new_modes_scnm. exact ES.
  - destruct (post_stage s1 a2 ml false W1) as [W4 [A4 _]]; [|split; assumption].
    destruct (nmem DECSCNM ml) eqn:ES; [|apply A1; reflexivity].
    split; [exact N1|]. split.
    + apply (rev_rel_same_buffer s1 s a2 false B1 Cc Cl). intros r c. unfold a2, a_pre. rewrite ES. reflexivity.
    + unfold has_mode. rewrite M1. apply new_modes_scnm. exact ES.
Qed.
End S.
