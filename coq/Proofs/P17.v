(* Proofs/P17.v — C17: the dirty set covers every row whose appearance changed. *)
From Coq Require Import NArith List Bool Lia.
From MT Require Import Lib Types Charsets Tables Screen Spec Obs Stmt.
From MT.Proofs Require Import WF Aeq Loops RefineSimple P05 Congr CongrMore SpecAll.
Import ListNotations.
Open Scope N_scope.

Definition alld (a : astate) : Prop := forall r, r < a_lines a -> nmem r (a_dirty a) = true.
Definition keeps (a a' : astate) : Prop :=
  a_lines a' = a_lines a /\ a_cols a' = a_cols a /\
  (forall r, nmem r (a_dirty a) = true -> nmem r (a_dirty a') = true) /\
  (forall r c, nmem r (a_dirty a') = false -> a_grid a' r c = a_grid a r c).
(* either every row is marked, or the geometry is unchanged, the set only grew, and every row NOT in it has
   exactly the cells it had before *)
Definition Upd (a a' : astate) : Prop := alld a' \/ keeps a a'.

Lemma keeps_refl a : keeps a a. Proof. repeat split; auto. Qed.
Lemma clean_back a a' r : (forall r, nmem r (a_dirty a) = true -> nmem r (a_dirty a') = true) ->
  nmem r (a_dirty a') = false -> nmem r (a_dirty a) = false.
Proof. intros M H. destruct (nmem r (a_dirty a)) eqn:E; [rewrite (M r E) in H; discriminate|reflexivity]. Qed.
Lemma keeps_trans a b c : keeps a b -> keeps b c -> keeps a c.
Proof.
  intros [l1 [c1 [m1 g1]]] [l2 [c2 [m2 g2]]]. repeat split; try congruence; auto.
  intros r cc H. rewrite g2 by exact H. apply g1. eapply clean_back; eassumption.
Qed.
Lemma upd_refl a : Upd a a. Proof. right. apply keeps_refl. Qed.
Lemma upd_alld a b : Upd a b -> alld a -> alld b.
Proof. intros [H|[l1 [c1 [m1 g1]]]] A; [exact H|]. intros r Hr. apply m1. apply A. rewrite <- l1. exact Hr. Qed.
Lemma upd_trans a b c : Upd a b -> Upd b c -> Upd a c.
Proof.
  intros H1 H2. destruct H2 as [H2|H2]; [left; exact H2|].
  destruct H1 as [H1|H1]; [left; apply (upd_alld b c); [right; exact H2|exact H1]|right; eapply keeps_trans; eassumption].
Qed.
Lemma keeps_same a a' : a_lines a' = a_lines a -> a_cols a' = a_cols a -> a_dirty a' = a_dirty a -> a_grid a' = a_grid a -> keeps a a'.
Proof. intros H1 H2 H3 H4. repeat split; auto; [intros r; rewrite H3; auto|intros r c _; rewrite H4; reflexivity]. Qed.
Ltac same := apply keeps_same; reflexivity.

Lemma k_xy a x y : keeps a (a_xy a x y). Proof. same. Qed.
Lemma k_vclamp a u : keeps a (a_vclamp a u).
Proof. unfold a_vclamp. destruct (match a_margins a with Some m => if u || amode a DECOM then m else (0, a_lines a - 1) | None => (0, a_lines a - 1) end). same. Qed.
Lemma k_cup (wid : cp -> N) (is_comb : cp -> bool) (nfc : str -> str) a l c : keeps a (a_cup a l c).
Proof. change (a_cup a l c) with (astep wid is_comb nfc a (OCup l c)). rewrite (c05_frame wid is_comb nfc a (OCup l c) eq_refl). same. Qed.
Lemma k_dirty_add a y : keeps a (a_dirty_add a y).
Proof. repeat split; auto. intros r H. cbn [a_dirty a_dirty_add a_with_dirty]. rewrite nmem_nadd, H. apply orb_true_r. Qed.
Lemma k_dirty_range a lo hi : keeps a (a_dirty_range a lo hi).
Proof. repeat split; auto. intros r H. cbn [a_dirty a_dirty_range a_with_dirty]. rewrite nmem_nunion, H. apply orb_true_r. Qed.
Lemma alld_all_dirty a : alld (a_all_dirty a).
Proof. intros r Hr. cbn [a_lines a_all_dirty a_dirty_range a_with_dirty] in Hr. cbn [a_dirty a_all_dirty a_dirty_range a_with_dirty]. rewrite nmem_nunion, nmem_range. bdestruct; cbn; try reflexivity; lia. Qed.
Lemma alld_same a b : a_lines b = a_lines a -> a_dirty b = a_dirty a -> alld a -> alld b.
Proof. intros H1 H2 A r Hr. rewrite H2. apply A. rewrite <- H1. exact Hr. Qed.

(* one row: the row is marked and only that row changes *)
Lemma k_row a y (f : N -> N -> cell) : (forall r c, r <> y -> f r c = a_grid a r c) -> keeps a (a_with_grid (a_dirty_add a y) f).
Proof.
  intros F. repeat split; auto.
  - intros r H. cbn [a_dirty a_with_grid a_dirty_add a_with_dirty]. rewrite nmem_nadd, H. apply orb_true_r.
  - intros r c H. cbn [a_dirty a_with_grid a_dirty_add a_with_dirty] in H. rewrite nmem_nadd in H. apply orb_false_iff in H. destruct H as [H _].
    apply N.eqb_neq in H. cbn [a_grid a_with_grid]. apply F. exact H.
Qed.
Lemma k_rows a lo hi (f : N -> N -> cell) : (forall r c, ~ (lo <= r < hi) -> f r c = a_grid a r c) -> keeps a (a_with_grid (a_dirty_range a lo hi) f).
Proof.
  intros F. repeat split; auto.
  - intros r H. cbn [a_dirty a_with_grid a_dirty_range a_with_dirty]. rewrite nmem_nunion, H. apply orb_true_r.
  - intros r c H. cbn [a_dirty a_with_grid a_dirty_range a_with_dirty] in H. rewrite nmem_nunion in H. apply orb_false_iff in H. destruct H as [H _].
    rewrite nmem_range in H. cbn [a_grid a_with_grid]. apply F. intros [H1 H2]. 
    destruct (N.leb_spec lo r), (N.ltb_spec r hi); cbn in H; try discriminate; lia.
Qed.

Section S.
Variable wid : cp -> N. Variable is_comb : cp -> bool. Variable nfc : str -> str.
Notation astep := (astep wid is_comb nfc).
Notation arun := (arun wid is_comb nfc).
Notation k_cup := (k_cup wid is_comb nfc).

Lemma k_move a o : is_move o = true -> keeps a (astep a o).
Proof. intros H. rewrite (c05_frame wid is_comb nfc a o H). same. Qed.
Lemma u_index a : Upd a (a_index a).
Proof.
  unfold a_index. destruct (atb a) as [t b]. destruct (ay a =? b).
  - left. eapply alld_same; [| |apply (alld_all_dirty a)]; reflexivity.
  - right. apply (k_move a (OCud None) eq_refl).
Qed.
Lemma u_rindex a : Upd a (a_rindex a).
Proof.
  unfold a_rindex. destruct (atb a) as [t b]. destruct (ay a =? t).
  - left. eapply alld_same; [| |apply (alld_all_dirty a)]; reflexivity.
  - right. apply (k_move a (OCuu None) eq_refl).
Qed.
Lemma u_linefeed a : Upd a (a_linefeed a).
Proof. unfold a_linefeed. destruct (amode (a_index a) LNM); [eapply upd_trans; [apply u_index|right; same]|apply u_index]. Qed.
Lemma atb_bound a t b : AWF a -> atb a = (t, b) -> b < a_lines a.
Proof.
  intros W E. unfold atb in E. pose proof (aw_margins a W) as M. pose proof (aw_lines a W).
  destruct (a_margins a) as [[t0 b0]|]; inversion E; subst; lia.
Qed.
Lemma k_il a n : AWF a -> keeps a (a_il a n).
Proof.
  intros W. unfold a_il. destruct (atb a) as [t b] eqn:E. pose proof (atb_bound a t b W E) as Hb.
  destruct ((t <=? ay a) && (ay a <=? b)); [|apply keeps_refl].
  eapply keeps_trans; [apply k_rows|same].
  intros r c Hr. cbv beta. bdestruct; cbn; try reflexivity; lia.
Qed.
Lemma k_dl a n : AWF a -> keeps a (a_dl a n).
Proof.
  intros W. unfold a_dl. destruct (atb a) as [t b] eqn:E. pose proof (atb_bound a t b W E) as Hb.
  destruct ((t <=? ay a) && (ay a <=? b)); [|apply keeps_refl].
  eapply keeps_trans; [apply k_rows|same].
  intros r c Hr. cbv beta. destruct (N.leb_spec (ay a) r), (N.leb_spec r b); cbn; try reflexivity; lia.
Qed.
Lemma k_ich a n : keeps a (a_ich a n).
Proof. unfold a_ich. apply k_row. intros r c Hr. destruct (N.eqb_spec r (ay a)); [contradiction|reflexivity]. Qed.
Lemma k_dch a n : keeps a (a_dch a n).
Proof. unfold a_dch. apply k_row. intros r c Hr. destruct (N.eqb_spec r (ay a)); [contradiction|reflexivity]. Qed.
Lemma k_fill_row a y lo hi : keeps a (a_fill_row (a_dirty_add a y) y lo hi).
Proof. unfold a_fill_row. apply (k_row a y). intros r c Hr. cbn [a_grid a_dirty_add a_with_dirty]. destruct (N.eqb_spec r y); [contradiction|reflexivity]. Qed.
Lemma k_ech a n : keeps a (a_ech a n). Proof. apply k_fill_row. Qed.
Lemma k_el a h : keeps a (a_el a h).
Proof.
  unfold a_el. destruct (_ =? 0); [apply k_fill_row|]. destruct (_ =? 1); [apply k_fill_row|]. destruct (_ =? 2); [apply k_fill_row|apply k_dirty_add].
Qed.
Lemma k_ed a h : keeps a (a_ed a h).
Proof.
  unfold a_ed. destruct (if _ =? 0 then _ else _) as [lo hi].
  assert (K : keeps a (a_with_grid (a_dirty_range a lo hi) (fun r c => if (lo <=? r) && (r <? hi) then aattr a else a_grid a r c))).
  { apply k_rows. intros r c Hr. bdestruct; cbn; try reflexivity; lia. }
  destruct ((_ =? 0) || (_ =? 1)); [eapply keeps_trans; [exact K|apply k_el]|exact K].
Qed.
Lemma u_resize a l c : Upd a (a_resize a l c).
Proof.
  unfold a_resize. destruct (_ && _); [apply upd_refl|]. left. intros r Hr. cbn [a_lines a_dirty] in *. rewrite nmem_range. bdestruct; cbn; try reflexivity; lia.
Qed.
Lemma k_stbm a t b : keeps a (a_stbm a t b).
Proof.
  unfold a_stbm. destruct (_ && _); [same|]. destruct (atb a) as [mt mb]. destruct (_ <? _); [|apply keeps_refl].
  eapply keeps_trans; [|apply k_cup]. same.
Qed.
Lemma k_restore a : keeps a (a_restore a).
Proof.
  unfold a_restore. destruct (a_sp a) as [|sp rest].
  - eapply keeps_trans; [|apply k_cup]. same.
  - cbv zeta. eapply keeps_trans; [|apply k_vclamp]. same.
Qed.
Lemma u_set_mode a ms p on : Upd a (a_set_mode a ms p on).
Proof.
  unfold a_set_mode. cbv zeta. set (ml := if p then _ else ms).
  set (a1 := if nmem DECSCNM ml then a_all_dirty a else a).
  assert (U1 : Upd a a1) by (unfold a1; destruct (nmem DECSCNM ml); [left; apply alld_all_dirty|apply upd_refl]).
  set (a2 := a_with_mode a1 _). assert (U2 : Upd a1 a2) by (right; same).
  set (a3 := if nmem DECCOLM ml then _ else a2).
  assert (U3 : Upd a2 a3).
  { unfold a3. destruct (nmem DECCOLM ml); [|apply upd_refl].
    eapply upd_trans; [|right; apply k_cup]. eapply upd_trans; [|right; apply k_ed].
    destruct on; [eapply upd_trans; [|apply u_resize]; right; same|].
    destruct (a_cols a2 =? 132); [|apply upd_refl]. destruct (a_savedcols a2); [|apply upd_refl].
    eapply upd_trans; [apply u_resize|right; same]. }
  set (a4 := if nmem DECOM ml then a_cup a3 None None else a3).
  assert (U4 : Upd a3 a4) by (unfold a4; destruct (nmem DECOM ml); [right; apply k_cup|apply upd_refl]).
  set (a5 := if nmem DECSCNM ml then _ else a4).
  assert (U14 : Upd a a4) by (eapply upd_trans; [exact U1|]; eapply upd_trans; [exact U2|]; eapply upd_trans; eassumption).
  assert (U5 : Upd a a5).
  { unfold a5. destruct (nmem DECSCNM ml) eqn:E; [|exact U14]. left.
    assert (A4 : alld a4).
    { apply (upd_alld a1 a4); [eapply upd_trans; [exact U2|]; eapply upd_trans; eassumption|]. unfold a1. try rewrite E. apply alld_all_dirty. }
    eapply alld_same; [| |exact A4]; reflexivity. }
  destruct (nmem DECTCEM ml); [eapply upd_trans; [exact U5|right; same]|exact U5].
Qed.

(* ---- draw: the cursor's row is marked at the end (and before every wrap) ---- *)
Definition St (a b : astate) : Prop :=
  alld b \/ (a_lines b = a_lines a /\ a_cols b = a_cols a /\
             (forall r, nmem r (a_dirty a) = true -> nmem r (a_dirty b) = true) /\
             (forall r c, nmem r (a_dirty b) = false -> r <> ay b -> a_grid b r c = a_grid a r c) /\
             (ay b = ay a \/ nmem (ay a) (a_dirty b) = true)).
Lemma St_refl a : St a a. Proof. right. repeat split; auto. Qed.
Lemma St_trans a b c : St a b -> St b c -> St a c.
Proof.
  intros H1 H2. destruct H2 as [H2|[l2 [c2 [m2 [g2 y2]]]]]; [left; exact H2|].
  destruct H1 as [H1|[l1 [c1 [m1 [g1 y1]]]]].
  - left. intros r Hr. apply m2. apply H1. rewrite <- l2. exact Hr.
  - right. repeat split; try congruence; auto.
    + intros r cc Hc Hy. rewrite g2 by assumption. apply g1; [eapply clean_back; eassumption|].
      destruct y2 as [y2|y2]; [congruence|]. intros ->. rewrite y2 in Hc. discriminate.
    + destruct y1 as [y1|y1]; [destruct y2 as [y2|y2]; [left; congruence|right; rewrite <- y1; exact y2]|right; apply m2; exact y1].
Qed.
Lemma St_of_keeps a b : keeps a b -> (ay b = ay a \/ nmem (ay a) (a_dirty b) = true) -> St a b.
Proof. intros [l1 [c1 [m1 g1]]] Y. right. repeat split; auto. Qed.
Lemma St_of_upd a b : Upd a b -> (ay b = ay a \/ nmem (ay a) (a_dirty b) = true) -> St a b.
Proof. intros [H|H] Y; [left; exact H|apply St_of_keeps; assumption]. Qed.
Lemma St_put a x cl : St a (a_put a (ay a) x cl).
Proof.
  right. repeat split; auto. intros r c Hc Hy. cbn [a_grid a_put a_with_grid]. change (ay (a_put a (ay a) x cl)) with (ay a) in Hy.
  destruct (N.eqb_spec r (ay a)); [contradiction|reflexivity].
Qed.
Lemma nmem_ay_linefeed a : nmem (ay a) (a_dirty a) = true -> alld (a_linefeed (a_cr a)) \/ nmem (ay a) (a_dirty (a_linefeed (a_cr a))) = true.
Proof.
  intros H. destruct (u_linefeed (a_cr a)) as [A|[_ [_ [m _]]]]; [left; exact A|right]. apply m. exact H.
Qed.
Lemma St_pre_wrap a w : St a (pre_wrap a w).
Proof.
  unfold pre_wrap. destruct (ax a =? a_cols a); [|apply St_refl].
  destruct (amode a DECAWM); [|destruct (0 <? w); [apply St_of_keeps; [same|left; reflexivity]|apply St_refl]].
  set (a1 := a_dirty_add a (ay a)).
  assert (D1 : nmem (ay a1) (a_dirty a1) = true) by (unfold a1; cbn [a_dirty a_dirty_add a_with_dirty]; rewrite nmem_nadd; change (ay (a_with_dirty a _)) with (ay a); rewrite N.eqb_refl; reflexivity).
  assert (U : Upd a (a_linefeed (a_cr a1))).
  { eapply upd_trans; [right; apply k_dirty_add|]. eapply upd_trans; [right; apply (k_move a1 OCR eq_refl)|apply u_linefeed]. }
  destruct (nmem_ay_linefeed a1 D1) as [A|Y]; [left; exact A|]. apply St_of_upd; [exact U|right; exact Y].
Qed.
Lemma St_place a ch w : St a (place is_comb nfc a ch w).
Proof.
  unfold place. destruct (w =? 1); [apply St_put|]. destruct (w =? 2).
  - cbv zeta. destruct (_ <? _); [|apply St_put]. eapply St_trans; [apply St_put|]. apply (St_put (a_put a (ay a) (ax a) _)).
  - destruct ((w =? 0) && is_comb ch); [|apply St_refl].
    destruct (0 <? ax a); [apply St_put|]. destruct (0 <? ay a); [|apply St_refl].
    apply St_of_keeps; [|left; reflexivity].
    repeat split; auto.
    + intros r H. cbn [a_dirty a_dirty_add a_put a_with_grid a_with_dirty]. rewrite nmem_nadd, H. apply orb_true_r.
    + intros r c H. cbn [a_dirty a_dirty_add a_put a_with_grid a_with_dirty] in H. rewrite nmem_nadd in H. apply orb_false_iff in H. destruct H as [H _].
      cbn [a_grid a_dirty_add a_put a_with_grid a_with_dirty]. rewrite H. reflexivity.
Qed.
Lemma St_draw_char a ch : St a (a_draw_char wid is_comb nfc a ch).
Proof.
  rewrite draw_char_stages. cbv zeta.
  set (a1 := pre_wrap a (wid ch)). assert (S1 : St a a1) by apply St_pre_wrap.
  set (a2 := if amode a1 IRM && (0 <? wid ch) then a_ich a1 (Some (wid ch)) else a1).
  assert (S2 : St a1 a2) by (unfold a2; destruct (_ && _); [apply St_of_keeps; [apply k_ich|left; reflexivity]|apply St_refl]).
  set (a3 := place is_comb nfc a2 ch (wid ch)). assert (S3 : St a2 a3) by apply St_place.
  assert (S13 : St a a3) by (eapply St_trans; [exact S1|]; eapply St_trans; eassumption).
  destruct (0 <? wid ch); [|exact S13]. eapply St_trans; [exact S13|]. apply St_of_keeps; [same|left; reflexivity].
Qed.
Lemma St_draw_chars cs : forall a, St a (fold_left (a_draw_char wid is_comb nfc) cs a).
Proof. induction cs as [|c cs IH]; intros a; [apply St_refl|]. cbn [fold_left]. eapply St_trans; [apply St_draw_char|apply IH]. Qed.
Lemma u_draw a t : Upd a (a_draw wid is_comb nfc a t).
Proof.
  unfold a_draw. set (a' := fold_left _ _ a). pose proof (St_draw_chars (map (a_translate a) t) a) as S. fold a' in S.
  destruct S as [A|[l1 [c1 [m1 [g1 _]]]]].
  - left. apply (upd_alld a' (a_dirty_add a' (ay a'))); [right; apply k_dirty_add|exact A].
  - right. repeat split; auto.
    + intros r H. cbn [a_dirty a_dirty_add a_with_dirty]. rewrite nmem_nadd, (m1 r H). apply orb_true_r.
    + intros r c H. cbn [a_dirty a_dirty_add a_with_dirty] in H. rewrite nmem_nadd in H. apply orb_false_iff in H. destruct H as [H1 H2].
      apply N.eqb_neq in H1. cbn [a_grid a_dirty_add a_with_dirty]. apply g1; assumption.
Qed.

(* ---- every operation ---- *)
Theorem upd_astep a o : AWF a -> Upd a (astep a o).
Proof.
  intros W. destruct o; cbn [astep];
    try (right; same);
    try (right; apply (k_move a _ eq_refl)).
  - left. eapply alld_same; [| |apply (alld_all_dirty a)]; reflexivity.
  - right. unfold a_defcs. destruct (charset_of_code code); [|apply keeps_refl]. destruct (leqb mode [40]); [same|]. destruct (leqb mode [41]); [same|apply keeps_refl].
  - left. intros r Hr. cbn [a_lines a_dirty a_reset] in *. rewrite nmem_range. bdestruct; cbn; try reflexivity; lia.
  - apply u_index.
  - apply u_linefeed.
  - apply u_rindex.
  - right. apply k_restore.
  - apply u_draw.
  - right. apply k_ich.
  - right. apply k_cup.
  - right. apply k_ed.
  - right. apply k_el.
  - right. apply k_il. exact W.
  - right. apply k_dl. exact W.
  - right. apply k_dch.
  - right. apply k_ech.
  - right. apply (k_move a (OVpa n) eq_refl).
  - right. unfold a_tbc. destruct (_ =? 0); [same|]. destruct (_ =? 3); [same|apply keeps_refl].
  - apply u_set_mode.
  - apply u_set_mode.
  - right. apply k_stbm.
  - apply u_resize.
Qed.
Theorem upd_arun os : forall a, AWF a -> ASC a -> Forall args_ok os -> Upd a (arun a os).
Proof.
  induction os as [|o os IH]; intros a W SC F; [apply upd_refl|].
  inversion F as [|? ? Fo Fos]; subst. cbn [SpecAll.arun fold_left].
  destruct (awf_astep wid is_comb nfc a o W SC Fo) as [W' SC'].
  eapply upd_trans; [apply upd_astep; exact W|]. apply IH; assumption.
Qed.
(* screen-wide changes mark every row *)
Lemma c17_reset a : alld (astep a OReset).
Proof. intros r Hr. cbn [astep a_lines a_dirty a_reset] in *. rewrite nmem_range. bdestruct; cbn; try reflexivity; lia. Qed.
Lemma c17_decaln a : alld (astep a OAlign).
Proof. cbn [astep]. eapply alld_same; [| |apply (alld_all_dirty a)]; reflexivity. Qed.
Lemma c17_resize a l c : (match l with Some v => v | None => a_lines a end =? a_lines a) && (match c with Some v => v | None => a_cols a end =? a_cols a) = false ->
  alld (astep a (OResize l c)).
Proof. intros H. cbn [astep]. unfold a_resize. rewrite H. intros r Hr. cbn [a_lines a_dirty] in *. rewrite nmem_range. bdestruct; cbn; try reflexivity; lia. Qed.
Lemma c17_scroll_up a t b : atb a = (t, b) -> ay a = b -> alld (astep a OIndex).
Proof. intros E Hy. cbn [astep]. unfold a_index. rewrite E, Hy, N.eqb_refl. eapply alld_same; [| |apply (alld_all_dirty a)]; reflexivity. Qed.
Lemma c17_scroll_down a t b : atb a = (t, b) -> ay a = t -> alld (astep a ORevIndex).
Proof. intros E Hy. cbn [astep]. unfold a_rindex. rewrite E, Hy, N.eqb_refl. eapply alld_same; [| |apply (alld_all_dirty a)]; reflexivity. Qed.
Lemma c17_decscnm a (ms : list N) (p : bool) on : nmem DECSCNM (if p then map (fun m : N => m * 32) ms else ms) = true -> alld (a_set_mode a ms p on).
Proof.
  intros E. unfold a_set_mode. cbv zeta. rewrite E.
  set (ml := if p then _ else ms).
  (* after stage 1 every row is marked; all later stages preserve that *)
  match goal with |- alld (if nmem DECTCEM ml then a_with_cur ?x _ else ?x) => assert (A5 : alld x) end.
  { match goal with |- alld (a_with_attr (a_with_grid ?y _) _) => assert (A4 : alld y) end.
    { set (a2 := a_with_mode (a_all_dirty a) _).
      assert (A2 : alld a2) by (eapply alld_same; [| |apply (alld_all_dirty a)]; reflexivity).
      assert (U3 : Upd a2 (if nmem DECCOLM ml then a_cup (a_ed (if on then a_resize (a_with_savedcols a2 (Some (a_cols a2))) None (Some 132)
                   else if a_cols a2 =? 132 then match a_savedcols a2 with Some w => a_with_savedcols (a_resize a2 None (Some w)) None | None => a2 end else a2) (Some 2)) None None else a2)).
      { destruct (nmem DECCOLM ml); [|apply upd_refl].
        eapply upd_trans; [|right; apply k_cup]. eapply upd_trans; [|right; apply k_ed].
        destruct on; [eapply upd_trans; [|apply u_resize]; right; same|].
        destruct (a_cols a2 =? 132); [|apply upd_refl]. destruct (a_savedcols a2); [|apply upd_refl].
        eapply upd_trans; [apply u_resize|right; same]. }
      pose proof (upd_alld _ _ U3 A2) as A3.
      destruct (nmem DECOM ml); [apply (upd_alld _ _ (or_intror (k_cup _ None None)) A3)|exact A3]. }
    eapply alld_same; [| |exact A4]; reflexivity. }
  destruct (nmem DECTCEM ml); [eapply alld_same; [| |exact A5]; reflexivity|exact A5].
Qed.
End S.

(* ---- the same for the code model, along any history ---- *)
From MT.Proofs Require Import RefineModes RefineAll RunAll.
Section M.
Variable wid : cp -> N. Variable is_comb : cp -> bool. Variable nfc : str -> str.
Notation run := (run wid is_comb nfc).
Theorem c17_model_history s os : WF s -> SCm s -> Forall args_ok os ->
  let s' := run s os in
  (forall r, r < lines s' -> nmem r (dirty s') = true) \/
  (lines s' = lines s /\ columns s' = columns s /\
   (forall r, nmem r (dirty s) = true -> nmem r (dirty s') = true) /\
   (forall r c, r < lines s' -> c < columns s' -> nmem r (dirty s') = false -> cellv s' r c = cellv s r c)).
Proof.
  intros W SC F. cbv zeta.
  destruct (refine_run wid is_comb nfc os s W SC F) as [A [W' _]].
  pose proof (upd_arun wid is_comb nfc os (abs s) (AWF_abs s W) SC F) as U.
  destruct A as [qc ql qg _ _ _ _ qd _ _ _ _ _ _ _]. cbn [abs a_cols a_lines a_grid a_dirty] in qc, ql, qg, qd.
  destruct U as [U|[l1 [c1 [m1 g1]]]].
  - left. intros r Hr. rewrite (qd r). apply U. rewrite <- ql. exact Hr.
  - right. cbn [abs a_cols a_lines a_grid a_dirty] in l1, c1, m1, g1. repeat split; try congruence.
    + intros r H. rewrite (qd r). apply m1. exact H.
    + intros r c Hr Hc H. rewrite (qg r c Hr Hc). apply g1. rewrite <- (qd r). exact H.
Qed.
Theorem c17_model_bounds s o : WF s -> SCm s -> args_ok o -> forall y, nmem y (dirty (step wid is_comb nfc s o)) = true -> y < lines (step wid is_comb nfc s o).
Proof. intros W SC A. destruct (refine_step wid is_comb nfc s o W SC A) as [_ [W' _]]. exact (wf_dirty _ W'). Qed.
Theorem c17_model_bounds_run c l os : 1 <= c -> 1 <= l -> Forall args_ok os ->
  forall y, nmem y (dirty (run (init c l) os)) = true -> y < lines (run (init c l) os).
Proof. intros Hc Hl F. destruct (invariant_from_new wid is_comb nfc c l os Hc Hl F) as [W' _]. exact (wf_dirty _ W'). Qed.
End M.
Lemma WF_clear_dirty s : WF s -> WF (set_dirty s []) /\ SCm (set_dirty s []) = SCm s.
Proof. intros [w1 w2 w3 w4 w5 w6 w7 w8]. split; [|reflexivity]. constructor; auto. intros y H. discriminate H. Qed.
