(* Proofs/Stream.v — C02 at the model level: recogniser, decoder and world are per-symbol machines, so
   feeding a concatenation equals feeding the pieces in order; the plain-text fast path of Parser::feed is
   part of the per-symbol step (ground state <-> taking_plain_text). *)
From Coq Require Import NArith List Bool Lia.
From MT Require Import Lib Types Charsets Tables Screen Parser Utf8 World.
Import ListNotations.
Open Scope N_scope.

Lemma prun_app u st a b :
  prun u st (a ++ b) = let '(st1, e1) := prun u st a in let '(st2, e2) := prun u st1 b in (st2, e1 ++ e2).
Proof.
  revert st. induction a as [|c a IH]; intros st; cbn [app prun].
  - destruct (prun u st b) as [st2 e2]. reflexivity.
  - destruct (pstep u st c) as [st1 e1]. rewrite IH.
    destruct (prun u st1 a) as [st2 e2]. destruct (prun u st2 b) as [st3 e3]. rewrite app_assoc. reflexivity.
Qed.
Lemma drun_app d a b :
  drun d (a ++ b) = let '(d1, o1) := drun d a in let '(d2, o2) := drun d1 b in (d2, o1 ++ o2).
Proof.
  revert d. induction a as [|c a IH]; intros d; cbn [app drun].
  - destruct (drun d b) as [d2 o2]. reflexivity.
  - destruct (dstep d c) as [d1 o1]. rewrite IH.
    destruct (drun d1 a) as [d2 o2]. destruct (drun d2 b) as [d3 o3]. rewrite app_assoc. reflexivity.
Qed.

Section S.
Variable wid : cp -> N. Variable is_comb : cp -> bool. Variable nfc : str -> str.
Notation feed_char := (feed_char wid is_comb nfc).
Notation feed_chars := (feed_chars wid is_comb nfc).
Notation feed_bytes := (feed_bytes wid is_comb nfc).

Lemma feed_chars_app w a b : feed_chars w (a ++ b) = feed_chars (feed_chars w a) b.
Proof. unfold World.feed_chars. apply fold_left_app. Qed.
Lemma feed_chars_nil w : feed_chars w [] = w. Proof. reflexivity. Qed.
Lemma feed_char_utf8 w c : w_utf8 (feed_char w c) = w_utf8 w.
Proof. unfold World.feed_char. destruct (pstep (w_utf8 w) (w_pst w) c). reflexivity. Qed.
Lemma feed_chars_utf8 w cs : w_utf8 (feed_chars w cs) = w_utf8 w.
Proof.
  revert w. induction cs as [|c cs IH]; intros w; [reflexivity|].
  change (feed_chars w (c :: cs)) with (feed_chars (feed_char w c) cs). rewrite IH. apply feed_char_utf8.
Qed.
Lemma feed_char_dec w c : w_dec (feed_char w c) = w_dec w.
Proof. unfold World.feed_char. destruct (pstep (w_utf8 w) (w_pst w) c). reflexivity. Qed.
Lemma feed_chars_dec w cs : w_dec (feed_chars w cs) = w_dec w.
Proof.
  revert w. induction cs as [|c cs IH]; intros w; [reflexivity|].
  change (feed_chars w (c :: cs)) with (feed_chars (feed_char w c) cs). rewrite IH. apply feed_char_dec.
Qed.
(* feed_chars does not look at the decoder: swapping the decoder state commutes *)
Lemma feed_chars_with_dec w d cs :
  feed_chars (mkW (w_scr w) (w_pst w) (w_utf8 w) d) cs =
  let w' := feed_chars w cs in mkW (w_scr w') (w_pst w') (w_utf8 w') d.
Proof.
  revert w. induction cs as [|c cs IH]; intros w; [reflexivity|].
  change (feed_chars ?x (c :: cs)) with (feed_chars (feed_char x c) cs).
  assert (E : feed_char (mkW (w_scr w) (w_pst w) (w_utf8 w) d) c =
              mkW (w_scr (feed_char w c)) (w_pst (feed_char w c)) (w_utf8 (feed_char w c)) d).
  { unfold World.feed_char. cbn [w_utf8 w_pst w_scr w_dec]. destruct (pstep (w_utf8 w) (w_pst w) c). reflexivity. }
  rewrite E, IH. reflexivity.
Qed.
Lemma feed_bytes_nil w : feed_bytes w [] = w.
Proof. destruct w as [sc p u d]. unfold World.feed_bytes. cbn [w_utf8 w_dec w_scr w_pst]. destruct u; reflexivity. Qed.
Lemma feed_bytes_app w a b : feed_bytes w (a ++ b) = feed_bytes (feed_bytes w a) b.
Proof.
  destruct w as [sc p u d]. destruct u.
  - assert (L : feed_bytes (mkW sc p true d) (a ++ b) =
                let '(d', cs) := drun d (a ++ b) in feed_chars (mkW sc p true d') cs) by reflexivity.
    assert (R1 : feed_bytes (mkW sc p true d) a = let '(d1, o1) := drun d a in feed_chars (mkW sc p true d1) o1) by reflexivity.
    rewrite L, R1, drun_app. clear L R1.
    destruct (drun d a) as [d1 o1]. destruct (drun d1 b) as [d2 o2] eqn:Eb.
    set (w1 := feed_chars (mkW sc p true d1) o1).
    assert (U1 : w_utf8 w1 = true) by (unfold w1; rewrite feed_chars_utf8; reflexivity).
    assert (D1 : w_dec w1 = d1) by (unfold w1; rewrite feed_chars_dec; reflexivity).
    unfold World.feed_bytes. rewrite U1, D1, Eb.
    rewrite feed_chars_app.
    pose proof (feed_chars_with_dec (mkW sc p true d1) d2 o1) as X1. cbn [w_scr w_pst w_utf8] in X1. rewrite X1. fold w1.
    cbn zeta. rewrite U1. reflexivity.
  - unfold World.feed_bytes. cbn [w_utf8]. rewrite feed_chars_utf8. cbn [w_utf8]. apply feed_chars_app.
Qed.
(* any partition into chunks: bytes *)
Theorem feed_bytes_chunks w chunks : fold_left feed_bytes chunks w = feed_bytes w (concat chunks).
Proof.
  revert w. induction chunks as [|c cs IH]; intros w; cbn [fold_left concat].
  - symmetry. apply feed_bytes_nil.
  - rewrite IH. symmetry. apply feed_bytes_app.
Qed.
Theorem feed_chars_chunks w chunks : fold_left feed_chars chunks w = feed_chars w (concat chunks).
Proof.
  revert w. induction chunks as [|c cs IH]; intros w; cbn [fold_left concat]; [reflexivity|].
  rewrite IH. symmetry. apply feed_chars_app.
Qed.
End S.

(* the plain-text fast path: Parser::feed hands a character straight to draw iff the coroutine is parked at
   its top-level yield (ground state) and the character is not special — exactly the last branch of start_step *)
Lemma plain_text_path u c : nmem c special_ctrls = false -> pstep u PGround c = (PGround, [ODraw [c]]).
Proof.
  intros H. unfold pstep.
  assert (E : (c =? ESC) = false).
  { destruct (N.eqb_spec c ESC); [subst; discriminate H|reflexivity]. }
  rewrite E. unfold start_step.
  assert (B : nmem c basic_ctrls = false).
  { destruct (nmem c basic_ctrls) eqn:B; [|reflexivity]. exfalso.
    apply nmem_In in B. assert (X : nmem c special_ctrls = true) by (apply nmem_In; cbn in *; tauto). congruence. }
  rewrite B.
  assert (E2 : (c =? CSI_C1) = false) by (destruct (N.eqb_spec c CSI_C1); [subst; discriminate H|reflexivity]).
  assert (E3 : (c =? OSC_C1) = false) by (destruct (N.eqb_spec c OSC_C1); [subst; discriminate H|reflexivity]).
  rewrite E2, E3. reflexivity.
Qed.
(* ground + special character never draws the character itself *)
Lemma special_not_text u c st ev : nmem c special_ctrls = true -> pstep u PGround c = (st, ev) -> ~ In (ODraw [c]) ev.
Proof.
  intros H E. apply nmem_In in H. cbn in H.
  repeat (destruct H as [H|H]; [subst c; destruct u; vm_compute in E; inversion E; subst; cbn; intuition discriminate|]).
  contradiction.
Qed.
