(* Proofs/P09.v — C09, colour clause: every cell, the current rendition and every saved rendition always carry a
   documented colour name or a 6-digit lowercase hexadecimal string as fg and bg. *)
From Coq Require Import NArith List Bool Lia.
From MT Require Import Lib Types Charsets Tables Screen Spec Obs Stmt.
From MT.Proofs Require Import WF Aeq Loops RefineSimple P05 Congr CongrMore SpecAll.
Import ListNotations.
Open Scope N_scope.

Notation P := cell_colours_ok.
Lemma P_with_data x d : P (with_data x d) = P x. Proof. reflexivity. Qed.
Lemma P_with_reverse x b : P (with_reverse x b) = P x. Proof. destruct x; reflexivity. Qed.
Lemma P_set_text x f b : P (set_text x f b) = P x. Proof. destruct f; reflexivity. Qed.
Lemma P_blank b : P (blank_cell b) = true. Proof. destruct b; vm_compute; reflexivity. Qed.
Lemma P_set_fg x v : colour_ok v = true -> P x = true -> P (set_fg x v) = true.
Proof. unfold cell_colours_ok. cbn [c_fg c_bg set_fg]. intros H1 H2. apply andb_true_iff in H2. destruct H2 as [_ H2]. rewrite H1, H2. reflexivity. Qed.
Lemma P_set_bg x v : colour_ok v = true -> P x = true -> P (set_bg x v) = true.
Proof. unfold cell_colours_ok. cbn [c_fg c_bg set_bg]. intros H1 H2. apply andb_true_iff in H2. destruct H2 as [H2 _]. rewrite H1, H2. reflexivity. Qed.
(* finite sweeps, closed by kernel computation and lifted to the quantified statements *)
Lemma names_sweep : forallb (fun i => colour_ok (nth_name i) && colour_ok (bright (nth_name i))) (range 0 8) = true.
Proof. vm_compute. reflexivity. Qed.
Lemma name_ok i : i < 8 -> colour_ok (nth_name i) = true /\ colour_ok (bright (nth_name i)) = true.
Proof.
  intros H. pose proof names_sweep as S. rewrite forallb_forall in S. specialize (S i (proj2 (in_range i 0 8) (conj (N.le_0_l i) H))).
  apply andb_true_iff in S. exact S.
Qed.
Lemma default_ok : colour_ok s_default = true. Proof. vm_compute. reflexivity. Qed.
Lemma palette_sweep : forallb (fun m => colour_ok (palette m)) (range 0 256) = true.
Proof. vm_compute. reflexivity. Qed.
Lemma palette_ok m : m < 256 -> colour_ok (palette m) = true.
Proof. intros H. pose proof palette_sweep as S. rewrite forallb_forall in S. apply S. apply in_range. lia. Qed.
Lemma hex2_sweep : forallb (fun n => forallb is_hex (hex2 n) && (N.of_nat (length (hex2 n)) =? 2)) (range 0 256) = true.
Proof. vm_compute. reflexivity. Qed.
Lemma hex2_ok n : n < 256 -> forallb is_hex (hex2 n) = true /\ length (hex2 n) = 2%nat.
Proof.
  intros H. pose proof hex2_sweep as S. rewrite forallb_forall in S. specialize (S n (proj2 (in_range n 0 256) (conj (N.le_0_l n) H))).
  apply andb_true_iff in S. destruct S as [S1 S2]. split; [exact S1|reflexivity].
Qed.
Lemma rgb_ok r g b : r < 256 -> g < 256 -> b < 256 -> colour_ok (rgb r g b) = true.
Proof.
  intros Hr Hg Hb. destruct (hex2_ok r Hr) as [r1 r2], (hex2_ok g Hg) as [g1 g2], (hex2_ok b Hb) as [b1 b2].
  unfold colour_ok, rgb. rewrite !forallb_app, r1, g1, b1, !app_length, r2, g2, b2. cbn. apply orb_true_r.
Qed.
Lemma P_sgr_simple dc a p : P dc = true -> P a = true -> P (sgr_simple dc a p) = true.
Proof.
  intros Hd Ha. unfold sgr_simple.
  assert (R : forall lo hi, hi = lo + 7 -> (lo <=? p) && (p <=? hi) = true -> p - lo < 8).
  { intros lo hi -> H. apply andb_true_iff in H. destruct H as [H1 H2]. apply N.leb_le in H1. apply N.leb_le in H2. lia. }
  repeat (match goal with |- P (if ?c then _ else _) = true => destruct c eqn:? end;
    [first [ assumption | rewrite P_set_text; assumption
           | apply P_set_fg; [first [apply default_ok
               | match goal with E : (?lo <=? p) && (p <=? ?hi) = true |- colour_ok (nth_name _) = true => apply (proj1 (name_ok _ (R lo hi eq_refl E))) end
               | match goal with E : (?lo <=? p) && (p <=? ?hi) = true |- colour_ok (bright (nth_name _)) = true => apply (proj2 (name_ok _ (R lo hi eq_refl E))) end]|assumption]
           | apply P_set_bg; [first [apply default_ok
               | match goal with E : (?lo <=? p) && (p <=? ?hi) = true |- colour_ok (nth_name _) = true => apply (proj1 (name_ok _ (R lo hi eq_refl E))) end
               | match goal with E : (?lo <=? p) && (p <=? ?hi) = true |- colour_ok (bright (nth_name _)) = true => apply (proj2 (name_ok _ (R lo hi eq_refl E))) end]|assumption] ] | ]).
  assumption.
Qed.
Lemma P_sgr_spec dc : P dc = true -> forall n ps a, (length ps <= n)%nat -> P a = true -> P (sgr_spec dc a ps) = true.
Proof.
  intros Hd. induction n as [|n IH]; intros ps a Hn Ha.
  - destruct ps; [exact Ha|cbn in Hn; lia].
  - destruct ps as [|p r]; [exact Ha|]. cbn [length] in Hn. cbn [sgr_spec].
    destruct ((p =? 38) || (p =? 48)).
    + assert (Hs : forall v, colour_ok v = true -> P ((if p =? 38 then set_fg a else set_bg a) v) = true)
        by (intros v Hv; destruct (p =? 38); [apply P_set_fg|apply P_set_bg]; assumption).
      destruct r as [|n0 r1]; [exact Ha|]. cbn [length] in Hn.
      destruct (n0 =? 5).
      * destruct r1 as [|m r2]; [exact Ha|]. cbn [length] in Hn. apply IH; [lia|].
        destruct (N.ltb_spec m 256); [apply Hs; apply palette_ok; assumption|exact Ha].
      * destruct (n0 =? 2).
        -- destruct r1 as [|rr [|gg [|bb r2]]]; try exact Ha. cbn [length] in Hn. apply IH; [lia|].
           destruct (N.ltb_spec rr 256), (N.ltb_spec gg 256), (N.ltb_spec bb 256); cbn [andb]; try exact Ha.
           apply Hs. apply rgb_ok; assumption.
        -- apply IH; [lia|exact Ha].
    + apply IH; [lia|]. apply P_sgr_simple; assumption.
Qed.

Record ColA (a : astate) : Prop := mkColA {
  ca_attr : P (aattr a) = true;
  ca_grid : forall r c, P (a_grid a r c) = true;
  ca_sp : Forall (fun sp => P (cu_attr (sp_cursor sp)) = true) (a_sp a) }.
Lemma P_adc a : P (adc a) = true. Proof. apply P_blank. Qed.
Lemma col_same a a' : a_grid a' = a_grid a -> aattr a' = aattr a -> a_sp a' = a_sp a -> ColA a -> ColA a'.
Proof. intros H1 H2 H3 [c1 c2 c3]. constructor; [rewrite H2|intros r c; rewrite H1|rewrite H3]; auto. Qed.
Lemma col_grid a f : ColA a -> (forall r c, P (f r c) = true) -> ColA (a_with_grid a f).
Proof. intros [c1 c2 c3] H. constructor; auto. Qed.
Ltac same := apply col_same; reflexivity.
Ltac gridcase C := let r0 := fresh "r" in let c0 := fresh "c" in intros r0 c0; cbv beta; repeat match goal with |- context [if ?x then _ else _] => destruct x end;
  try apply (ca_grid _ C); try apply P_adc; try apply (ca_attr _ C).

Lemma col_dirty_add a y : ColA a -> ColA (a_dirty_add a y). Proof. same. Qed.
Lemma col_dirty_range a lo hi : ColA a -> ColA (a_dirty_range a lo hi). Proof. same. Qed.
Lemma col_xy a x y : ColA a -> ColA (a_xy a x y). Proof. same. Qed.
Lemma col_vclamp a u : ColA a -> ColA (a_vclamp a u).
Proof. unfold a_vclamp. destruct (match a_margins a with Some m => if u || amode a DECOM then m else (0, a_lines a - 1) | None => (0, a_lines a - 1) end). same. Qed.
Lemma col_put a y x cl : P cl = true -> ColA a -> ColA (a_put a y x cl).
Proof. intros H C. unfold a_put. apply col_grid; [exact C|]. intros r c. destruct (_ && _); [exact H|apply (ca_grid _ C)]. Qed.

Section S.
Variable wid : cp -> N. Variable is_comb : cp -> bool. Variable nfc : str -> str.
Notation astep := (astep wid is_comb nfc).
Notation arun := (arun wid is_comb nfc).
Lemma col_move a o : is_move o = true -> ColA a -> ColA (astep a o).
Proof. intros H. rewrite (c05_frame wid is_comb nfc a o H). same. Qed.
Lemma col_cup a l c : ColA a -> ColA (a_cup a l c). Proof. apply (col_move a (OCup l c) eq_refl). Qed.
Lemma col_index a : ColA a -> ColA (a_index a).
Proof.
  intros C. unfold a_index. destruct (atb a) as [t b]. destruct (ay a =? b); [|apply (col_move a (OCud None) eq_refl C)].
  apply col_grid; [apply col_dirty_range; exact C|]. gridcase C.
Qed.
Lemma col_rindex a : ColA a -> ColA (a_rindex a).
Proof.
  intros C. unfold a_rindex. destruct (atb a) as [t b]. destruct (ay a =? t); [|apply (col_move a (OCuu None) eq_refl C)].
  apply col_grid; [apply col_dirty_range; exact C|]. gridcase C.
Qed.
Lemma col_linefeed a : ColA a -> ColA (a_linefeed a).
Proof. intros C. unfold a_linefeed. pose proof (col_index a C) as C1. destruct (amode (a_index a) LNM); [revert C1; same|exact C1]. Qed.
Lemma col_il a n : ColA a -> ColA (a_il a n).
Proof.
  intros C. unfold a_il. destruct (atb a) as [t b]. destruct (_ && _); [|exact C].
  assert (C1 : ColA (a_with_grid (a_dirty_range a (ay a) (a_lines a)) (fun r c => if (ay a <=? r) && (r <=? b) then if r <? ay a + hat n then adc a else a_grid a (r - hat n) c else a_grid a r c))).
  { apply col_grid; [apply col_dirty_range; exact C|]. gridcase C. }
  revert C1. same.
Qed.
Lemma col_dl a n : ColA a -> ColA (a_dl a n).
Proof.
  intros C. unfold a_dl. destruct (atb a) as [t b]. destruct (_ && _); [|exact C].
  assert (C1 : ColA (a_with_grid (a_dirty_range a (ay a) (a_lines a)) (fun r c => if (ay a <=? r) && (r <=? b) then if r + hat n <=? b then a_grid a (r + hat n) c else adc a else a_grid a r c))).
  { apply col_grid; [apply col_dirty_range; exact C|]. gridcase C. }
  revert C1. same.
Qed.
Lemma col_ich a n : ColA a -> ColA (a_ich a n).
Proof. intros C. unfold a_ich. apply col_grid; [apply col_dirty_add; exact C|]. gridcase C. Qed.
Lemma col_dch a n : ColA a -> ColA (a_dch a n).
Proof. intros C. unfold a_dch. apply col_grid; [apply col_dirty_add; exact C|]. gridcase C. Qed.
Lemma col_fill_row a y lo hi : ColA a -> ColA (a_fill_row a y lo hi).
Proof. intros C. unfold a_fill_row. apply col_grid; [exact C|]. gridcase C. Qed.
Lemma col_el a h : ColA a -> ColA (a_el a h).
Proof.
  intros C. unfold a_el. pose proof (col_dirty_add a (ay a) C) as C1.
  destruct (_ =? 0); [apply col_fill_row; exact C1|]. destruct (_ =? 1); [apply col_fill_row; exact C1|]. destruct (_ =? 2); [apply col_fill_row; exact C1|exact C1].
Qed.
Lemma col_ed a h : ColA a -> ColA (a_ed a h).
Proof.
  intros C. unfold a_ed. destruct (if _ =? 0 then _ else _) as [lo hi].
  assert (C1 : ColA (a_with_grid (a_dirty_range a lo hi) (fun r c => if (lo <=? r) && (r <? hi) then aattr a else a_grid a r c))).
  { apply col_grid; [apply col_dirty_range; exact C|]. gridcase C. }
  destruct (_ || _); [apply col_el; exact C1|exact C1].
Qed.
Lemma col_resize a l c : ColA a -> ColA (a_resize a l c).
Proof.
  intros C. unfold a_resize. destruct (_ && _); [exact C|]. constructor; [apply (ca_attr _ C)| |apply (ca_sp _ C)].
  cbn [a_grid]. gridcase C.
Qed.
Lemma col_stbm a t b : ColA a -> ColA (a_stbm a t b).
Proof.
  intros C. unfold a_stbm. destruct (_ && _); [revert C; same|]. destruct (atb a) as [mt mb]. destruct (_ <? _); [|exact C].
  apply col_cup. revert C. same.
Qed.
Lemma col_restore a : ColA a -> ColA (a_restore a).
Proof.
  intros C. unfold a_restore. destruct (a_sp a) as [|sp rest] eqn:E.
  - apply col_cup. revert C. same.
  - cbv zeta. apply col_vclamp. pose proof (ca_sp _ C) as S. rewrite E in S. inversion S as [|? ? S1 S2]; subst.
    constructor; [exact S1|apply (ca_grid _ C)|exact S2].
Qed.
Lemma col_set_mode a ms p on : ColA a -> ColA (a_set_mode a ms p on).
Proof.
  intros C. unfold a_set_mode. cbv zeta. set (ml := if p then _ else ms).
  set (a1 := if nmem DECSCNM ml then a_all_dirty a else a).
  assert (C1 : ColA a1) by (unfold a1; destruct (nmem DECSCNM ml); [revert C; same|exact C]).
  set (a2 := a_with_mode a1 _). assert (C2 : ColA a2) by (revert C1; same). clearbody a2. clear C1 a1.
  set (a3 := if nmem DECCOLM ml then _ else a2).
  assert (C3 : ColA a3).
  { unfold a3. destruct (nmem DECCOLM ml); [|exact C2]. apply col_cup. apply col_ed.
    destruct on; [apply col_resize; revert C2; same|].
    destruct (a_cols a2 =? 132); [|exact C2]. destruct (a_savedcols a2); [|exact C2].
    pose proof (col_resize a2 None (Some n) C2) as C4. revert C4. same. }
  clearbody a3.
  set (a4 := if nmem DECOM ml then a_cup a3 None None else a3).
  assert (C4 : ColA a4) by (unfold a4; destruct (nmem DECOM ml); [apply col_cup|]; exact C3). clearbody a4.
  set (a5 := if nmem DECSCNM ml then _ else a4).
  assert (C5 : ColA a5).
  { unfold a5. destruct (nmem DECSCNM ml); [|exact C4].
    constructor; [cbn; rewrite P_with_reverse; apply (ca_attr _ C4)|intros r c; cbn; rewrite P_with_reverse; apply (ca_grid _ C4)|apply (ca_sp _ C4)]. }
  clearbody a5. destruct (nmem DECTCEM ml); [revert C5; same|exact C5].
Qed.
Lemma col_pre_wrap a w : ColA a -> ColA (pre_wrap a w).
Proof.
  intros C. unfold pre_wrap. destruct (ax a =? a_cols a); [|exact C].
  destruct (amode a DECAWM); [apply col_linefeed; revert C; same|]. destruct (0 <? w); [revert C; same|exact C].
Qed.
Lemma col_place a ch w : ColA a -> ColA (place is_comb nfc a ch w).
Proof.
  intros C. unfold place. destruct (w =? 1); [apply col_put; [rewrite P_with_data; apply (ca_attr _ C)|exact C]|].
  destruct (w =? 2).
  - cbv zeta. pose proof (col_put a (ay a) (ax a) (with_data (aattr a) [ch]) (eq_trans (P_with_data _ _) (ca_attr _ C)) C) as C1.
    destruct (_ <? _); [|exact C1]. apply col_put; [rewrite P_with_data; apply (ca_attr _ C1)|exact C1].
  - destruct (_ && _); [|exact C]. destruct (0 <? ax a); [apply col_put; [rewrite P_with_data; apply (ca_grid _ C)|exact C]|].
    destruct (0 <? ay a); [|exact C]. apply col_dirty_add. apply col_put; [rewrite P_with_data; apply (ca_grid _ C)|exact C].
Qed.
Lemma col_draw_char a ch : ColA a -> ColA (a_draw_char wid is_comb nfc a ch).
Proof.
  intros C. rewrite draw_char_stages. cbv zeta.
  pose proof (col_pre_wrap a (wid ch) C) as C1. set (a1 := pre_wrap a (wid ch)) in *. clearbody a1.
  assert (C2 : ColA (if amode a1 IRM && (0 <? wid ch) then a_ich a1 (Some (wid ch)) else a1)) by (destruct (_ && _); [apply col_ich|]; exact C1).
  set (a2 := if _ && _ then _ else a1) in *. clearbody a2.
  pose proof (col_place a2 ch (wid ch) C2) as C3. set (a3 := place is_comb nfc a2 ch (wid ch)) in *. clearbody a3.
  destruct (0 <? wid ch); [revert C3; same|exact C3].
Qed.
Lemma col_draw_chars cs : forall a, ColA a -> ColA (fold_left (a_draw_char wid is_comb nfc) cs a).
Proof. induction cs as [|c cs IH]; intros a C; [exact C|]. cbn [fold_left]. apply IH. apply col_draw_char. exact C. Qed.
Lemma col_sgr a ps : ColA a -> ColA (a_sgr a ps).
Proof.
  intros C. unfold a_sgr. constructor; [|apply (ca_grid _ C)|apply (ca_sp _ C)].
  cbn. destruct ps as [|p r]; [apply P_adc|]. apply (P_sgr_spec (adc a) (P_adc a) (length (p :: r))); [apply le_n|apply (ca_attr _ C)].
Qed.
Theorem col_astep a o : ColA a -> ColA (astep a o).
Proof.
  intros C. destruct o; cbn [astep]; try (revert C; same); try (apply (col_move a _ eq_refl C)).
  - apply col_grid; [revert C; same|]. intros r c. rewrite P_with_data. apply (ca_grid _ C).
  - unfold a_defcs. destruct (charset_of_code code); [|exact C]. destruct (leqb mode [40]); [revert C; same|]. destruct (leqb mode [41]); [revert C; same|exact C].
  - constructor; [apply P_blank|intros r c; apply P_blank|apply (ca_sp _ C)].
  - apply col_index; exact C.
  - apply col_linefeed; exact C.
  - apply col_rindex; exact C.
  - constructor; [apply (ca_attr _ C)|apply (ca_grid _ C)|]. cbn. constructor; [apply (ca_attr _ C)|apply (ca_sp _ C)].
  - apply col_restore; exact C.
  - unfold a_draw. apply col_dirty_add. apply col_draw_chars. exact C.
  - apply col_ich; exact C.
  - apply col_cup; exact C.
  - apply col_ed; exact C.
  - apply col_el; exact C.
  - apply col_il; exact C.
  - apply col_dl; exact C.
  - apply col_dch; exact C.
  - unfold a_ech. apply col_fill_row. apply col_dirty_add. exact C.
  - apply (col_move a (OVpa n) eq_refl C).
  - unfold a_tbc. destruct (_ =? 0); [revert C; same|]. destruct (_ =? 3); [revert C; same|exact C].
  - apply col_set_mode; exact C.
  - apply col_set_mode; exact C.
  - apply col_sgr; exact C.
  - apply col_stbm; exact C.
  - apply col_resize; exact C.
Qed.
Theorem col_arun os : forall a, ColA a -> ColA (arun a os).
Proof. induction os as [|o os IH]; intros a C; [exact C|]. cbn [SpecAll.arun fold_left]. apply IH. apply col_astep. exact C. Qed.
Lemma col_init c l : ColA (a_init c l).
Proof. constructor; [apply P_blank|intros; apply P_blank|constructor]. Qed.
End S.

From MT.Proofs Require Import RefineReset RefineModes RefineAll RunAll.
Section M.
Variable wid : cp -> N. Variable is_comb : cp -> bool. Variable nfc : str -> str.
Notation run := (run wid is_comb nfc).
Theorem c09_colours c l os : 1 <= c -> 1 <= l -> Forall args_ok os ->
  let s := run (init c l) os in
  (forall r cc, r < lines s -> cc < columns s -> cell_colours_ok (cellv s r cc) = true) /\ cell_colours_ok (cu_attr (cur s)) = true.
Proof.
  intros Hc Hl F. cbv zeta.
  pose proof (WF_init c l Hc Hl) as Wi.
  assert (SCi : SCm (init c l)) by (unfold SCm, init; rewrite reset_closed by assumption; exact I).
  destruct (refine_run wid is_comb nfc os _ Wi SCi F) as [A _].
  assert (B : Aeq (SpecAll.arun wid is_comb nfc (abs (init c l)) os) (SpecAll.arun wid is_comb nfc (a_init c l) os)).
  { apply cg_arun; try assumption; [apply AWF_abs; exact Wi|apply init_abs; assumption]. }
  pose proof (Aeq_trans _ _ _ A B) as AB.
  pose proof (col_arun wid is_comb nfc os (a_init c l) (col_init c l)) as C.
  destruct AB as [qc ql qg qcur _ _ _ _ _ _ _ _ _ _ _]. cbn [abs a_cols a_lines a_grid a_cur] in qc, ql, qg, qcur.
  split.
  - intros r cc Hr Hcc. rewrite (qg r cc Hr Hcc). apply (ca_grid _ C).
  - pose proof (ca_attr _ C) as Hat. unfold aattr in Hat. rewrite <- qcur in Hat. exact Hat.
Qed.
End M.
