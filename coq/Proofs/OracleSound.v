(* Proofs/OracleSound.v — the extracted boolean statement predicate IS the relation of the theorems:
     aeqb a b = true  <->  Aeq a b
   hence (1) what the driver evaluates on implementation snapshots (spec_ok pre o post = true) means exactly
   "the post-state is observationally the closed form of the pre-state", and (2) the code model satisfies the very
   predicate that is evaluated on the implementation, for every well-formed state and every operation. *)
From Coq Require Import NArith List Bool Lia.
From MT Require Import Lib Types Charsets Tables Screen Spec Obs Stmt.
From MT.Proofs Require Import WF Aeq P05 CongrMore SpecAll RefineModes RefineAll.
Import ListNotations.
Open Scope N_scope.

Lemma beqb_eq a b : Bool.eqb a b = true <-> a = b. Proof. destruct a, b; cbn; split; congruence. Qed.
Lemma cell_eqb_eq a b : cell_eqb a b = true <-> a = b.
Proof.
  destruct a as [d1 f1 g1 b1 i1 u1 s1 r1 k1], b as [d2 f2 g2 b2 i2 u2 s2 r2 k2]. unfold cell_eqb. cbn [c_data c_fg c_bg c_bold c_italics c_underscore c_strike c_reverse c_blink].
  rewrite !andb_true_iff, !leqb_eq, !beqb_eq. split.
  - intros [[[[[[[[-> ->] ->] ->] ->] ->] ->] ->] ->]. reflexivity.
  - intros E. inversion E. repeat split.
Qed.
Lemma cursor_eqb_eq a b : cursor_eqb a b = true <-> a = b.
Proof.
  destruct a as [x1 y1 a1 h1], b as [x2 y2 a2 h2]. unfold cursor_eqb. cbn [cu_x cu_y cu_attr cu_hidden].
  rewrite !andb_true_iff, !N.eqb_eq, cell_eqb_eq, beqb_eq. split.
  - intros [[[-> ->] ->] ->]. reflexivity.
  - intros E. inversion E. repeat split.
Qed.
Lemma csid_eqb_eq a b : csid_eqb a b = true <-> a = b. Proof. destruct a, b; cbn; split; congruence. Qed.
Lemma gsel_eqb_eq a b : gsel_eqb a b = true <-> a = b. Proof. destruct a, b; cbn; split; congruence. Qed.
Lemma save_eqb_eq a b : save_eqb a b = true <-> a = b.
Proof.
  destruct a as [c1 p1 q1 s1 o1 w1], b as [c2 p2 q2 s2 o2 w2]. unfold save_eqb. cbn [sp_cursor sp_g0 sp_g1 sp_charset sp_origin sp_wrap].
  rewrite !andb_true_iff, cursor_eqb_eq, !csid_eqb_eq, gsel_eqb_eq, !beqb_eq. split.
  - intros [[[[[-> ->] ->] ->] ->] ->]. reflexivity.
  - intros E. inversion E. repeat split.
Qed.
Lemma saves_eqb_eq a : forall b, saves_eqb a b = true <-> a = b.
Proof.
  induction a as [|x a IH]; intros [|y b]; cbn [saves_eqb]; try (split; congruence).
  rewrite andb_true_iff, save_eqb_eq, IH. split; [intros [-> ->]; reflexivity|intros E; inversion E; split; reflexivity].
Qed.
Lemma margins_eqb_eq a b : margins_eqb a b = true <-> a = b.
Proof.
  destruct a as [[t u]|], b as [[t' u']|]; cbn [margins_eqb]; try (split; congruence).
  rewrite andb_true_iff, !N.eqb_eq. split; [intros [-> ->]; reflexivity|intros E; inversion E; split; reflexivity].
Qed.
Lemma optN_eqb_eq a b : optN_eqb a b = true <-> a = b.
Proof. destruct a, b; cbn [optN_eqb]; try (split; congruence). rewrite N.eqb_eq. split; [intros ->; reflexivity|intros E; inversion E; reflexivity]. Qed.
Lemma nseteq_seteq a b : nseteq a b = true <-> seteq a b.
Proof.
  unfold nseteq, seteq. rewrite andb_true_iff, !nsubset_spec. split.
  - intros [H1 H2] x. destruct (nmem x a) eqn:Ea, (nmem x b) eqn:Eb; try reflexivity; [rewrite (H1 x Ea) in Eb|rewrite (H2 x Eb) in Ea]; discriminate.
  - intros H. split; intros x Hx; [rewrite <- H|rewrite H]; exact Hx.
Qed.
Lemma a_grid_eqb_spec a b : a_grid_eqb a b = true <-> (forall r c, r < a_lines a -> c < a_cols a -> a_grid a r c = a_grid b r c).
Proof.
  unfold a_grid_eqb. rewrite forallb_forall. split.
  - intros H r c Hr Hc. specialize (H r (proj2 (in_range r 0 (a_lines a)) (conj (N.le_0_l r) Hr))). rewrite forallb_forall in H.
    apply cell_eqb_eq. apply H. apply in_range. lia.
  - intros H r Hr. apply in_range in Hr. apply forallb_forall. intros c Hc. apply in_range in Hc. apply cell_eqb_eq. apply H; lia.
Qed.

Theorem aeqb_Aeq a b : aeqb a b = true <-> Aeq a b.
Proof.
  unfold aeqb, a_rest_eqb. rewrite !andb_true_iff, !N.eqb_eq, cursor_eqb_eq, margins_eqb_eq, !nseteq_seteq, !leqb_eq, gsel_eqb_eq, !csid_eqb_eq,
    saves_eqb_eq, optN_eqb_eq, a_grid_eqb_spec. split.
  - intros [[[[[[[[[[[[[[h1 h2] h3] h4] h5] h6] h7] h8] h9] h10] h11] h12] h13] h14] h15]. constructor; assumption.
  - intros [q1 q2 q3 q4 q5 q6 q7 q8 q9 q10 q11 q12 q13 q14 q15]. repeat split; assumption.
Qed.

Section S.
Variable wid : cp -> N. Variable is_comb : cp -> bool. Variable nfc : str -> str.
(* what a `true` of the oracle on an implementation snapshot means *)
Theorem spec_ok_sound pre o post : spec_ok wid is_comb nfc pre o post = true <-> Aeq (abs post) (astep wid is_comb nfc (abs pre) o).
Proof. unfold spec_ok. apply aeqb_Aeq. Qed.
(* the code model satisfies the predicate that is evaluated on the implementation *)
Theorem spec_ok_of_model s o : WF s -> SCm s -> args_ok o -> spec_ok wid is_comb nfc s o (step wid is_comb nfc s o) = true.
Proof. intros W SC A. apply spec_ok_sound. destruct (refine_step wid is_comb nfc s o W SC A) as [R _]. exact R. Qed.
Theorem spec_ok_nd_of_spec_ok pre o post : spec_ok wid is_comb nfc pre o post = true -> spec_ok_nd wid is_comb nfc pre o post = true.
Proof.
  unfold spec_ok, spec_ok_nd, aeqb. cbv zeta. rewrite !andb_true_iff. intros [[H1 _] H2]. split; assumption.
Qed.
End S.

(* ---- the boolean well-formedness predicate evaluated on implementation snapshots implies the invariant of the theorems ---- *)
Lemma get_In {A} k (m : NMap.t A) v : NMap.get k m = Some v -> In (k, v) m.
Proof.
  induction m as [|[k' v'] m IH]; cbn [NMap.get]; [discriminate|].
  destruct (N.eqb_spec k k') as [->|N]; [intros E; inversion E; left; reflexivity|intros E; right; apply IH; exact E].
Qed.
Theorem wfb_sound s : wfb s = true -> WF s.
Proof.
  unfold wfb, c09b, wf_internal. rewrite !andb_true_iff.
  intros [[[[[[[h1 h2] h3] h4] h5] h6] _] [[[h8 _] _] _]].
  apply N.leb_le in h1. apply N.leb_le in h2. apply N.ltb_lt in h3. apply N.leb_le in h4.
  unfold no_hidden in h8. rewrite forallb_forall in h8.
  constructor; try assumption.
  - unfold margins_wf, margins_ok in *. destruct (margins s) as [[t b]|]; [|exact I].
    apply andb_true_iff in h5. destruct h5 as [a b']. apply N.ltb_lt in a. apply N.leb_le in b'. split; assumption.
  - intros y Hy. rewrite forallb_forall in h6. apply N.ltb_lt. apply h6. apply nmem_In. exact Hy.
  - intros r line G. specialize (h8 _ (get_In _ _ _ G)). apply andb_true_iff in h8. apply N.ltb_lt. exact (proj1 h8).
  - intros r line c x G G2. specialize (h8 _ (get_In _ _ _ G)). apply andb_true_iff in h8. destruct h8 as [_ h8]. cbn [snd] in h8.
    rewrite forallb_forall in h8. specialize (h8 _ (get_In _ _ _ G2)). apply N.ltb_lt. exact h8.
Qed.
