(* Proofs/P04.v — C04: drawing. *)
From Coq Require Import NArith List Bool Lia.
From MT Require Import Lib Types Charsets Tables Screen Spec Obs Stmt.
From MT.Proofs Require Import WF Aeq Loops RefineSimple P05 Congr CongrMore SpecAll.
Import ListNotations.
Open Scope N_scope.

(* everything except grid, cursor position and dirty set *)
Definition same_rest (a b : astate) : Prop :=
  a_cols b = a_cols a /\ a_lines b = a_lines a /\ a_margins b = a_margins a /\ a_mode b = a_mode a /\ a_tabs b = a_tabs a /\
  a_cs b = a_cs a /\ a_g0 b = a_g0 a /\ a_g1 b = a_g1 a /\ a_title b = a_title a /\ a_icon b = a_icon a /\ a_sp b = a_sp a /\
  a_savedcols b = a_savedcols a /\ aattr b = aattr a /\ cu_hidden (a_cur b) = cu_hidden (a_cur a).
Lemma sr_refl a : same_rest a a. Proof. repeat split. Qed.
Lemma sr_trans a b c : same_rest a b -> same_rest b c -> same_rest a c.
Proof. unfold same_rest. intros H1 H2. decompose [and] H1. decompose [and] H2. repeat split; congruence. Qed.
Lemma sr_put a y x cl : same_rest a (a_put a y x cl). Proof. repeat split. Qed.
Lemma sr_x a x : same_rest a (a_x a x). Proof. repeat split. Qed.
Lemma sr_y a y : same_rest a (a_y a y). Proof. repeat split. Qed.
Lemma sr_dirty_add a y : same_rest a (a_dirty_add a y). Proof. repeat split. Qed.
Lemma sr_ich a n : same_rest a (a_ich a n). Proof. repeat split. Qed.
Lemma sr_index a : same_rest a (a_index a).
Proof. unfold a_index. destruct (atb a) as [t b]. destruct (ay a =? b); repeat split. Qed.
Lemma sr_linefeed a : same_rest a (a_linefeed a).
Proof. unfold a_linefeed. destruct (amode (a_index a) LNM); [eapply sr_trans; [apply sr_index|apply sr_x]|apply sr_index]. Qed.

Lemma ax_put a y x cl : ax (a_put a y x cl) = ax a. Proof. reflexivity. Qed.
Lemma ay_put a y x cl : ay (a_put a y x cl) = ay a. Proof. reflexivity. Qed.
Lemma aattr_put a y x cl : aattr (a_put a y x cl) = aattr a. Proof. reflexivity. Qed.
Lemma cols_put a y x cl : a_cols (a_put a y x cl) = a_cols a. Proof. reflexivity. Qed.

Section S.
Variable wid : cp -> N. Variable is_comb : cp -> bool. Variable nfc : str -> str.
Notation a_draw_char := (a_draw_char wid is_comb nfc).
Notation a_draw := (a_draw wid is_comb nfc).
Notation place := (place is_comb nfc).

Lemma sr_pre_wrap a w : same_rest a (pre_wrap a w).
Proof.
  unfold pre_wrap. destruct (ax a =? a_cols a); [|apply sr_refl].
  destruct (amode a DECAWM).
  - eapply sr_trans; [|apply sr_linefeed]. eapply sr_trans; [apply sr_dirty_add|apply sr_x].
  - destruct (0 <? w); [apply sr_x|apply sr_refl].
Qed.
Lemma sr_place a ch w : same_rest a (place a ch w).
Proof.
  unfold place. destruct (w =? 1); [apply sr_put|]. destruct (w =? 2).
  - cbv zeta. destruct (_ <? _); [eapply sr_trans; apply sr_put|apply sr_put].
  - destruct ((w =? 0) && is_comb ch); [|apply sr_refl].
    destruct (0 <? ax a); [apply sr_put|]. destruct (0 <? ay a); [|apply sr_refl].
    eapply sr_trans; [apply sr_put|apply sr_dirty_add].
Qed.
(* apart from cells, cursor position and dirty rows NOTHING changes, for any character in any state *)
Lemma c04_frame_char a ch : same_rest a (a_draw_char a ch).
Proof.
  rewrite draw_char_stages. cbv zeta.
  set (a1 := pre_wrap a (wid ch)). assert (S1 : same_rest a a1) by apply sr_pre_wrap.
  set (a2 := if amode a1 IRM && (0 <? wid ch) then a_ich a1 (Some (wid ch)) else a1).
  assert (S2 : same_rest a1 a2) by (unfold a2; destruct (_ && _); [apply sr_ich|apply sr_refl]).
  set (a3 := place a2 ch (wid ch)). assert (S3 : same_rest a2 a3) by apply sr_place.
  destruct (0 <? wid ch); [eapply sr_trans; [|apply sr_x]|]; eapply sr_trans; [|exact S3| |exact S3]; eapply sr_trans; eassumption.
Qed.
Lemma c04_frame_chars cs : forall a, same_rest a (fold_left a_draw_char cs a).
Proof. induction cs as [|c cs IH]; intros a; [apply sr_refl|]. cbn [fold_left]. eapply sr_trans; [apply c04_frame_char|apply IH]. Qed.
Lemma c04_frame a t : same_rest a (a_draw a t).
Proof. unfold a_draw. eapply sr_trans; [apply c04_frame_chars|apply sr_dirty_add]. Qed.

(* ---- the individual cases; "not at the edge, no insert mode" first ---- *)
Definition plain (a : astate) : Prop := ax a < a_cols a /\ amode a IRM = false.
Lemma plain_stages a ch : ax a <> a_cols a -> amode a IRM = false ->
  a_draw_char a ch = let a3 := place a ch (wid ch) in if 0 <? wid ch then a_x a3 (N.min (ax a3 + wid ch) (a_cols a3)) else a3.
Proof.
  intros Hx HI. rewrite draw_char_stages. cbv zeta. unfold pre_wrap.
  destruct (N.eqb_spec (ax a) (a_cols a)); [contradiction|]. rewrite HI. reflexivity.
Qed.
(* narrow character: exactly the cell under the cursor := (char, current rendition); cursor advances by one *)
Lemma c04_narrow a ch : wid ch = 1 -> ax a < a_cols a -> amode a IRM = false ->
  a_draw_char a ch = a_x (a_put a (ay a) (ax a) (with_data (aattr a) [ch])) (N.min (ax a + 1) (a_cols a)).
Proof.
  intros Hw Hx HI. rewrite plain_stages by (try assumption; lia). rewrite Hw. reflexivity.
Qed.
(* double-width character: lead cell + empty placeholder (when it fits); cursor advances by two (clamped) *)
Lemma c04_wide a ch : wid ch = 2 -> ax a < a_cols a -> amode a IRM = false ->
  a_draw_char a ch =
  let a1 := a_put a (ay a) (ax a) (with_data (aattr a) [ch]) in
  a_x (if ax a + 1 <? a_cols a then a_put a1 (ay a) (ax a + 1) (with_data (aattr a) []) else a1) (N.min (ax a + 2) (a_cols a)).
Proof.
  intros Hw Hx HI. rewrite plain_stages by (try assumption; lia). rewrite Hw. cbv zeta. unfold place. cbn [N.eqb Pos.eqb].
  cbn [N.ltb N.compare]. cbv zeta. rewrite !ax_put, !ay_put, !aattr_put, !cols_put.
  destruct (ax a + 1 <? a_cols a); rewrite ?ax_put, ?cols_put; reflexivity.
Qed.
(* combining mark: appended (after normalisation) to the previously written cell; cursor does not move *)
Lemma c04_combining a ch : wid ch = 0 -> is_comb ch = true -> 0 < ax a < a_cols a ->
  a_draw_char a ch = a_put a (ay a) (ax a - 1) (with_data (a_grid a (ay a) (ax a - 1)) (nfc (c_data (a_grid a (ay a) (ax a - 1))) ++ [ch])).
Proof.
  intros Hw Hc Hx. rewrite draw_char_stages. cbv zeta. rewrite Hw. unfold pre_wrap.
  destruct (N.eqb_spec (ax a) (a_cols a)); [lia|]. rewrite andb_false_r. unfold place. cbn [N.eqb N.ltb N.compare]. rewrite Hc. cbn [andb].
  destruct (N.ltb_spec 0 (ax a)); [reflexivity|lia].
Qed.
Lemma c04_combining_prev_row a ch : wid ch = 0 -> is_comb ch = true -> ax a = 0 -> 0 < a_cols a -> 0 < ay a ->
  a_draw_char a ch = a_dirty_add (a_put a (ay a - 1) (a_cols a - 1)
     (with_data (a_grid a (ay a - 1) (a_cols a - 1)) (nfc (c_data (a_grid a (ay a - 1) (a_cols a - 1))) ++ [ch]))) (ay a - 1).
Proof.
  intros Hw Hc Hx Hcol Hy. rewrite draw_char_stages. cbv zeta. rewrite Hw. unfold pre_wrap.
  destruct (N.eqb_spec (ax a) (a_cols a)); [lia|]. rewrite andb_false_r. unfold place. cbn [N.eqb N.ltb N.compare]. rewrite Hc. cbn [andb].
  destruct (N.ltb_spec 0 (ax a)); [lia|]. destruct (N.ltb_spec 0 (ay a)); [reflexivity|lia].
Qed.
Lemma c04_combining_nowhere a ch : wid ch = 0 -> is_comb ch = true -> ax a = 0 -> 0 < a_cols a -> ay a = 0 -> a_draw_char a ch = a.
Proof.
  intros Hw Hc Hx Hcol Hy. rewrite draw_char_stages. cbv zeta. rewrite Hw. unfold pre_wrap.
  destruct (N.eqb_spec (ax a) (a_cols a)); [lia|]. rewrite andb_false_r. unfold place. cbn [N.eqb N.ltb N.compare]. rewrite Hc. cbn [andb].
  destruct (N.ltb_spec 0 (ax a)); [lia|]. destruct (N.ltb_spec 0 (ay a)); [lia|reflexivity].
Qed.
(* any other zero-width character, and anything of width > 2: NOTHING changes (unless a pending wrap is due) *)
Lemma c04_zero_width_ignored a ch : wid ch = 0 -> is_comb ch = false -> (ax a <> a_cols a \/ amode a DECAWM = false) -> a_draw_char a ch = a.
Proof.
  intros Hw Hc Hx. rewrite draw_char_stages. cbv zeta. rewrite Hw. unfold pre_wrap.
  assert (E : (if ax a =? a_cols a then if amode a DECAWM then a_linefeed (a_cr (a_dirty_add a (ay a))) else if 0 <? 0 then a_x a (ax a - 0) else a else a) = a).
  { destruct (N.eqb_spec (ax a) (a_cols a)); [|reflexivity]. destruct Hx as [Hx|Hx]; [contradiction|]. rewrite Hx. reflexivity. }
  rewrite E. rewrite andb_false_r. unfold place. cbn [N.eqb N.ltb N.compare]. rewrite Hc. reflexivity.
Qed.
Lemma c04_unprintable_width a ch : 2 < wid ch -> ax a <> a_cols a -> amode a IRM = false ->
  a_draw_char a ch = a_x a (N.min (ax a + wid ch) (a_cols a)).
Proof.
  intros Hw Hx HI. rewrite plain_stages by assumption. cbv zeta. unfold place.
  destruct (N.eqb_spec (wid ch) 1); [lia|]. destruct (N.eqb_spec (wid ch) 2); [lia|]. destruct (N.eqb_spec (wid ch) 0); [lia|]. cbn [andb].
  destruct (N.ltb_spec 0 (wid ch)); [reflexivity|lia].
Qed.
(* pending wrap (cursor past the last column) *)
Definition after_wrap (a1 : astate) (ch : cp) : astate :=
  let w := wid ch in
  let a2 := if amode a1 IRM && (0 <? w) then a_ich a1 (Some w) else a1 in
  let a3 := place a2 ch w in
  if 0 <? w then a_x a3 (N.min (ax a3 + w) (a_cols a3)) else a3.
Lemma dcs a ch : a_draw_char a ch = after_wrap (pre_wrap a (wid ch)) ch. Proof. reflexivity. Qed.
Lemma c04_wrap_on a ch : ax a = a_cols a -> amode a DECAWM = true ->
  a_draw_char a ch = a_draw_char (a_linefeed (a_cr (a_dirty_add a (ay a)))) ch \/ a_cols a = 0.
Proof.
  intros Hx HA. destruct (N.eqb_spec (a_cols a) 0) as [E0|E0]; [right; exact E0|left].
  rewrite (dcs a). unfold pre_wrap at 1. rewrite Hx, N.eqb_refl, HA.
  set (b := a_linefeed _). rewrite (dcs b).
  assert (Eb : pre_wrap b (wid ch) = b).
  { unfold pre_wrap. assert (Xb : ax b = 0 /\ a_cols b = a_cols a).
    { unfold b, a_linefeed. set (c := a_cr _). assert (Xc : ax c = 0 /\ a_cols c = a_cols a) by (split; reflexivity).
      assert (Xi : ax (a_index c) = 0 /\ a_cols (a_index c) = a_cols a).
      { unfold a_index. destruct (atb c) as [t bb]. destruct (ay c =? bb); (split; [exact (proj1 Xc)|reflexivity]). }
      destruct (amode (a_index c) LNM); [split; [reflexivity|exact (proj2 Xi)]|exact Xi]. }
    destruct Xb as [X1 X2]. rewrite X1, X2. destruct (N.eqb_spec 0 (a_cols a)); [congruence|reflexivity]. }
  rewrite Eb. reflexivity.
Qed.
Lemma c04_wrap_off a ch : ax a = a_cols a -> amode a DECAWM = false -> 0 < wid ch -> wid ch <= a_cols a ->
  a_draw_char a ch = a_draw_char (a_x a (a_cols a - wid ch)) ch.
Proof.
  intros Hx HA Hw Hwc.
  rewrite (dcs a). unfold pre_wrap at 1. rewrite Hx, N.eqb_refl, HA.
  destruct (N.ltb_spec 0 (wid ch)) as [_|?]; [|lia].
  set (b := a_x a _). rewrite (dcs b).
  assert (Eb : pre_wrap b (wid ch) = b).
  { unfold pre_wrap. change (ax b) with (a_cols a - wid ch). change (a_cols b) with (a_cols a).
    destruct (N.eqb_spec (a_cols a - wid ch) (a_cols a)); [lia|reflexivity]. }
  rewrite Eb. reflexivity.
Qed.
(* insert mode: the row is first shifted right by the character's width from the cursor (ICH, see C13) *)
Lemma c04_insert_mode a ch : ax a <> a_cols a -> amode a IRM = true -> 0 < wid ch ->
  a_draw_char a ch = (let a2 := a_ich a (Some (wid ch)) in let a3 := place a2 ch (wid ch) in a_x a3 (N.min (ax a3 + wid ch) (a_cols a3))).
Proof.
  intros Hx HI Hw. rewrite draw_char_stages. cbv zeta. unfold pre_wrap.
  destruct (N.eqb_spec (ax a) (a_cols a)); [contradiction|]. rewrite HI.
  destruct (N.ltb_spec 0 (wid ch)); [reflexivity|lia].
Qed.
(* a whole text: translate through the active charset, draw char by char, mark the final row *)
Lemma c04_text a t : a_draw a t = (let a' := fold_left a_draw_char (map (a_translate a) t) a in a_dirty_add a' (ay a')).
Proof. reflexivity. Qed.
(* cells: with no wrap pending and insert mode off, a character changes no cell other than (cursor row, cursor col),
   (cursor row, cursor col + 1) [wide], (cursor row, cursor col - 1) / (previous row, last col) [combining] *)
Lemma c04_other_cells a ch r c : ax a <> a_cols a -> amode a IRM = false ->
  ~ (r = ay a /\ (c = ax a \/ c = ax a + 1 \/ c = ax a - 1)) -> ~ (r = ay a - 1 /\ c = a_cols a - 1 /\ ax a = 0) ->
  a_grid (a_draw_char a ch) r c = a_grid a r c.
Proof.
  intros Hx HI N1 N2. rewrite plain_stages by assumption. cbv zeta.
  assert (G : a_grid (place a ch (wid ch)) r c = a_grid a r c).
  { unfold place. destruct (wid ch =? 1).
    - cbn [a_grid a_put a_with_grid]. bdestruct; cbn; try reflexivity. exfalso; apply N1; lia.
    - destruct (wid ch =? 2).
      + cbv zeta. rewrite !ax_put, !ay_put, !aattr_put, !cols_put.
        destruct (ax a + 1 <? a_cols a); cbn [a_grid a_put a_with_grid]; bdestruct; cbn; try reflexivity; exfalso; apply N1; lia.
      + destruct ((wid ch =? 0) && is_comb ch); [|reflexivity].
        destruct (N.ltb_spec 0 (ax a)).
        * cbn [a_grid a_put a_with_grid]. bdestruct; cbn; try reflexivity. exfalso; apply N1; lia.
        * destruct (N.ltb_spec 0 (ay a)); [|reflexivity]. cbn [a_grid a_put a_with_grid a_dirty_add a_with_dirty]. bdestruct; cbn; try reflexivity.
          exfalso; apply N2; lia. }
  destruct (0 <? wid ch); [cbn [a_grid a_x a_xy a_with_cur]|]; exact G.
Qed.
End S.
