(* Proofs/Recog.v — C03 / C19: the recogniser model accepts the documented token grammar with exactly the
   documented meaning, and is back in the ground state after every complete token. *)
From Coq Require Import NArith List Bool Lia.
From MT Require Import Lib Types Charsets Tables Screen Parser.
From MT.Proofs Require Import Stream.
Import ListNotations.
Open Scope N_scope.

Ltac uconst := unfold BEL, BS, HT, LF, VT, FF, CR, SO, SI, CAN, SUB, ESC, SP, GREATER, CSI_C1, OSC_C1, ST_C1 in *.
(* prun, one symbol at a time *)
Lemma prun_cons u st c rest : prun u st (c :: rest) = let '(st1, e1) := pstep u st c in let '(st2, e2) := prun u st1 rest in (st2, e1 ++ e2).
Proof. reflexivity. Qed.
Lemma prun_silent u st st1 c rest : pstep u st c = (st1, []) -> prun u st (c :: rest) = prun u st1 rest.
Proof. intros E. rewrite prun_cons, E. destruct (prun u st1 rest). reflexivity. Qed.
Lemma prun_emit u st st1 ev c rest : pstep u st c = (st1, ev) ->
  prun u st (c :: rest) = (fst (prun u st1 rest), ev ++ snd (prun u st1 rest)).
Proof. intros E. rewrite prun_cons, E. destruct (prun u st1 rest). reflexivity. Qed.

(* ================= OSC (C19) ================= *)
Inductive payload : list cp -> Prop :=
| pl_nil : payload []
| pl_char c rest : c <> BEL -> c <> ST_C1 -> c <> ESC -> payload rest -> payload (c :: rest)
| pl_esc x rest : x <> 92 -> payload rest -> payload (ESC :: x :: rest).

Lemma osc_char u code acc c : c <> BEL -> c <> ST_C1 -> c <> ESC ->
  pstep u (POscParam code acc) c = (POscParam code (acc ++ [c]), []).
Proof.
  intros H1 H2 H3. unfold pstep.
  destruct (N.eqb_spec c ESC); [contradiction|]. destruct (N.eqb_spec c BEL); [contradiction|]. destruct (N.eqb_spec c ST_C1); [contradiction|].
  reflexivity.
Qed.
Lemma osc_payload_run u code p : payload p -> forall acc rest,
  prun u (POscParam code acc) (p ++ rest) = prun u (POscParam code (acc ++ p)) rest.
Proof.
  induction 1 as [|c p' H1 H2 H3 P IH|x p' Hx P IH]; intros acc rest.
  - rewrite app_nil_r. reflexivity.
  - cbn [app]. rewrite (prun_silent u _ _ c _ (osc_char u code acc c H1 H2 H3)), IH, <- app_assoc. reflexivity.
  - cbn [app].
    assert (E1 : pstep u (POscParam code acc) ESC = (POscParamEsc code acc, [])) by reflexivity.
    rewrite (prun_silent u _ _ _ _ E1).
    assert (E2 : pstep u (POscParamEsc code acc) x = (POscParam code (acc ++ [ESC; x]), [])).
    { unfold pstep. destruct (N.eqb_spec x 92); [contradiction|reflexivity]. }
    rewrite (prun_silent u _ _ _ _ E2), IH, <- app_assoc. reflexivity.
Qed.
Definition osc_intros : list (list cp) := [[ESC; 93]; [OSC_C1]].
Definition osc_terms : list (list cp) := [[BEL]; [ST_C1]; [ESC; 92]].
Lemma osc_term_run u code acc term rest : In term osc_terms ->
  prun u (POscParam code acc) (term ++ rest) = (fst (prun u PGround rest), osc_finish code acc ++ snd (prun u PGround rest)).
Proof.
  intros [<-|[<-|[<-|[]]]]; cbn [app].
  - apply prun_emit. reflexivity.
  - apply prun_emit. reflexivity.
  - assert (E1 : pstep u (POscParam code acc) ESC = (POscParamEsc code acc, [])) by reflexivity.
    rewrite (prun_silent u _ _ _ _ E1). apply prun_emit. reflexivity.
Qed.
Lemma osc_intro_run u intro code rest : In intro osc_intros -> code <> 82 -> code <> 80 ->
  prun u PGround (intro ++ code :: rest) = prun u (POscParam code []) rest.
Proof.
  intros HI H1 H2.
  assert (E : pstep u POscCode code = (POscParam code [], [])).
  { unfold pstep. destruct (N.eqb_spec code 82); [contradiction|]. destruct (N.eqb_spec code 80); [contradiction|]. reflexivity. }
  destruct HI as [<-|[<-|[]]]; cbn [app].
  - assert (E0 : pstep u PGround ESC = (PEsc, [])) by reflexivity. rewrite (prun_silent u _ _ _ _ E0).
    assert (E1 : pstep u PEsc 93 = (POscCode, [])) by reflexivity. rewrite (prun_silent u _ _ _ _ E1).
    apply prun_silent. exact E.
  - assert (E0 : pstep u PGround OSC_C1 = (POscCode, [])) by (destruct u; reflexivity). rewrite (prun_silent u _ _ _ _ E0).
    apply prun_silent. exact E.
Qed.
(* OSC <code> ; <payload> <terminator>: the events are exactly osc_finish with the payload *)
Theorem osc_sequence u intro code p term rest :
  In intro osc_intros -> code <> 82 -> code <> 80 -> payload p -> In term osc_terms ->
  prun u PGround (intro ++ code :: 59 :: p ++ term ++ rest) =
  (fst (prun u PGround rest),
   ((if (code =? 48) || (code =? 49) then [OIcon p] else []) ++ (if (code =? 48) || (code =? 50) then [OTitle p] else []))
   ++ snd (prun u PGround rest)).
Proof.
  intros HI H1 H2 P HT.
  rewrite (osc_intro_run u intro code _ HI H1 H2).
  assert (E : pstep u (POscParam code []) 59 = (POscParam code [59], [])) by reflexivity.
  rewrite (prun_silent u _ _ _ _ E).
  rewrite (osc_payload_run u code p P [59] (term ++ rest)).
  rewrite (osc_term_run u code _ term rest HT). reflexivity.
Qed.

(* ================= CSI (C03) ================= *)
Inductive citem := IDigit (d : cp) | ISemi | IQ | ISp | IGt | ICtl (c : cp).
Definition item_char (i : citem) : cp :=
  match i with IDigit d => d | ISemi => 59 | IQ => 63 | ISp => SP | IGt => GREATER | ICtl c => c end.
Definition item_ok (i : citem) : Prop :=
  match i with IDigit d => 48 <= d <= 57 | ICtl c => In c allowed_in_csi | _ => True end.
(* declarative reading of a CSI body: the digit / `;` subsequence split at `;` *)
Fixpoint fields (items : list citem) : list (list cp) :=
  match items with
  | [] => [[]]
  | IDigit d :: r => match fields r with f :: fs => (d :: f) :: fs | [] => [[d]] end
  | ISemi :: r => [] :: fields r
  | _ :: r => fields r
  end.
Definition has_q (items : list citem) : bool := existsb (fun i => match i with IQ => true | _ => false end) items.
Definition ctl_events (items : list citem) : list op :=
  concat (map (fun i => match i with ICtl c => basic_dispatch c | _ => [] end) items).
(* saturating decimal value: empty = 0, otherwise min(value, 9999) — for digit strings of ANY length *)
Lemma param_of_spec ds : param_of ds = match ds with [] => 0 | _ => N.min (dec_val 0 ds) 9999 end.
Proof.
  unfold param_of. destruct ds as [|d ds]; [reflexivity|].
  destruct (N.ltb_spec (dec_val 0 (d :: ds)) 18446744073709551616); [reflexivity|lia].
Qed.

Lemma fields_nonempty items : fields items <> [].
Proof. induction items as [|[d| | | | |c] r IH]; cbn; try discriminate; try exact IH. destruct (fields r); discriminate. Qed.
(* prepend pending digits to the first field *)
Definition with_cur (cur : list cp) (fs : list (list cp)) : list (list cp) :=
  match fs with f :: r => (cur ++ f) :: r | [] => [cur] end.
Lemma csi_items_run u : forall items ps cur pv rest, Forall item_ok items ->
  exists ps' cur',
    prun u (PCsi ps cur pv) (map item_char items ++ rest) =
      (fst (prun u (PCsi ps' cur' (pv || has_q items)) rest), ctl_events items ++ snd (prun u (PCsi ps' cur' (pv || has_q items)) rest)) /\
    ps' ++ [param_of cur'] = ps ++ map param_of (with_cur cur (fields items)).
Proof.
  induction items as [|i items IH]; intros ps cur pv rest F.
  - exists ps, cur. cbn. rewrite orb_false_r, app_nil_r. split; [destruct (prun u (PCsi ps cur pv) rest); reflexivity|reflexivity].
  - inversion F as [|? ? Hi F']; subst. cbn [map app].
    destruct i as [d| | | | |c]; cbn [item_ok item_char] in *.
    + (* digit *)
      assert (E : pstep u (PCsi ps cur pv) d = (PCsi ps (cur ++ [d]) pv, [])).
      { unfold pstep. destruct (N.eqb_spec d 63); [lia|].
        assert (A : nmem d allowed_in_csi = false) by (apply nmem_false; cbn; uconst; lia). rewrite A.
        destruct (N.eqb_spec d SP); [unfold SP in *; lia|]. destruct (N.eqb_spec d GREATER); [unfold GREATER in *; lia|]. cbn [orb].
        destruct (N.eqb_spec d CAN); [unfold CAN in *; lia|]. destruct (N.eqb_spec d SUB); [unfold SUB in *; lia|]. cbn [orb].
        unfold is_digit. destruct (N.leb_spec 48 d), (N.leb_spec d 57); try lia. reflexivity. }
      rewrite (prun_silent u _ _ _ _ E).
      destruct (IH ps (cur ++ [d]) pv rest F') as [ps' [cur' [R1 R2]]].
      exists ps', cur'. cbn [has_q existsb ctl_events map concat app]. split; [exact R1|].
      rewrite R2. cbn [fields]. pose proof (fields_nonempty items) as NE. destruct (fields items) as [|f fs]; [contradiction|].
      cbn [with_cur]. rewrite <- app_assoc. reflexivity.
    + (* ; *)
      assert (E : pstep u (PCsi ps cur pv) 59 = (PCsi (ps ++ [param_of cur]) [] pv, [])) by reflexivity.
      rewrite (prun_silent u _ _ _ _ E).
      destruct (IH (ps ++ [param_of cur]) [] pv rest F') as [ps' [cur' [R1 R2]]].
      exists ps', cur'. cbn [has_q existsb ctl_events map concat app]. split; [exact R1|].
      rewrite R2. cbn [fields with_cur]. rewrite app_nil_r, <- app_assoc. cbn [map app].
      pose proof (fields_nonempty items) as NE. destruct (fields items) as [|f fs]; [contradiction|]. reflexivity.
    + (* ? *)
      assert (E : pstep u (PCsi ps cur pv) 63 = (PCsi ps cur true, [])) by reflexivity.
      rewrite (prun_silent u _ _ _ _ E).
      destruct (IH ps cur true rest F') as [ps' [cur' [R1 R2]]].
      exists ps', cur'. cbn [has_q existsb ctl_events map concat app]. rewrite orb_true_r. cbn [orb] in R1. split; [exact R1|exact R2].
    + assert (E : pstep u (PCsi ps cur pv) SP = (PCsi ps cur pv, [])) by reflexivity.
      rewrite (prun_silent u _ _ _ _ E).
      destruct (IH ps cur pv rest F') as [ps' [cur' [R1 R2]]]. exists ps', cur'. split; [exact R1|exact R2].
    + assert (E : pstep u (PCsi ps cur pv) GREATER = (PCsi ps cur pv, [])) by reflexivity.
      rewrite (prun_silent u _ _ _ _ E).
      destruct (IH ps cur pv rest F') as [ps' [cur' [R1 R2]]]. exists ps', cur'. split; [exact R1|exact R2].
    + (* embedded control: executed at once *)
      assert (E : pstep u (PCsi ps cur pv) c = (PCsi ps cur pv, basic_dispatch c)).
      { cbn in Hi. repeat (destruct Hi as [<-|Hi]; [reflexivity|]). contradiction. }
      rewrite (prun_emit u _ _ _ _ _ E).
      destruct (IH ps cur pv rest F') as [ps' [cur' [R1 R2]]]. exists ps', cur'.
      rewrite R1. cbn [fst snd has_q existsb ctl_events map concat]. rewrite <- app_assoc. split; [reflexivity|exact R2].
Qed.

(* a character that ends the parameter collection and dispatches *)
Definition final_ok (c : cp) : Prop :=
  c <> 63 /\ ~ In c allowed_in_csi /\ c <> SP /\ c <> GREATER /\ c <> CAN /\ c <> SUB /\ ~ (48 <= c <= 57) /\ c <> 36 /\ c <> 59.
Lemma csi_final_step u ps cur pv c : final_ok c ->
  pstep u (PCsi ps cur pv) c = (PGround, csi_dispatch c (ps ++ [param_of cur]) pv).
Proof.
  intros [H1 [H2 [H3 [H4 [H5 [H6 [H7 [H8 H9]]]]]]]]. unfold pstep.
  destruct (N.eqb_spec c 63); [contradiction|].
  assert (A : nmem c allowed_in_csi = false) by (apply nmem_false; exact H2). rewrite A.
  destruct (N.eqb_spec c SP); [contradiction|]. destruct (N.eqb_spec c GREATER); [contradiction|]. cbn [orb].
  destruct (N.eqb_spec c CAN); [contradiction|]. destruct (N.eqb_spec c SUB); [contradiction|]. cbn [orb].
  assert (D : is_digit c = false). { unfold is_digit. destruct (N.leb_spec 48 c), (N.leb_spec c 57); try reflexivity. lia. }
  rewrite D. destruct (N.eqb_spec c 36); [contradiction|]. destruct (N.eqb_spec c 59); [contradiction|]. reflexivity.
Qed.
Definition csi_intros : list (list cp) := [[ESC; 91]; [CSI_C1]].
Lemma csi_intro_run u intro rest : In intro csi_intros -> prun u PGround (intro ++ rest) = prun u (PCsi [] [] false) rest.
Proof.
  intros [<-|[<-|[]]]; cbn [app].
  - assert (E0 : pstep u PGround ESC = (PEsc, [])) by reflexivity. rewrite (prun_silent u _ _ _ _ E0).
    apply prun_silent. reflexivity.
  - apply prun_silent. destruct u; reflexivity.
Qed.
(* CSI body final: embedded controls act immediately and in order, then exactly one dispatch with the
   declaratively computed parameters (always at least one) and the private flag; ground state afterwards *)
Theorem csi_sequence u intro items c rest : In intro csi_intros -> Forall item_ok items -> final_ok c ->
  prun u PGround (intro ++ map item_char items ++ c :: rest) =
  (fst (prun u PGround rest),
   (ctl_events items ++ csi_dispatch c (map param_of (fields items)) (has_q items)) ++ snd (prun u PGround rest)).
Proof.
  intros HI F HF. rewrite (csi_intro_run u intro _ HI).
  destruct (csi_items_run u items [] [] false (c :: rest) F) as [ps' [cur' [R1 R2]]].
  rewrite R1. cbn [orb]. rewrite (prun_emit u _ _ _ _ _ (csi_final_step u ps' cur' (has_q items) c HF)).
  cbn [fst snd]. rewrite R2. cbn [app].
  assert (W : with_cur [] (fields items) = fields items).
  { pose proof (fields_nonempty items). destruct (fields items); [contradiction|reflexivity]. }
  rewrite W, <- app_assoc. reflexivity.
Qed.
(* CAN / SUB abort: embedded controls only, plus the (undrawable) text event of that control; ground state *)
Theorem csi_aborted u intro items c rest : In intro csi_intros -> Forall item_ok items -> (c = CAN \/ c = SUB) ->
  prun u PGround (intro ++ map item_char items ++ c :: rest) =
  (fst (prun u PGround rest), (ctl_events items ++ [ODraw [c]]) ++ snd (prun u PGround rest)).
Proof.
  intros HI F HC. rewrite (csi_intro_run u intro _ HI).
  destruct (csi_items_run u items [] [] false (c :: rest) F) as [ps' [cur' [R1 _]]].
  rewrite R1. cbn [orb].
  assert (E : pstep u (PCsi ps' cur' (has_q items)) c = (PGround, [ODraw [c]])) by (destruct HC as [-> | ->]; reflexivity).
  rewrite (prun_emit u _ _ _ _ _ E). cbn [fst snd]. rewrite <- app_assoc. reflexivity.
Qed.
(* `$` + one more character: skipped without dispatch *)
Theorem csi_dollar u intro items x rest : In intro csi_intros -> Forall item_ok items ->
  prun u PGround (intro ++ map item_char items ++ 36 :: x :: rest) =
  (fst (prun u PGround rest), ctl_events items ++ snd (prun u PGround rest)).
Proof.
  intros HI F. rewrite (csi_intro_run u intro _ HI).
  destruct (csi_items_run u items [] [] false (36 :: x :: rest) F) as [ps' [cur' [R1 _]]].
  rewrite R1. cbn [orb].
  assert (E : pstep u (PCsi ps' cur' (has_q items)) 36 = (PCsiDollar, [])) by reflexivity.
  rewrite (prun_silent u _ _ _ _ E).
  assert (E2 : pstep u PCsiDollar x = (PGround, [])) by reflexivity.
  rewrite (prun_silent u _ _ _ _ E2). reflexivity.
Qed.

(* ================= the short tokens ================= *)
Theorem text_char u c rest : nmem c special_ctrls = false ->
  prun u PGround (c :: rest) = (fst (prun u PGround rest), [ODraw [c]] ++ snd (prun u PGround rest)).
Proof. intros H. apply prun_emit. apply plain_text_path. exact H. Qed.
Theorem c0_control u c rest : In c basic_ctrls ->
  prun u PGround (c :: rest) =
  (fst (prun u PGround rest), (if ((c =? SI) || (c =? SO)) && u then [] else basic_dispatch c) ++ snd (prun u PGround rest)).
Proof.
  intros H. apply prun_emit. cbn in H.
  repeat (destruct H as [<-|H]; [destruct u; reflexivity|]). contradiction.
Qed.
Theorem esc_final u f rest : f <> 91 -> f <> 93 -> f <> 35 -> f <> 37 -> f <> 40 -> f <> 41 ->
  prun u PGround (ESC :: f :: rest) = (fst (prun u PGround rest), escape_dispatch f ++ snd (prun u PGround rest)).
Proof.
  intros H1 H2 H3 H4 H5 H6.
  assert (E0 : pstep u PGround ESC = (PEsc, [])) by reflexivity. rewrite (prun_silent u _ _ _ _ E0).
  apply prun_emit. unfold pstep.
  destruct (N.eqb_spec f 91); [contradiction|]. destruct (N.eqb_spec f 93); [contradiction|]. destruct (N.eqb_spec f 35); [contradiction|].
  destruct (N.eqb_spec f 37); [contradiction|]. destruct (N.eqb_spec f 40); [contradiction|]. destruct (N.eqb_spec f 41); [contradiction|]. reflexivity.
Qed.
Theorem esc_hash_pct_paren u f rest :
  prun u PGround (ESC :: 35 :: f :: rest) = (fst (prun u PGround rest), (if f =? f_DECALN then [OAlign] else []) ++ snd (prun u PGround rest)) /\
  prun u PGround (ESC :: 37 :: f :: rest) = prun u PGround rest /\
  (forall m, m = 40 \/ m = 41 ->
     prun u PGround (ESC :: m :: f :: rest) = (fst (prun u PGround rest), (if u then [] else [ODefCharset [f] [m]]) ++ snd (prun u PGround rest))).
Proof.
  assert (E0 : pstep u PGround ESC = (PEsc, [])) by reflexivity.
  repeat split.
  - rewrite (prun_silent u _ _ _ _ E0). assert (E1 : pstep u PEsc 35 = (PEscHash, [])) by reflexivity.
    rewrite (prun_silent u _ _ _ _ E1). apply prun_emit. reflexivity.
  - rewrite (prun_silent u _ _ _ _ E0). assert (E1 : pstep u PEsc 37 = (PEscPct, [])) by reflexivity.
    rewrite (prun_silent u _ _ _ _ E1). apply prun_silent. reflexivity.
  - intros m [-> | ->]; rewrite (prun_silent u _ _ _ _ E0).
    + assert (E1 : pstep u PEsc 40 = (PEscParen 40, [])) by reflexivity. rewrite (prun_silent u _ _ _ _ E1). apply prun_emit. reflexivity.
    + assert (E1 : pstep u PEsc 41 = (PEscParen 41, [])) by reflexivity. rewrite (prun_silent u _ _ _ _ E1). apply prun_emit. reflexivity.
Qed.
Theorem osc_R_and_P u intro rest : In intro osc_intros ->
  prun u PGround (intro ++ 82 :: rest) = prun u PGround rest /\
  (forall a b c d e f g, prun u PGround (intro ++ 80 :: a :: b :: c :: d :: e :: f :: g :: rest) = prun u PGround rest).
Proof.
  intros HI.
  assert (S : forall r, prun u PGround (intro ++ r) = prun u POscCode r).
  { intros r. destruct HI as [<-|[<-|[]]]; cbn [app].
    - assert (E0 : pstep u PGround ESC = (PEsc, [])) by reflexivity. rewrite (prun_silent u _ _ _ _ E0). apply prun_silent. reflexivity.
    - apply prun_silent. destruct u; reflexivity. }
  split.
  - rewrite S. apply prun_silent. reflexivity.
  - intros a b c d e f g. rewrite S.
    assert (E : pstep u POscCode 80 = (POscSkip 7, [])) by reflexivity. rewrite (prun_silent u _ _ _ _ E).
    rewrite (prun_silent u (POscSkip 7) (POscSkip 6) a _ eq_refl), (prun_silent u (POscSkip 6) (POscSkip 5) b _ eq_refl),
      (prun_silent u (POscSkip 5) (POscSkip 4) c _ eq_refl), (prun_silent u (POscSkip 4) (POscSkip 3) d _ eq_refl),
      (prun_silent u (POscSkip 3) (POscSkip 2) e _ eq_refl), (prun_silent u (POscSkip 2) (POscSkip 1) f _ eq_refl).
    apply prun_silent. reflexivity.
Qed.
(* no sink: from every recogniser state some input leads back to the ground state *)
Theorem no_sink_state u st : exists input, fst (prun u st input) = PGround.
Proof.
  destruct st as [| | | | m | ps cur pv | | | n | code acc | code acc].
  - exists []. reflexivity.
  - exists [120]. reflexivity.
  - exists [120]. reflexivity.
  - exists [120]. reflexivity.
  - exists [120]. reflexivity.
  - exists [CAN]. reflexivity.
  - exists [120]. reflexivity.
  - exists [82]. reflexivity.
  - exists (repeat 120 n ++ [120])%list. induction n as [|[|n] IH]; try reflexivity.
    change (repeat 120 (S (S n)) ++ [120])%list with (120 :: (repeat 120 (S n) ++ [120]))%list.
    rewrite prun_cons. cbn [pstep]. destruct (prun u (POscSkip (S n)) (repeat 120 (S n) ++ [120])) as [s e] eqn:E. cbn [fst] in *. exact IH.
  - exists [BEL]. reflexivity.
  - exists [92]. reflexivity.
Qed.
