(* Proofs/P07.v — C07: erase operations. *)
From Coq Require Import NArith List Bool Lia.
From MT Require Import Lib Types Charsets Tables Screen Spec Obs Stmt.
From MT.Proofs Require Import WF Aeq Loops View RefineSimple RefineErase.
Import ListNotations.
Open Scope N_scope.

Definition is_erase (o : op) : bool := match o with OEd _ | OEl _ | OEch _ => true | _ => false end.
Definition sel (h : option N) : N := match h with Some v => v | None => 0 end.
(* the documented range of each erase operation, cursor at (x, y) *)
Definition erased (x y : N) (o : op) (r c : N) : bool :=
  match o with
  | OEl h => (r =? y) && (if sel h =? 0 then x <=? c else if sel h =? 1 then c <=? x else if sel h =? 2 then true else false)
  | OEch n => (r =? y) && (x <=? c) && (c <? x + hat n)
  | OEd h =>
      if sel h =? 0 then (y <? r) || ((r =? y) && (x <=? c))
      else if sel h =? 1 then (r <? y) || ((r =? y) && (c <=? x))
      else if (sel h =? 2) || (sel h =? 3) then true else false
  | _ => false
  end.

Section S.
Variable wid : cp -> N. Variable is_comb : cp -> bool. Variable nfc : str -> str.
Notation step := (step wid is_comb nfc).
Notation astep := (astep wid is_comb nfc).

Lemma c07_refines s o : WF s -> is_erase o = true -> Aeq (abs (step s o)) (astep (abs s) o) /\ WF (step s o).
Proof.
  intros W H. destruct o; try discriminate H.
  - split; [apply ref_ed; exact W|apply WF_ed; exact W].
  - split; [apply ref_el; exact W|apply WF_el_gen; exact W].
  - split; [apply ref_ech; exact W|apply WF_ech; exact W].
Qed.

Lemma a_el_grid a h r c : r < a_lines a -> c < a_cols a ->
  a_grid (a_el a h) r c = if erased (ax a) (ay a) (OEl h) r c then aattr a else a_grid a r c.
Proof.
  intros Hr Hc. unfold a_el, erased, sel. 
  destruct (match h with Some v => v | None => 0 end =? 0); [|destruct (match h with Some v => v | None => 0 end =? 1);
    [|destruct (match h with Some v => v | None => 0 end =? 2)]];
  unfold a_fill_row, a_dirty_add, a_with_dirty, a_with_grid, ax, ay, aattr; cbn [a_grid a_cur a_cols];
  bdestruct; cbn; try reflexivity; lia.
Qed.
Lemma c07_cells a o r c : is_erase o = true -> r < a_lines a -> c < a_cols a ->
  a_grid (astep a o) r c = if erased (ax a) (ay a) o r c then aattr a else a_grid a r c.
Proof.
  intros H Hr Hc. destruct o; try discriminate H; cbn [astep].
  - (* ED *)
    unfold a_ed, erased, sel. set (hh := match how with Some v => v | None => 0 end).
    destruct (hh =? 0) eqn:E0.
    + cbn [orb]. rewrite a_el_grid by assumption. unfold erased, sel. cbn [a_grid a_with_grid a_dirty_range a_with_dirty ax ay aattr a_cur].
      unfold ax, ay, aattr; cbn [a_cur a_with_grid a_with_dirty a_dirty_range]. apply N.eqb_eq in E0. rewrite E0. cbn [N.eqb].
      bdestruct; cbn; try reflexivity; lia.
    + destruct (hh =? 1) eqn:E1.
      * cbn [orb]. rewrite a_el_grid by assumption. unfold erased, sel.
        unfold ax, ay, aattr; cbn [a_cur a_grid a_with_grid a_with_dirty a_dirty_range]. apply N.eqb_eq in E1. rewrite E1. cbn [N.eqb Pos.eqb].
        bdestruct; cbn; try reflexivity; lia.
      * cbn [orb]. destruct ((hh =? 2) || (hh =? 3)); cbn [a_grid a_with_grid a_dirty_range a_with_dirty];
          bdestruct; cbn; try reflexivity; lia.
  - apply a_el_grid; assumption.
  - unfold a_ech, erased, a_fill_row, a_dirty_add, a_with_dirty, a_with_grid, ax, ay, aattr; cbn [a_grid a_cur].
    bdestruct; cbn; try reflexivity; lia.
Qed.
(* cursor (position AND rendition), modes, margins, tab stops, size, charsets, titles, saved cursors: unchanged *)
Lemma c07_frame a o : is_erase o = true ->
  let a' := astep a o in
  a_cur a' = a_cur a /\ a_mode a' = a_mode a /\ a_margins a' = a_margins a /\ a_tabs a' = a_tabs a /\
  a_cols a' = a_cols a /\ a_lines a' = a_lines a /\ a_cs a' = a_cs a /\ a_g0 a' = a_g0 a /\ a_g1 a' = a_g1 a /\
  a_title a' = a_title a /\ a_icon a' = a_icon a /\ a_sp a' = a_sp a /\ a_savedcols a' = a_savedcols a.
Proof.
  intros H. destruct o; try discriminate H; cbn [astep].
  - unfold a_ed, a_el. set (hh := match how with Some v => v | None => 0 end).
    destruct (if hh =? 0 then _ else _) as [lo hi].
    destruct ((hh =? 0) || (hh =? 1)); [destruct (hh =? 0); [|destruct (hh =? 1); [|destruct (hh =? 2)]]|]; repeat split; reflexivity.
  - unfold a_el. destruct (_ =? 0); [|destruct (_ =? 1); [|destruct (_ =? 2)]]; repeat split; reflexivity.
  - repeat split; reflexivity.
Qed.
(* unsupported selectors are ignored *)
Lemma c07_unsupported a h r c : 3 < sel h -> a_grid (astep a (OEd h)) r c = a_grid a r c /\ a_grid (astep a (OEl h)) r c = a_grid a r c.
Proof.
  intros Hh. cbn [astep]. unfold a_ed, a_el, sel in *. set (hh := match h with Some v => v | None => 0 end) in *.
  destruct (N.eqb_spec hh 0); [lia|]. destruct (N.eqb_spec hh 1); [lia|]. destruct (N.eqb_spec hh 2); [lia|]. destruct (N.eqb_spec hh 3); [lia|].
  cbn [orb]. split; [|reflexivity]. cbn [a_grid a_with_grid a_dirty_range a_with_dirty].
  bdestruct; cbn; try reflexivity; lia.
Qed.
End S.
