(* Proofs/CongrGrid.v — congruence of the specification for the operations that rewrite cells. *)
From Coq Require Import NArith List Bool Lia.
From MT Require Import Lib Types Charsets Tables Screen Spec Obs Stmt.
From MT.Proofs Require Import WF Aeq Loops RefineSimple RefineTab P05 Congr.
Import ListNotations.
Open Scope N_scope.

Lemma cg_decaln a b : AWF a -> Aeq a b -> Aeq (a_decaln a) (a_decaln b).
Proof. intros W H. start W H a b. unf. fin2 q3. Qed.
Lemma cg_index a b : AWF a -> Aeq a b -> Aeq (a_index a) (a_index b).
Proof. intros W H. start W H a b. unf. rewrite <- ?q6. destruct ma as [[t bb]|]; bsplit; fin2 q3. Qed.
Lemma cg_rindex a b : AWF a -> Aeq a b -> Aeq (a_rindex a) (a_rindex b).
Proof. intros W H. start W H a b. unf. rewrite <- ?q6. destruct ma as [[t bb]|]; bsplit; fin2 q3. Qed.
Lemma cg_cr a b : Aeq a b -> Aeq (a_cr a) (a_cr b).
Proof. intros [q1 q2 q3 q4 q5 q6 q7 q8 q9 q10 q11 q12 q13 q14 q15]. unfold a_cr, a_x, a_xy, a_with_cur, ax, ay, aattr. rewrite q4. constructor; cbn; auto. Qed.
Lemma cg_linefeed a b : AWF a -> Aeq a b -> Aeq (a_linefeed a) (a_linefeed b).
Proof.
  intros W H. unfold a_linefeed. pose proof (cg_index a b W H) as G.
  unfold amode. rewrite (q_mode _ _ G LNM). destruct (nmem LNM (a_mode (a_index b))); [apply cg_cr|]; exact G.
Qed.
Lemma cg_ich a b n : AWF a -> Aeq a b -> Aeq (a_ich a n) (a_ich b n).
Proof. intros W H. start W H a b. unf. rewrite <- ?q6. fin2 q3. Qed.
Lemma cg_dch a b n : AWF a -> Aeq a b -> Aeq (a_dch a n) (a_dch b n).
Proof. intros W H. start W H a b. unf. rewrite <- ?q6. fin2 q3. Qed.
Lemma cg_ech a b n : AWF a -> Aeq a b -> Aeq (a_ech a n) (a_ech b n).
Proof. intros W H. start W H a b. unf. fin2 q3. Qed.
Lemma cg_el a b h : AWF a -> Aeq a b -> Aeq (a_el a h) (a_el b h).
Proof. intros W H. start W H a b. unf. bsplit; fin2 q3. Qed.
Lemma cg_il a b n : AWF a -> Aeq a b -> Aeq (a_il a n) (a_il b n).
Proof. intros W H. start W H a b. unf. rewrite <- ?q6. destruct ma as [[t bb]|]; bsplit; fin2 q3. Qed.
Lemma cg_dl a b n : AWF a -> Aeq a b -> Aeq (a_dl a n) (a_dl b n).
Proof. intros W H. start W H a b. unf. rewrite <- ?q6. destruct ma as [[t bb]|]; bsplit; fin2 q3. Qed.

Lemma cg_ed a b h : AWF a -> Aeq a b -> Aeq (a_ed a h) (a_ed b h).
Proof.
  intros W H. unfold a_ed.
  set (hh := match h with Some v => v | None => 0 end).
  assert (Ey : ay a = ay b) by (unfold ay; rewrite (q_cur _ _ H); reflexivity).
  assert (El : a_lines a = a_lines b) by apply (q_lines _ _ H).
  rewrite <- Ey, <- El.
  destruct (if hh =? 0 then (ay a + 1, a_lines a) else if hh =? 1 then (0, ay a) else if (hh =? 2) || (hh =? 3) then (0, a_lines a) else (0, 0)) as [lo hi].
  assert (G : Aeq (a_with_grid (a_dirty_range a lo hi) (fun r c => if (lo <=? r) && (r <? hi) then aattr a else a_grid a r c))
                  (a_with_grid (a_dirty_range b lo hi) (fun r c => if (lo <=? r) && (r <? hi) then aattr b else a_grid b r c))).
  { start W H a b. unf. fin2 q3. }
  destruct ((hh =? 0) || (hh =? 1)); [|exact G].
  apply cg_el; [|exact G].
  destruct W as [w1 w2 w3 w4 w5]. constructor; assumption.
Qed.
Lemma cg_cup a b l c : AWF a -> Aeq a b -> Aeq (a_cup a l c) (a_cup b l c).
Proof. intros W H. apply (congr_cursor_ops (fun _ => 0) (fun _ => false) (fun x => x) (OCup l c) a b W H eq_refl). Qed.
Lemma cg_stbm a b t bt : AWF a -> Aeq a b -> Aeq (a_stbm a t bt) (a_stbm b t bt).
Proof.
  intros W H. unfold a_stbm.
  destruct ((match t with Some t0 => t0 | None => 0 end =? 0) && match bt with None => true | Some _ => false end).
  - destruct H as [q1 q2 q3 q4 q5 q6 q7 q8 q9 q10 q11 q12 q13 q14 q15]. constructor; cbn; auto.
  - unfold atb. rewrite <- (q_margins _ _ H), <- (q_lines _ _ H).
    destruct (match a_margins a with Some m => m | None => (0, a_lines a - 1) end) as [mt mb] eqn:EM.
    set (t' := match t with Some v => N.min (v - 1) (a_lines a - 1) | None => mt end).
    set (b' := match bt with Some v => N.min (v - 1) (a_lines a - 1) | None => mb end).
    destruct (N.ltb_spec t' b'); [|exact H].
    apply cg_cup.
    + pose proof W as [w1 w2 w3 w4 w5]. constructor; try assumption. cbn [a_margins a_with_margins a_lines]. split; [assumption|].
      assert (Hmb : mb <= a_lines a - 1) by (destruct (a_margins a) as [[t0 b0]|]; inversion EM; subst; lia).
      unfold b'. destruct bt; lia.
    + destruct H as [q1 q2 q3 q4 q5 q6 q7 q8 q9 q10 q11 q12 q13 q14 q15]. constructor; cbn; auto.
Qed.
