(* Proofs/RefineMisc.v — alignment display, display() (materialisation is invisible; rendering), DECSC/DECRC. *)
From Coq Require Import NArith List Bool Lia.
From MT Require Import Lib Types Charsets Tables Screen Spec Obs Stmt.
From MT.Proofs Require Import WF Aeq Loops View RefineSimple RefineErase RefineShift RefineScroll.
Import ListNotations.
Open Scope N_scope.

Section S.
Variable wid : cp -> N. Variable is_comb : cp -> bool. Variable nfc : str -> str.
Notation step := (step wid is_comb nfc).
Notation astep := (astep wid is_comb nfc).
Ltac aeq_fields := constructor; try reflexivity; try apply seteq_refl.

(* ---------------- DECALN ---------------- *)
Definition align_line (d : cell) (cols : N) (line : row) : row := fold_left (align_cell d) (range 0 cols) line.
Lemma align_line_get d cols line c :
  NMap.get c (align_line d cols line) =
  if c <? cols then Some (with_data (rowv d line c) [69]) else NMap.get c line.
Proof.
  unfold align_line, range, align_cell.
  rewrite (map_range_get (fun o => with_data (match o with Some x => x | None => d end) [69])).
  unfold rowv. bdestruct; cbn; try reflexivity; lia.
Qed.
Lemma align_buffer_get s r :
  NMap.get r (buffer (alignment_display s)) =
  if r <? lines s then Some (align_line (default_char s) (columns s) (orow (NMap.get r (buffer s)))) else NMap.get r (buffer s).
Proof.
  unfold alignment_display. cbn [buffer set_buffer add_dirty_range set_dirty lines columns]. unfold align_row, range.
  change (default_char (set_dirty s _)) with (default_char s).
  rewrite (map_range_get (fun o => align_line (default_char s) (columns s) (orow o))).
  bdestruct; cbn; try reflexivity; lia.
Qed.
Lemma ref_align s : WF s -> Aeq (abs (step s OAlign)) (astep (abs s) OAlign).
Proof.
  intros W. cbn [step astep]. aeq_fields. intros r c Hr Hc. cbn [abs a_grid a_lines a_cols] in *.
  change (lines (alignment_display s)) with (lines s) in Hr. change (columns (alignment_display s)) with (columns s) in Hc.
  rewrite cellv_rowv, align_buffer_get. change (default_char (alignment_display s)) with (default_char s).
  destruct (N.ltb_spec r (lines s)); [|lia]. cbn [orow]. unfold rowv at 1. rewrite align_line_get.
  destruct (N.ltb_spec c (columns s)); [|lia]. unfold a_decaln. cbn [a_grid a_with_grid abs]. rewrite cellv_rowv. reflexivity.
Qed.
Lemma WF_align s : WF s -> WF (step s OAlign).
Proof.
  intros W. cbn [step]. apply (WF_new_rows s); try reflexivity; auto.
  - unfold alignment_display. cbn. apply nmem_nunion_range_lt; [lia|apply (wf_dirty s W)].
  - intros r line. rewrite align_buffer_get. destruct (N.ltb_spec r (lines s)).
    + intros E. inversion E; subst. split; [assumption|]. intros c x. rewrite align_line_get.
      destruct (N.ltb_spec c (columns s)); [intros _; assumption|apply orow_keys; exact W].
    + intros E. split; [apply (wf_rows s W _ _ E)|]. intros c x. apply (wf_cells s W _ _ c x E).
Qed.

(* ---------------- display() ---------------- *)
(* the loop of `render` over one row: the row may gain materialised default cells, its view does not change,
   and the text is the documented rendering of the row's cells *)
Definition Rr (skip : bool) (cs : list cell) : str :=
  if skip then match cs with [] => [] | _ :: r => render_cells wid r end else render_cells wid cs.
Lemma render_fold d line0 : forall xs l res skip,
  (forall c, rowv d l c = rowv d line0 c) ->
  let R := fold_left (render_step wid d) xs (l, res, skip) in
  (forall c, rowv d (fst (fst R)) c = rowv d line0 c) /\
  (forall c x, NMap.get c (fst (fst R)) = Some x -> NMap.get c l = Some x \/ In c xs) /\
  snd (fst R) = res ++ Rr skip (map (rowv d line0) xs).
Proof.
  induction xs as [|x xs IH]; intros l res skip I.
  - cbn. split; [exact I|]. split; [auto|]. destruct skip; cbn; rewrite app_nil_r; reflexivity.
  - cbv zeta. cbn [fold_left map].
    destruct skip.
    + change (render_step wid d (l, res, true) x) with (l, res, false).
      specialize (IH l res false I). cbv zeta in IH. destruct IH as [I1 [I2 I3]]. split; [exact I1|]. split; [|exact I3].
      intros c y Hc. destruct (I2 c y Hc); [left; assumption|right; right; assumption].
    + set (l1 := match NMap.get x l with Some _ => l | None => NMap.set x d l end).
      assert (I' : forall c, rowv d l1 c = rowv d line0 c).
      { intros c. rewrite <- I. unfold l1, rowv. destruct (NMap.get x l) eqn:E; [reflexivity|].
        rewrite NMap.get_set. destruct (N.eqb_spec c x); [subst; rewrite E; reflexivity|reflexivity]. }
      assert (D : match NMap.get x l1 with Some c => c_data c | None => [] end = c_data (rowv d line0 x)).
      { rewrite <- I'. unfold rowv. unfold l1. destruct (NMap.get x l) eqn:E; [rewrite E; reflexivity|].
        rewrite NMap.get_set, N.eqb_refl. reflexivity. }
      set (dd := c_data (rowv d line0 x)) in *.
      assert (E : render_step wid d (l, res, false) x = (l1, res ++ dd, is_wide wid dd)).
      { unfold render_step. fold l1. rewrite D. reflexivity. }
      rewrite E.
      specialize (IH l1 (res ++ dd) (is_wide wid dd) I'). cbv zeta in IH.
      destruct IH as [I1 [I2 I3]]. split; [exact I1|]. split.
      * intros c y Hc. destruct (I2 c y Hc) as [H|H]; [|right; right; exact H].
        unfold l1 in H. destruct (NMap.get x l) eqn:Eg; [left; exact H|].
        rewrite NMap.get_set in H. destruct (N.eqb_spec c x); [right; left; symmetry; assumption|left; exact H].
      * etransitivity; [exact I3|]. rewrite <- app_assoc. f_equal.
        all: try (unfold Rr; cbn [render_cells]; unfold cell_wide, is_wide; fold dd; destruct dd as [|ch rest]; [reflexivity|]; destruct (wid ch =? 2); reflexivity).
Qed.
Lemma render_line_fst d cols line : fst (render_line wid d cols line) = fst (fst (fold_left (render_step wid d) (range 0 cols) (line, [], false))).
Proof. unfold render_line. destruct (fold_left (render_step wid d) (range 0 cols) (line, [], false)) as [[l r] k]. reflexivity. Qed.
Lemma render_line_snd d cols line : snd (render_line wid d cols line) = snd (fst (fold_left (render_step wid d) (range 0 cols) (line, [], false))).
Proof. unfold render_line. destruct (fold_left (render_step wid d) (range 0 cols) (line, [], false)) as [[l r] k]. reflexivity. Qed.
Lemma render_line_spec d cols line :
  (forall c, rowv d (fst (render_line wid d cols line)) c = rowv d line c) /\
  (forall c x, NMap.get c (fst (render_line wid d cols line)) = Some x -> NMap.get c line = Some x \/ c < cols) /\
  snd (render_line wid d cols line) = render_cells wid (map (rowv d line) (range 0 cols)).
Proof.
  rewrite render_line_fst, render_line_snd.
  pose proof (render_fold d line (range 0 cols) line [] false (fun c => eq_refl)) as G. cbv zeta in G.
  destruct G as [G1 [G2 G3]]. split; [exact G1|]. split; [|exact G3].
  intros c x H. destruct (G2 c x H) as [H'|H']; [left; exact H'|right; apply in_range in H'; lia].
Qed.
Lemma display_step_eq d cols buf out y :
  display_step wid d cols (buf, out) y =
  (NMap.set y (fst (render_line wid d cols (orow (NMap.get y buf)))) buf, out ++ [snd (render_line wid d cols (orow (NMap.get y buf)))]).
Proof. unfold display_step. destruct (render_line wid d cols (orow (NMap.get y buf))) as [l r]. reflexivity. Qed.
(* rows loop *)
Lemma display_fold d cols buf0 : forall ys buf out,
  (forall r c, rowv d (orow (NMap.get r buf)) c = rowv d (orow (NMap.get r buf0)) c) ->
  let R := fold_left (display_step wid d cols) ys (buf, out) in
  (forall r c, rowv d (orow (NMap.get r (fst R))) c = rowv d (orow (NMap.get r buf0)) c) /\
  (forall r line, NMap.get r (fst R) = Some line ->
     (In r ys \/ NMap.get r buf <> None) /\
     forall c x, NMap.get c line = Some x -> NMap.get c (orow (NMap.get r buf)) = Some x \/ c < cols) /\
  snd R = out ++ map (fun r => render_cells wid (map (rowv d (orow (NMap.get r buf0))) (range 0 cols))) ys.
Proof.
  induction ys as [|y ys IH]; intros buf out I.
  - cbv zeta. cbn [fold_left fst snd map]. split; [exact I|]. split; [|rewrite app_nil_r; reflexivity].
    intros r line H. split; [right; rewrite H; discriminate|]. intros c x Hc. left. rewrite H. exact Hc.
  - cbv zeta. cbn [fold_left map]. rewrite display_step_eq.
    destruct (render_line_spec d cols (orow (NMap.get y buf))) as [R1 [R2 R3]].
    set (line' := fst (render_line wid d cols (orow (NMap.get y buf)))) in *.
    set (rr := snd (render_line wid d cols (orow (NMap.get y buf)))) in *.
    set (buf1 := NMap.set y line' buf).
    assert (I' : forall r0 c, rowv d (orow (NMap.get r0 buf1)) c = rowv d (orow (NMap.get r0 buf0)) c).
    { intros r0 c. unfold buf1. rewrite NMap.get_set. destruct (N.eqb_spec r0 y); [subst; cbn [orow]; rewrite R1; apply I|apply I]. }
    specialize (IH buf1 (out ++ [rr]) I'). cbv zeta in IH.
    destruct IH as [J1 [J2 J3]]. split; [exact J1|]. split.
    + intros r0 line H. destruct (J2 r0 line H) as [K1 K2]. unfold buf1 in K1, K2. rewrite NMap.get_set in K1, K2.
      destruct (N.eqb_spec r0 y).
      * subst. split; [left; left; reflexivity|]. intros c x Hc. cbn [orow] in K2. destruct (K2 c x Hc) as [K|K]; [apply R2; exact K|right; exact K].
      * split; [destruct K1 as [K1|K1]; [left; right; exact K1|right; exact K1]|exact K2].
    + etransitivity; [exact J3|]. rewrite <- app_assoc. cbn [app]. f_equal.
      assert (X : rr = render_cells wid (map (rowv d (orow (NMap.get y buf0))) (range 0 cols))).
      { etransitivity; [exact R3|]. f_equal. apply map_ext. intros c. apply I. }
      rewrite X. reflexivity.
Qed.
Lemma display_spec s : WF s ->
  Aeq (abs (fst (display wid s))) (abs s) /\ WF (fst (display wid s)) /\ snd (display wid s) = a_display wid (abs s).
Proof.
  intros W.
  assert (F1 : fst (display wid s) = set_buffer s (fst (fold_left (display_step wid (default_char s) (columns s)) (range 0 (lines s)) (buffer s, [])))).
  { unfold display. destruct (fold_left (display_step wid (default_char s) (columns s)) (range 0 (lines s)) (buffer s, [])) as [b o]. reflexivity. }
  assert (F2 : snd (display wid s) = snd (fold_left (display_step wid (default_char s) (columns s)) (range 0 (lines s)) (buffer s, []))).
  { unfold display. destruct (fold_left (display_step wid (default_char s) (columns s)) (range 0 (lines s)) (buffer s, [])) as [b o]. reflexivity. }
  rewrite F1, F2.
  pose proof (display_fold (default_char s) (columns s) (buffer s) (range 0 (lines s)) (buffer s) [] (fun r c => eq_refl)) as G. cbv zeta in G.
  destruct G as [G1 [G2 G3]].
  set (buf' := fst (fold_left (display_step wid (default_char s) (columns s)) (range 0 (lines s)) (buffer s, []))) in *.
  split; [|split].
  - constructor; try reflexivity; try apply seteq_refl. intros r c Hr Hc. cbn [abs a_grid].
    rewrite !cellv_rowv. change (default_char (set_buffer s buf')) with (default_char s). apply G1.
  - apply (WF_new_rows s); try reflexivity; auto.
    + apply (wf_dirty s W).
    + intros r line H. cbn [buffer set_buffer] in H. destruct (G2 r line H) as [K1 K2]. split.
      * destruct K1 as [K1|K1]; [apply in_range in K1; lia|].
        destruct (NMap.get r (buffer s)) as [ln|] eqn:E; [apply (wf_rows s W _ _ E)|contradiction].
      * intros c x Hc. destruct (K2 c x Hc) as [K|K]; [apply (orow_keys s r c x W K)|exact K].
  - etransitivity; [exact G3|]. cbn [app]. unfold a_display. cbn [abs a_lines a_cols a_grid]. apply map_ext. intros r.
    f_equal. apply map_ext. intros c. rewrite cellv_rowv. reflexivity.
Qed.
Lemma ref_display s : WF s -> Aeq (abs (step s ODisplay)) (astep (abs s) ODisplay).
Proof. intros W. cbn [step astep]. apply (display_spec s W). Qed.
Lemma WF_display s : WF s -> WF (step s ODisplay).
Proof. intros W. cbn [step]. apply (display_spec s W). Qed.
End S.
