(* Proofs/WF.v — the well-formedness invariant of the sparse model (Prop form) and basic facts. *)
From Coq Require Import NArith List Bool Lia.
From MT Require Import Lib Types Charsets Tables Screen Spec Obs Stmt.
Import ListNotations.
Open Scope N_scope.

Definition margins_wf (s : screen) : Prop :=
  match margins s with None => True | Some (t, b) => t < b /\ b <= lines s - 1 end.
(* the geometric part of C09 plus "nothing is stored outside the visible grid" *)
Record WF (s : screen) : Prop := mkWF {
  wf_cols : 1 <= columns s;
  wf_lines : 1 <= lines s;
  wf_y : cy s < lines s;
  wf_x : cx s <= columns s;
  wf_margins : margins_wf s;
  wf_dirty : forall y, nmem y (dirty s) = true -> y < lines s;
  wf_rows : forall r line, NMap.get r (buffer s) = Some line -> r < lines s;
  wf_cells : forall r line c x, NMap.get r (buffer s) = Some line -> NMap.get c line = Some x -> c < columns s }.

Lemma margins_or_full_wf s t b : WF s -> margins_or_full s = (t, b) -> t <= b /\ b <= lines s - 1.
Proof.
  intros W. unfold margins_or_full. pose proof (wf_margins s W) as M. unfold margins_wf in M.
  destruct (margins s) as [[t' b']|]; intros E; inversion E; subst.
  - lia.
  - pose proof (wf_lines s W). lia.
Qed.
