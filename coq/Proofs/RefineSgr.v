(* Proofs/RefineSgr.v — SGR: the pop-loop over the table-driven `replace` map of the model computes the
   left-to-right fold of the documented table (Spec.sgr_spec), for every parameter list. *)
From Coq Require Import NArith List Bool Lia.
From MT Require Import Lib Types Charsets Tables Screen Spec Obs Stmt.
From MT.Proofs Require Import WF Aeq.
Import ListNotations.
Open Scope N_scope.

(* one non-extended code: by exhaustive case analysis on the binary representation of the code *)
Lemma sgr_one_simple p : p <> 38 -> p <> 48 -> forall d r rest a,
  snd (sgr_one d r p rest) = rest /\ apply_repl a (fst (sgr_one d r p rest)) = sgr_simple d (apply_repl a r) p.
Proof.
  intros H38 H48 [d1 d2 d3 d4 d5 d6 d7 d8 d9] [r1 r2 r3 r4 r5 r6 r7 r8 r9] rest [a1 a2 a3 a4 a5 a6 a7 a8 a9].
  destruct p as [|p]; [vm_compute; split; reflexivity|].
  do 8 (try destruct p as [p|p|]); try (exfalso; apply H38; reflexivity); try (exfalso; apply H48; reflexivity);
    vm_compute; split; reflexivity.
Qed.

Lemma leb255 x : (x <=? 255) = (x <? 256).
Proof. destruct (N.leb_spec x 255), (N.ltb_spec x 256); try reflexivity; lia. Qed.

Lemma apply_repl_fg a r v : apply_repl a (repl_fg r v) = set_fg (apply_repl a r) v.
Proof. destruct a, r; reflexivity. Qed.
Lemma apply_repl_bg a r v : apply_repl a (repl_bg r v) = set_bg (apply_repl a r) v.
Proof. destruct a, r; reflexivity. Qed.

Lemma sgr_loop_nil fuel d r : sgr_loop fuel d r [] = r.
Proof. destruct fuel; reflexivity. Qed.
Lemma sgr_loop_spec d : forall fuel l r a, (length l <= fuel)%nat ->
  apply_repl a (sgr_loop fuel d r l) = sgr_spec d (apply_repl a r) l.
Proof.
  induction fuel as [|fuel IH]; intros l r a Hl.
  - destruct l; [reflexivity|cbn in Hl; lia].
  - destruct l as [|p rest]; [reflexivity|]. cbn [length] in Hl.
    cbn [sgr_loop sgr_spec].
    destruct (N.eq_dec p 38) as [E38|N38]; [|destruct (N.eq_dec p 48) as [E48|N48]].
    3:{ (* ordinary code *)
      destruct (sgr_one_simple p N38 N48 d r rest a) as [S1 S2].
      destruct (sgr_one d r p rest) as [r' rest'] eqn:E. cbn [fst snd] in S1, S2. subst rest'.
      assert (X : (p =? 38) || (p =? 48) = false).
      { apply orb_false_iff. split; apply N.eqb_neq; assumption. }
      rewrite X. rewrite IH by lia. rewrite S2. reflexivity. }
    all: subst p; unfold sgr_one; cbn [assoc fg_ansi bg_ansi]; 
      change (assoc 38 fg_ansi) with (@None str); change (assoc 38 bg_ansi) with (@None str);
      change (assoc 48 fg_ansi) with (@None str); change (assoc 48 bg_ansi) with (@None str);
      vm_compute (assoc _ text_table); vm_compute (assoc _ fg_aixterm); vm_compute (assoc _ bg_aixterm);
      vm_compute (_ =? 0); vm_compute (38 =? FG_256); vm_compute (38 =? BG_256); vm_compute (48 =? FG_256); vm_compute (48 =? BG_256);
      vm_compute (38 =? 38); vm_compute (48 =? 38); vm_compute (48 =? 48); cbn [orb];
      (destruct rest as [|n rest1]; [rewrite ?sgr_loop_nil; reflexivity|]);
      (destruct (n =? 5); [destruct rest1 as [|m rest2]; [rewrite ?sgr_loop_nil; reflexivity|];
                           change palette_size with 256; destruct (m <? 256); rewrite IH by (cbn [length] in Hl; lia);
                           rewrite ?apply_repl_fg, ?apply_repl_bg; reflexivity|]);
      (destruct (n =? 2); [|rewrite IH by (cbn [length] in Hl; lia); reflexivity]);
      (destruct rest1 as [|rr [|gg [|bb rest2]]]; try (rewrite ?sgr_loop_nil; reflexivity));
      rewrite !leb255; destruct ((rr <? 256) && (gg <? 256) && (bb <? 256)); rewrite IH by (cbn [length] in Hl; lia);
      rewrite ?apply_repl_fg, ?apply_repl_bg; reflexivity.
Qed.

Section S.
Variable wid : cp -> N. Variable is_comb : cp -> bool. Variable nfc : str -> str.
Notation step := (step wid is_comb nfc).
Notation astep := (astep wid is_comb nfc).

Lemma apply_repl_empty a : apply_repl a repl_empty = a. Proof. destruct a; reflexivity. Qed.
Lemma sgr_attr s ps :
  cu_attr (cur (select_graphic_rendition s ps)) =
  match ps with [] => default_char s | _ => sgr_spec (default_char s) (cu_attr (cur s)) ps end.
Proof.
  unfold select_graphic_rendition. destruct ps as [|p [|q rest]].
  - reflexivity.
  - destruct (N.eqb_spec p 0).
    + subst. reflexivity.
    + cbn [set_attr set_cur cur cu_attr]. rewrite sgr_loop_spec by (cbn; lia). rewrite apply_repl_empty. reflexivity.
  - cbn [set_attr set_cur cur cu_attr]. rewrite sgr_loop_spec by lia. rewrite apply_repl_empty. reflexivity.
Qed.
Lemma sgr_closed s ps : select_graphic_rendition s ps =
  set_attr s (match ps with [] => default_char s | _ => sgr_spec (default_char s) (cu_attr (cur s)) ps end).
Proof.
  rewrite <- sgr_attr. unfold select_graphic_rendition.
  destruct ps as [|p [|q rest]]; [reflexivity| |reflexivity]. destruct (p =? 0); reflexivity.
Qed.
Lemma ref_sgr s ps : abs (step s (OSgr ps)) = astep (abs s) (OSgr ps).
Proof. cbn [step astep]. rewrite sgr_closed. reflexivity. Qed.
End S.
