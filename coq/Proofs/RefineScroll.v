(* Proofs/RefineScroll.v — index / reverse index / linefeed: the rebuilt row map equals the documented
   one-line scroll of the region; WF is kept. *)
From Coq Require Import NArith List Bool Lia.
From MT Require Import Lib Types Charsets Tables Screen Spec Obs Stmt.
From MT.Proofs Require Import WF Aeq Loops View RefineSimple RefineErase RefineShift.
Import ListNotations.
Open Scope N_scope.

Lemma existsb_add0 r l : existsb (fun y => y =? r) l = existsb (fun y => y + 0 =? r) l.
Proof. induction l as [|a l IH]; [reflexivity|]. cbn [existsb]. rewrite IH. replace (a + 0) with a by lia. reflexivity. Qed.
Lemma existsb_range_eq lo hi r : existsb (fun y => y =? r) (range lo hi) = (lo <=? r) && (r <? hi).
Proof.
  rewrite existsb_add0, existsb_range_off. bdestruct; cbn; try reflexivity; lia.
Qed.

Section S.
Variable wid : cp -> N. Variable is_comb : cp -> bool. Variable nfc : str -> str.
Notation step := (step wid is_comb nfc).
Notation astep := (astep wid is_comb nfc).

Definition index_rows (old : NMap.t row) (top bottom lns : N) : NMap.t row :=
  fold_left (copy_row old 0) (range (bottom + 1) lns)
    (NMap.set bottom NMap.empty
       (fold_left (fun nb y => NMap.set y (orow (NMap.get (y + 1) old)) nb) (range top bottom)
          (fold_left (copy_row old 0) (range 0 top) NMap.empty))).
Lemma index_rows_get old top bottom lns r : top <= bottom -> bottom < lns ->
  NMap.get r (index_rows old top bottom lns) =
  if lns <=? r then None
  else if (top <=? r) && (r <? bottom) then Some (orow (NMap.get (r + 1) old))
  else if r =? bottom then Some NMap.empty
  else Some (orow (NMap.get r old)).
Proof.
  intros H1 H2. unfold index_rows.
  rewrite copy_rows_get, existsb_range_off, NMap.get_set, pull_rows_get, existsb_range_eq, copy_rows_get, existsb_range_off.
  replace (r - 0) with r by lia. cbn [NMap.get NMap.empty].
  bdestruct; cbn; try reflexivity; lia.
Qed.
Definition rindex_rows (old : NMap.t row) (top bottom lns : N) : NMap.t row :=
  fold_left (copy_row old 0) (range (bottom + 1) lns)
    (NMap.set top NMap.empty
       (fold_left (copy_row old 1) (rev (range top bottom))
          (fold_left (copy_row old 0) (range 0 top) NMap.empty))).
Lemma rindex_rows_get old top bottom lns r : top <= bottom -> bottom < lns ->
  NMap.get r (rindex_rows old top bottom lns) =
  if lns <=? r then None
  else if (top <? r) && (r <=? bottom) then Some (orow (NMap.get (r - 1) old))
  else if r =? top then Some NMap.empty
  else Some (orow (NMap.get r old)).
Proof.
  intros H1 H2. unfold rindex_rows.
  rewrite copy_rows_get, existsb_range_off, NMap.get_set, copy_rows_get, existsb_rev, existsb_range_off, copy_rows_get, existsb_range_off.
  replace (r - 0) with r by lia. cbn [NMap.get NMap.empty].
  bdestruct; cbn; try reflexivity; lia.
Qed.

Lemma WF_new_rows s s' :
  WF s -> columns s' = columns s -> lines s' = lines s -> cur s' = cur s ->
  margins s' = margins s -> (forall q, nmem q (dirty s') = true -> q < lines s) ->
  (forall r line, NMap.get r (buffer s') = Some line ->
     r < lines s /\ (forall c x, NMap.get c line = Some x -> c < columns s)) ->
  WF s'.
Proof.
  intros W Hc Hl Hcu Hm Hd Hb. apply (WF_rows_update s); auto; rewrite ?Hcu; auto.
  apply (wf_x s W).
Qed.
Lemma orow_cells s r line : WF s -> orow (NMap.get r (buffer s)) = line -> forall c x, NMap.get c line = Some x -> c < columns s.
Proof. intros W E c x. subst line. apply orow_keys. exact W. Qed.

Ltac aeq_fields := constructor; try reflexivity; try apply seteq_refl.

Lemma ref_index_gen s : WF s -> Aeq (abs (index s)) (a_index (abs s)).
Proof.
  intros W. unfold index, a_index, atb, margins_or_full.
  change (a_margins (abs s)) with (margins s). change (a_lines (abs s)) with (lines s). change (ay (abs s)) with (cy s).
  pose proof (margins_or_full_wf s) as MW. unfold margins_or_full in MW.
  destruct (match margins s with Some m => m | None => (0, lines s - 1) end) as [top bottom].
  specialize (MW top bottom W eq_refl). destruct MW as [M1 M2]. pose proof (wf_lines s W) as HL.
  destruct (cy s =? bottom); [|apply Aeq_of_eq; apply (ref_cud wid is_comb nfc s None)].
  aeq_fields. intros r c Hr Hc. cbn [abs a_grid] in *.
  rewrite cellv_rowv. snorm. change (default_char _) with (default_char s). change (adc (abs s)) with (default_char s).
  fold (index_rows (buffer s) top bottom (lines s)). rewrite index_rows_get by lia.
  destruct (N.leb_spec (lines s) r); [lia|].
  destruct ((top <=? r) && (r <? bottom)); [rewrite cellv_rowv; reflexivity|].
  destruct (r =? bottom); [reflexivity|rewrite cellv_rowv; reflexivity].
Qed.
Lemma WF_index_gen s : WF s -> WF (index s).
Proof.
  intros W. unfold index, margins_or_full.
  pose proof (margins_or_full_wf s) as MW. unfold margins_or_full in MW.
  destruct (match margins s with Some m => m | None => (0, lines s - 1) end) as [top bottom] eqn:EM.
  specialize (MW top bottom W eq_refl). destruct MW as [M1 M2]. pose proof (wf_lines s W) as HL.
  destruct (cy s =? bottom).
  - apply (WF_new_rows s); try reflexivity; auto.
    + cbn. apply nmem_nunion_range_lt; [lia|apply (wf_dirty s W)].
    + intros r line. snorm. fold (index_rows (buffer s) top bottom (lines s)). rewrite index_rows_get by lia.
      destruct (N.leb_spec (lines s) r); [discriminate|].
      destruct ((top <=? r) && (r <? bottom)); [|destruct (r =? bottom)]; intros E; inversion E; subst; split; try assumption;
        try (eapply orow_cells; [exact W|reflexivity]); intros c x; cbn; discriminate.
  - (* cursor_down *)
    destruct W as [w1 w2 w3 w4 w5 w6 w7 w8]. unfold cursor_down. constructor; auto.
    unfold cy, set_y; cbn. unfold margins_wf in w5. unfold cy in *.
    destruct (margins s) as [[t b]|]; lia.
Qed.
Lemma ref_index s : WF s -> Aeq (abs (step s OIndex)) (astep (abs s) OIndex).
Proof. apply ref_index_gen. Qed.

Lemma ref_rindex s : WF s -> Aeq (abs (step s ORevIndex)) (astep (abs s) ORevIndex).
Proof.
  intros W. cbn [step astep]. unfold reverse_index, a_rindex, atb, margins_or_full.
  change (a_margins (abs s)) with (margins s). change (a_lines (abs s)) with (lines s). change (ay (abs s)) with (cy s).
  pose proof (margins_or_full_wf s) as MW. unfold margins_or_full in MW.
  destruct (match margins s with Some m => m | None => (0, lines s - 1) end) as [top bottom].
  specialize (MW top bottom W eq_refl). destruct MW as [M1 M2]. pose proof (wf_lines s W) as HL.
  destruct (cy s =? top); [|apply Aeq_of_eq; apply (ref_cuu wid is_comb nfc s None)].
  aeq_fields. intros r c Hr Hc. cbn [abs a_grid] in *.
  rewrite cellv_rowv. snorm. change (default_char _) with (default_char s). change (adc (abs s)) with (default_char s).
  fold (rindex_rows (buffer s) top bottom (lines s)). rewrite rindex_rows_get by lia.
  destruct (N.leb_spec (lines s) r); [lia|].
  destruct ((top <? r) && (r <=? bottom)); [rewrite cellv_rowv; reflexivity|].
  destruct (r =? top); [reflexivity|rewrite cellv_rowv; reflexivity].
Qed.
Lemma WF_rindex s : WF s -> WF (step s ORevIndex).
Proof.
  intros W. cbn [step]. unfold reverse_index, margins_or_full.
  pose proof (margins_or_full_wf s) as MW. unfold margins_or_full in MW.
  destruct (match margins s with Some m => m | None => (0, lines s - 1) end) as [top bottom] eqn:EM.
  specialize (MW top bottom W eq_refl). destruct MW as [M1 M2]. pose proof (wf_lines s W) as HL.
  destruct (cy s =? top).
  - apply (WF_new_rows s); try reflexivity; auto.
    + cbn. apply nmem_nunion_range_lt; [lia|apply (wf_dirty s W)].
    + intros r line. snorm. fold (rindex_rows (buffer s) top bottom (lines s)). rewrite rindex_rows_get by lia.
      destruct (N.leb_spec (lines s) r); [discriminate|].
      destruct ((top <? r) && (r <=? bottom)); [|destruct (r =? top)]; intros E; inversion E; subst; split; try assumption;
        try (eapply orow_cells; [exact W|reflexivity]); intros c x; cbn; discriminate.
  - destruct W as [w1 w2 w3 w4 w5 w6 w7 w8]. unfold cursor_up. constructor; auto.
    unfold cy, set_y; cbn. unfold margins_wf in w5. unfold cy in *.
    destruct (margins s) as [[t b]|]; lia.
Qed.

Lemma index_mode s : mode (index s) = mode s.
Proof.
  unfold index. destruct (margins_or_full s) as [t b]. destruct (cy s =? b); reflexivity.
Qed.
Lemma ref_linefeed_gen s : WF s -> Aeq (abs (linefeed s)) (a_linefeed (abs s)).
Proof.
  intros W. unfold linefeed, a_linefeed.
  pose proof (ref_index_gen s W) as G.
  assert (E : has_mode (index s) LNM = amode (a_index (abs s)) LNM).
  { unfold has_mode, amode. pose proof (q_mode _ _ G LNM) as Q. cbn [abs a_mode] in Q. exact Q. }
  rewrite E. destruct (amode (a_index (abs s)) LNM); [|exact G].
  destruct G as [q1 q2 q3 q4 q5 q6 q7 q8 q9 q10 q11 q12 q13 q14 q15].
  constructor; try assumption. unfold carriage_return, a_cr. snorm. cbn [a_cur] in q4. rewrite <- q4. reflexivity.
Qed.
Lemma WF_cr s : WF s -> WF (carriage_return s).
Proof. intros [w1 w2 w3 w4 w5 w6 w7 w8]. constructor; auto. cbn. lia. Qed.
Lemma WF_linefeed_gen s : WF s -> WF (linefeed s).
Proof. intros W. unfold linefeed. destruct (has_mode (index s) LNM); [apply WF_cr|]; apply WF_index_gen; exact W. Qed.
Lemma ref_linefeed s : WF s -> Aeq (abs (step s OLinefeed)) (astep (abs s) OLinefeed).
Proof. apply ref_linefeed_gen. Qed.
End S.
