(* Proofs/RefineRestore.v — DECRC (restore_cursor), via the mode helpers it shares with SM/RM. *)
From Coq Require Import NArith List Bool Lia.
From MT Require Import Lib Types Charsets Tables Screen Spec Obs Stmt.
From MT.Proofs Require Import WF Aeq Loops View RefineSimple P05.
Import ListNotations.
Open Scope N_scope.

Section S.
Variable wid : cp -> N. Variable is_comb : cp -> bool. Variable nfc : str -> str.
Notation step := (step wid is_comb nfc).
Notation astep := (astep wid is_comb nfc).

(* cursor_position changes nothing but the cursor *)
Lemma cup_frame s l c : exists cu, cursor_position s l c = set_cur s cu.
Proof.
  unfold cursor_position.
  assert (G : forall col line, exists cu, ensure_vbounds (ensure_hbounds (set_y (set_x s col) line)) false = set_cur s cu).
  { intros col line. unfold ensure_vbounds, ensure_hbounds, set_y, set_x, set_cur, cx, cy, has_mode.
    cbn [margins mode cur cu_x cu_y cu_attr cu_hidden columns lines].
    destruct (margins s) as [[t b]|]; [destruct (false || nmem DECOM (mode s))|]; eexists; reflexivity. }
  assert (Id : exists cu, s = set_cur s cu) by (exists (cur s); destruct s; reflexivity).
  destruct (margins s) as [[t b]|]; [|apply G].
  destruct (has_mode s DECOM); [|apply G].
  destruct ((_ <? t) || (b <? _)); [exact Id|apply G].
Qed.
Lemma WF_set_cur s cu : WF s -> cu_y cu < lines s -> cu_x cu <= columns s -> WF (set_cur s cu).
Proof. intros [w1 w2 w3 w4 w5 w6 w7 w8] Hy Hx. constructor; auto. Qed.
Lemma WF_set_mode_f s m : WF s -> WF (set_mode_f s m).
Proof. intros [w1 w2 w3 w4 w5 w6 w7 w8]. constructor; auto. Qed.
Lemma WF_cup s l c : WF s -> WF (cursor_position s l c).
Proof.
  intros W. destruct (c05_pos_bounds wid is_comb nfc (abs s) (OCup l c) (AWF_abs s W) eq_refl) as [B1 B2].
  cbn [astep] in B1, B2. rewrite <- abs_cup in B1, B2.
  destruct (cup_frame s l c) as [cu E]. rewrite E in *. apply WF_set_cur; [exact W|exact B1|exact B2].
Qed.

Lemma cup_closed s l c : cursor_position s l c = set_cur s (a_cur (a_cup (abs s) l c)).
Proof.
  destruct (cup_frame s l c) as [cu E]. rewrite E. f_equal.
  pose proof (abs_cup s l c) as A. rewrite E in A. rewrite <- A. reflexivity.
Qed.
(* homing: CUP with no parameters *)
Definition home_row (a : astate) : N :=
  match a_margins a with Some (t, _) => if amode a DECOM then t else 0 | None => 0 end.
Lemma a_home a : AWF a -> a_cup a None None = a_xy a 0 (home_row a).
Proof.
  intros W. unfold a_cup, home_row. pose proof (aw_margins a W) as M. pose proof (aw_cols a W). pose proof (aw_lines a W).
  change (hat None) with 1.
  assert (X0 : N.min (1 - 1) (a_cols a - 1) = 0) by lia. rewrite X0.
  assert (G : forall line t' b', t' <= line <= b' -> a_y (a_xy a 0 line) (N.min (N.max line t') b') = a_xy a 0 line).
  { intros line t' b' Hl. replace (N.min (N.max line t') b') with line by lia. reflexivity. }
  assert (V : forall line, a_vclamp (a_xy a 0 line) false =
              a_y (a_xy a 0 line) (match a_margins a with
                                   | Some (t, b) => if amode a DECOM then N.min (N.max line t) b else N.min (N.max line 0) (a_lines a - 1)
                                   | None => N.min (N.max line 0) (a_lines a - 1) end)).
  { intros line. unfold a_vclamp. change (a_margins (a_xy a 0 line)) with (a_margins a).
    change (amode (a_xy a 0 line) DECOM) with (amode a DECOM). change (ay (a_xy a 0 line)) with line.
    change (a_lines (a_xy a 0 line)) with (a_lines a).
    destruct (a_margins a) as [[t b]|]; [destruct (amode a DECOM)|]; reflexivity. }
  destruct (a_margins a) as [[t b]|] eqn:EM.
  - destruct (amode a DECOM) eqn:ED.
    + destruct (N.ltb_spec b (1 - 1 + t)); [lia|]. replace (1 - 1 + t) with t by lia. rewrite V, ?EM, ?ED. apply (G t t b). lia.
    + rewrite V, ?EM, ?ED. apply (G (1 - 1) 0 (a_lines a - 1)). lia.
  - rewrite V, ?EM. apply (G (1 - 1) 0 (a_lines a - 1)). lia.
Qed.
Lemma home_model s : WF s -> cursor_position s None None = set_cur s (mkCursor 0 (home_row (abs s)) (cu_attr (cur s)) (cu_hidden (cur s))).
Proof. intros W. rewrite cup_closed, a_home by (apply AWF_abs; exact W). reflexivity. Qed.

Lemma nmem_scnm_nunion l m : nmem DECSCNM l = false -> nmem DECSCNM (nunion l m) = nmem DECSCNM m.
Proof. intros H. rewrite nmem_nunion, H. reflexivity. Qed.

(* closed forms of restore_cursor on the model (Leibniz) *)
Definition pop_modes (sp : savepoint) (m : list N) : list N :=
  nunion ((if sp_origin sp then [DECOM] else []) ++ (if sp_wrap sp then [DECAWM] else [])) m.
Definition vclamp_y (s : screen) (y : N) : N :=
  match margins s with Some (t, b) => N.min (N.max t y) b | None => N.min (N.max 0 y) (lines s - 1) end.
Lemma bounds_closed s u :
  ensure_vbounds (ensure_hbounds s) u =
  set_cur s (mkCursor (N.min (cx s) (columns s - 1))
                      (match margins s with
                       | Some (t, b) => if u || has_mode s DECOM then N.min (N.max t (cy s)) b else N.min (N.max 0 (cy s)) (lines s - 1)
                       | None => N.min (N.max 0 (cy s)) (lines s - 1) end)
                      (cu_attr (cur s)) (cu_hidden (cur s))).
Proof.
  destruct s as [sps c l di ma bu mo ti ic cs g0' g1' ts [x y at_ hd] sc].
  unfold ensure_vbounds, ensure_hbounds, set_y, set_x, set_cur, cx, cy, has_mode.
  cbn [margins cur cu_x cu_y cu_attr cu_hidden columns lines mode].
  destruct ma as [[t b]|]; [destruct (u || nmem DECOM mo)|]; f_equal; f_equal; lia.
Qed.
Lemma set_cur_twice s a b : set_cur (set_cur s a) b = set_cur s b. Proof. reflexivity. Qed.
Lemma restore_pop_closed s sp rest : savepoints s = sp :: rest ->
  restore_cursor s =
  set_cur (set_mode_f (set_charset (set_g1 (set_g0 (set_savepoints s rest) (sp_g0 sp)) (sp_g1 sp)) (sp_charset sp)) (pop_modes sp (mode s)))
          (mkCursor (N.min (cu_x (sp_cursor sp)) (columns s - 1)) (vclamp_y s (cu_y (sp_cursor sp)))
                    (cu_attr (sp_cursor sp)) (cu_hidden (sp_cursor sp))).
Proof.
  intros ES. unfold restore_cursor. rewrite ES.
  set (s2 := set_charset (set_g1 (set_g0 (set_savepoints s rest) (sp_g0 sp)) (sp_g1 sp)) (sp_charset sp)).
  assert (F : exists cu,
     (if sp_wrap sp then sm_post (sm_pre (if sp_origin sp then sm_post (sm_pre s2 [DECOM]) [DECOM] else s2) [DECAWM]) [DECAWM]
      else (if sp_origin sp then sm_post (sm_pre s2 [DECOM]) [DECOM] else s2))
     = set_cur (set_mode_f s2 (pop_modes sp (mode s))) cu).
  { unfold pop_modes. destruct (sp_origin sp).
    - change (sm_post (sm_pre s2 [DECOM]) [DECOM]) with (cursor_position (set_mode_f s2 (nunion [DECOM] (mode s2))) None None).
      destruct (cup_frame (set_mode_f s2 (nunion [DECOM] (mode s2))) None None) as [cu E]. rewrite E. exists cu.
      destruct (sp_wrap sp); reflexivity.
    - exists (cur s2). destruct (sp_wrap sp); reflexivity. }
  destruct F as [cu4 F]. rewrite F. clear F.
  rewrite bounds_closed, !set_cur_twice. reflexivity.
Qed.

Lemma ref_restore s : WF s -> Aeq (abs (step s ORestore)) (astep (abs s) ORestore).
Proof.
  intros W. cbn [step astep]. unfold restore_cursor, a_restore. cbn [abs a_sp].
  destruct (savepoints s) as [|sp rest] eqn:ES.
  - (* empty stack: clear DECOM, home *)
    change (a_mode (abs s)) with (mode s).
    assert (E1 : rm_pre s [DECOM] = set_mode_f s (ndiff (mode s) [DECOM])) by reflexivity.
    assert (E2 : forall s', rm_post s' [DECOM] = cursor_position s' None None) by reflexivity.
    rewrite E1, E2.
    set (s1 := set_mode_f s (ndiff (mode s) [DECOM])).
    assert (W1 : WF s1) by (apply WF_set_mode_f; exact W).
    rewrite (home_model s1 W1).
    set (s2 := set_cur s1 _).
    assert (W2 : WF s2).
    { apply WF_set_cur; [exact W1| |cbn; lia]. cbn [cu_y]. unfold home_row. cbn [abs a_margins s1 set_mode_f margins lines].
      pose proof (wf_margins s W) as M. unfold margins_wf in M. pose proof (wf_lines s W).
      destruct (margins s) as [[t b]|]; [destruct (amode _ DECOM)|]; lia. }
    rewrite (home_model s2 W2).
    assert (HR : home_row (abs s2) = 0 /\ home_row (a_with_mode (abs s) (nrem DECOM (mode s))) = 0).
    { unfold home_row, amode. cbn [abs a_margins a_mode s2 s1 set_cur set_mode_f margins mode a_with_mode].
      rewrite nmem_ndiff, nmem_nrem. change (nmem DECOM [DECOM]) with true. rewrite N.eqb_refl. cbn [negb andb]. rewrite andb_false_r.
      destruct (margins s) as [[t b]|]; split; reflexivity. }
    destruct HR as [HR1 HR2].
    assert (AW : AWF (a_with_mode (abs s) (nrem DECOM (mode s)))).
    { pose proof (AWF_abs s W) as [a1 a2 a3 a4 a5]. constructor; assumption. }
    rewrite (a_home _ AW), HR1, HR2.
    assert (HR0 : home_row (abs s1) = 0).
    { unfold home_row, amode. cbn [abs a_margins a_mode s1 set_mode_f margins mode].
      rewrite nmem_ndiff. change (nmem DECOM [DECOM]) with true. rewrite andb_false_r. destruct (margins s) as [[t b]|]; reflexivity. }
    constructor; try reflexivity; try apply seteq_refl.
    + intros r c Hr Hc. cbn [abs a_grid a_xy a_with_cur a_with_mode]. rewrite !cellv_rowv.
      assert (D : default_char (set_cur s2 (mkCursor 0 0 (cu_attr (cur s2)) (cu_hidden (cur s2)))) = default_char s).
      { apply default_char_mode. cbn [mode set_cur s2 s1 set_mode_f]. rewrite nmem_ndiff. change (nmem DECSCNM [DECOM]) with false. cbn [negb]. apply andb_true_r. }
      rewrite D. reflexivity.
    + intros x. cbn [abs a_mode a_xy a_with_cur a_with_mode mode set_cur s2 s1 set_mode_f].
      rewrite nmem_ndiff, nmem_nrem. cbn. rewrite orb_false_r. apply andb_comm.
  - (* pop *)
    change (match savepoints s with [] => _ | sp0 :: rest0 => _ end) with (restore_cursor s) || idtac.
    assert (R : restore_cursor s = _) by (apply (restore_pop_closed s sp rest ES)).
    unfold restore_cursor in R. rewrite ES in R. rewrite R. clear R.
    pose proof (wf_cols s W). pose proof (wf_lines s W).
    match goal with |- Aeq _ ?R =>
      assert (A : R = a_with_cur (a_with_mode (a_with_cs (a_with_sp (abs s) rest) (sp_charset sp) (sp_g0 sp) (sp_g1 sp)) (pop_modes sp (mode s)))
                   (mkCursor (N.min (cu_x (sp_cursor sp)) (columns s - 1)) (vclamp_y s (cu_y (sp_cursor sp)))
                             (cu_attr (sp_cursor sp)) (cu_hidden (sp_cursor sp))))
    end.
    { unfold a_vclamp, vclamp_y, pop_modes. cbn [a_margins a_with_cur a_with_mode a_with_cs a_with_sp abs orb].
      destruct (margins s) as [[t b]|]; unfold a_y, a_xy, a_with_cur, ax, ay, aattr;
        cbn [a_cur cu_x cu_y cu_attr cu_hidden a_cols a_lines a_with_mode a_with_cs a_with_sp abs]; f_equal; f_equal; lia. }
    rewrite A. clear A.
    constructor; try reflexivity; try apply seteq_refl.
    intros r c Hr Hc. cbn [abs a_grid a_with_cur a_with_mode a_with_cs a_with_sp]. rewrite !cellv_rowv.
    match goal with |- rowv (default_char ?FF) _ _ = _ => assert (D : default_char FF = default_char s) end.
    { apply default_char_mode. cbn [mode set_cur set_mode_f]. unfold pop_modes. apply nmem_scnm_nunion. destruct (sp_origin sp), (sp_wrap sp); reflexivity. }
    rewrite D. reflexivity.
Qed.
End S.
