(* Proofs/P05.v — C05: cursor movement and addressing. *)
From Coq Require Import NArith List Bool Lia.
From MT Require Import Lib Types Charsets Tables Screen Spec Obs Stmt.
From MT.Proofs Require Import WF Aeq RefineSimple.
Import ListNotations.
Open Scope N_scope.

Definition is_move (o : op) : bool :=
  match o with
  | OCuu _ | OCud _ | OCuf _ | OCub _ | OCnl _ | OCpl _ | OCha _ | OVpa _ | OCup _ _ | OBackspace | OCR => true
  | _ => false
  end.
Definition top_m (a : astate) : N := match a_margins a with Some (t, _) => t | None => 0 end.
Definition bot_m (a : astate) : N := match a_margins a with Some (_, b) => b | None => a_lines a - 1 end.
(* abstract well-formedness: what C09 guarantees of every reachable state *)
Record AWF (a : astate) : Prop := mkAWF {
  aw_cols : 1 <= a_cols a; aw_lines : 1 <= a_lines a;
  aw_y : ay a < a_lines a; aw_x : ax a <= a_cols a;
  aw_margins : match a_margins a with None => True | Some (t, b) => t < b /\ b <= a_lines a - 1 end }.
Lemma AWF_abs s : WF s -> AWF (abs s).
Proof. intros [w1 w2 w3 w4 w5 w6 w7 w8]. constructor; assumption. Qed.

Section S.
Variable wid : cp -> N. Variable is_comb : cp -> bool. Variable nfc : str -> str.
Notation step := (step wid is_comb nfc).
Notation astep := (astep wid is_comb nfc).

(* 1. the code (sparse model) computes exactly the documented closed form *)
Lemma c05_refines s o : WF s -> is_move o = true -> abs (step s o) = astep (abs s) o.
Proof.
  intros W H. destruct o; try discriminate H.
  - apply ref_bs; exact W. - apply ref_cr. - apply ref_cuu. - apply ref_cud. - apply ref_cuf.
  - apply ref_cub; exact W. - apply ref_cnl. - apply ref_cpl. - apply ref_cha. - apply ref_cup. - apply ref_vpa.
Qed.

(* 2. nothing but the cursor position changes: no cell, rendition, mode, margin, tab stop (nor anything else) *)
Lemma c05_frame a o : is_move o = true -> astep a o = a_xy a (ax (astep a o)) (ay (astep a o)).
Proof.
  intros H. destruct o; try discriminate H; cbn [astep]; destruct a as [cc ll gg [xx yy at_ hd] mm mo tt dd cs g0 g1 ti ic sp sc];
    unfold a_cub, a_cr, a_cuu, a_cud, a_cuf, a_cha, a_vpa, a_cup, a_vclamp, a_x, a_y, a_xy, a_with_cur, ax, ay, aattr, amode; cbn;
    repeat match goal with |- context [match ?m with Some _ => _ | None => _ end] => destruct m as [[? ?]|] end;
    repeat match goal with |- context [if ?b then _ else _] => destruct b end; reflexivity.
Qed.

(* 3. the documented arithmetic *)
Lemma c05_relative a n :
  ay (astep a (OCuu n)) = N.max (ay a - hat n) (top_m a) /\ ax (astep a (OCuu n)) = ax a /\
  ay (astep a (OCud n)) = N.min (ay a + hat n) (bot_m a) /\ ax (astep a (OCud n)) = ax a /\
  ax (astep a (OCuf n)) = N.min (ax a + hat n) (a_cols a - 1) /\ ay (astep a (OCuf n)) = ay a /\
  ax (astep a (OCub n)) = N.min (ax a) (a_cols a - 1) - hat n /\ ay (astep a (OCub n)) = ay a /\
  ay (astep a (OCnl n)) = N.min (ay a + hat n) (bot_m a) /\ ax (astep a (OCnl n)) = 0 /\
  ay (astep a (OCpl n)) = N.max (ay a - hat n) (top_m a) /\ ax (astep a (OCpl n)) = 0 /\
  ax (astep a OBackspace) = N.min (ax a) (a_cols a - 1) - 1 /\ ax (astep a OCR) = 0 /\ ay (astep a OCR) = ay a.
Proof. repeat split; reflexivity. Qed.
Lemma hat_spec n : hat n = match n with None => 1 | Some 0 => 1 | Some k => k end.
Proof. reflexivity. Qed.
Lemma c05_cha a n : ax (astep a (OCha n)) = N.min (match n with Some v => v | None => 1 end - 1) (a_cols a - 1) /\ ay (astep a (OCha n)) = ay a.
Proof. split; reflexivity. Qed.

(* absolute addressing; in origin mode rows are relative to the top margin, a target outside the region is ignored *)
Lemma c05_cup a l c : AWF a ->
  let a' := astep a (OCup l c) in
  match a_margins a with
  | Some (t, b) =>
      if amode a DECOM then
        if b <? hat l - 1 + t then a' = a
        else ax a' = N.min (hat c - 1) (a_cols a - 1) /\ ay a' = hat l - 1 + t /\ t <= ay a' <= b
      else ax a' = N.min (hat c - 1) (a_cols a - 1) /\ ay a' = N.min (hat l - 1) (a_lines a - 1)
  | None => ax a' = N.min (hat c - 1) (a_cols a - 1) /\ ay a' = N.min (hat l - 1) (a_lines a - 1)
  end.
Proof.
  intros W. cbn [astep]. unfold a_cup. pose proof (aw_margins a W) as M. pose proof (aw_lines a W).
  destruct (a_margins a) as [[t b]|] eqn:EM.
  - destruct (amode a DECOM) eqn:ED.
    + destruct (b <? hat l - 1 + t) eqn:E; [reflexivity|]. apply N.ltb_ge in E.
      unfold a_vclamp. cbn [a_margins a_xy a_with_cur]. rewrite EM.
      unfold amode in *. cbn [a_mode a_xy a_with_cur]. rewrite ED. rewrite orb_true_r.
      unfold a_y, a_xy, ax, ay, a_with_cur; cbn. repeat split; lia.
    + unfold a_vclamp. cbn [a_margins a_xy a_with_cur]. rewrite EM.
      unfold amode in *. cbn [a_mode a_xy a_with_cur]. rewrite ED. cbn [orb].
      unfold a_y, a_xy, ax, ay, a_with_cur; cbn. split; [reflexivity|lia].
  - unfold a_vclamp. cbn [a_margins a_xy a_with_cur]. rewrite EM.
    unfold a_y, a_xy, ax, ay, a_with_cur; cbn. split; [reflexivity|lia].
Qed.

(* 4. the cursor stays on the screen *)
Lemma c05_pos_bounds a o : AWF a -> is_move o = true -> ay (astep a o) < a_lines a /\ ax (astep a o) <= a_cols a.
Proof.
  intros [w1 w2 w3 w4 w5] H.
  destruct o; try discriminate H; cbn [astep];
    unfold a_cub, a_cr, a_cuu, a_cud, a_cuf, a_cha, a_vpa, a_cup, a_vclamp, a_x, a_y, a_xy, a_with_cur, ax, ay, aattr, amode in *;
    cbn [a_cur a_margins a_mode a_lines a_cols cu_x cu_y] in *;
    destruct (a_margins a) as [[t b]|]; cbn [a_cur a_margins a_mode a_lines a_cols cu_x cu_y];
    repeat match goal with |- context [if ?c then _ else _] => destruct c eqn:? end;
    cbn [a_cur a_margins a_mode a_lines a_cols cu_x cu_y];
    repeat match goal with Hq : (_ <? _) = false |- _ => apply N.ltb_ge in Hq end; lia.
Qed.
Lemma c05_keeps_AWF a o : AWF a -> is_move o = true -> AWF (astep a o).
Proof.
  intros W H. destruct (c05_pos_bounds a o W H) as [B1 B2]. rewrite (c05_frame a o H).
  destruct W as [w1 w2 w3 w4 w5]. constructor; assumption.
Qed.
End S.
