(* Proofs/View.v — the view function cellv in terms of rows, and how buffer updates show in it. *)
From Coq Require Import NArith List Bool Lia.
From MT Require Import Lib Types Charsets Tables Screen Spec Obs Stmt.
From MT.Proofs Require Import WF Aeq Loops.
Import ListNotations.
Open Scope N_scope.

Definition rowv (d : cell) (line : row) (c : N) : cell :=
  match NMap.get c line with Some x => x | None => d end.
Lemma cellv_rowv s r c : cellv s r c = rowv (default_char s) (orow (NMap.get r (buffer s))) c.
Proof. unfold cellv, rowv, orow. destruct (NMap.get r (buffer s)); reflexivity. Qed.
Lemma rowv_empty d c : rowv d NMap.empty c = d. Proof. reflexivity. Qed.

(* two screens with the same DECSCNM flag and pointwise-equal buffers show the same cells *)
Lemma default_char_mode s s' : nmem DECSCNM (mode s') = nmem DECSCNM (mode s) -> default_char s' = default_char s.
Proof. intros H. unfold default_char, has_mode. rewrite H. reflexivity. Qed.

Lemma cellv_set_row s s' y line r c :
  default_char s' = default_char s -> buffer s' = NMap.set y line (buffer s) ->
  cellv s' r c = if r =? y then rowv (default_char s) line c else cellv s r c.
Proof.
  intros Hd Hb. rewrite !cellv_rowv, Hd, Hb, NMap.get_set. destruct (r =? y); reflexivity.
Qed.

(* WF transport when only the cursor row is replaced by a row whose keys stay below columns *)
Lemma WF_set_row s s' y line :
  WF s -> y < lines s ->
  columns s' = columns s -> lines s' = lines s -> cur s' = cur s -> margins s' = margins s ->
  (forall q, nmem q (dirty s') = true -> q < lines s) ->
  buffer s' = NMap.set y line (buffer s) ->
  (forall c x, NMap.get c line = Some x -> c < columns s) ->
  WF s'.
Proof.
  intros W Hy Hc Hl Hcu Hm Hd Hb Hk. destruct W as [w1 w2 w3 w4 w5 w6 w7 w8].
  constructor; unfold cx, cy, margins_wf in *; rewrite ?Hc, ?Hl, ?Hcu, ?Hm; auto.
  - intros r ln. rewrite Hb, NMap.get_set. destruct (N.eqb_spec r y); [intros _; subst; exact Hy|apply w7].
  - intros r ln c x. rewrite Hb, NMap.get_set. destruct (N.eqb_spec r y).
    + intros E. inversion E; subst. apply Hk.
    + apply w8.
Qed.

Lemma nmem_nadd_lt y d (P : N -> Prop) : P y -> (forall q, nmem q d = true -> P q) -> forall q, nmem q (nadd y d) = true -> P q.
Proof. intros Hy Hd q. rewrite nmem_nadd. destruct (N.eqb_spec q y); [subst; auto|cbn; apply Hd]. Qed.
Lemma nmem_nunion_range_lt lo hi L d : hi <= L -> (forall q, nmem q d = true -> q < L) ->
  forall q, nmem q (nunion (range lo hi) d) = true -> q < L.
Proof.
  intros Hh Hd q. rewrite nmem_nunion, nmem_range. intros H. apply orb_true_iff in H. destruct H as [H|H]; [|auto].
  apply andb_true_iff in H. destruct H as [_ H]. apply N.ltb_lt in H. lia.
Qed.

(* normalise record projections of functional updates (never touches N arithmetic) *)
Ltac snorm :=
  unfold add_dirty, add_dirty_range, erase_row_range, carriage_return, set_x, set_y, set_attr, set_hidden, cx, cy in *;
  unfold a_cr in *; unfold a_x, a_y in *; unfold a_xy in *; unfold a_all_dirty in *;
  unfold a_dirty_add, a_dirty_range, a_fill_row in *; unfold ax, ay, aattr in *;
  unfold a_with_cur, a_with_grid, a_with_dirty, a_with_margins, a_with_mode, a_with_tabs, a_with_cs, a_with_sp,
         a_with_savedcols, abs in *;
  unfold set_dirty, set_buffer, set_cur, set_margins_f, set_mode_f, set_size, set_savepoints, set_tabstops,
         set_charset, set_g0, set_g1, set_title_f, set_icon_f, set_saved_columns in *;
  cbn [savepoints columns lines dirty margins buffer mode title icon_name charset g0 g1 tabstops cur saved_columns
       cu_x cu_y cu_attr cu_hidden
       a_cols a_lines a_grid a_cur a_margins a_mode a_tabs a_dirty a_cs a_g0 a_g1 a_title a_icon a_sp a_savedcols] in *.
