(* Proofs/P20.v — C20: character-set translation. *)
From Coq Require Import NArith List Bool Lia.
From MT Require Import Lib Types Charsets Tables Screen Spec Obs Stmt.
Import ListNotations.
Open Scope N_scope.

Definition active (a : astate) : csid := match a_cs a with G1 => a_g1 a | G0 => a_g0 a end.
Lemma c20_translate a c : a_translate a c = if 255 <? c then c else translate (active a) c.
Proof. reflexivity. Qed.
Lemma c20_above_255 a c : 255 < c -> a_translate a c = c.
Proof. intros H. unfold a_translate. destruct (N.ltb_spec 255 c); [reflexivity|lia]. Qed.
Lemma c20_latin1 c : translate Lat1 c = c. Proof. reflexivity. Qed.
Lemma c20_initial cols lns : a_cs (a_init cols lns) = G0 /\ a_g0 (a_init cols lns) = Lat1 /\ a_g1 (a_init cols lns) = Vt100.
Proof. repeat split. Qed.
Lemma c20_after_reset a : a_cs (a_reset a) = G0 /\ a_g0 (a_reset a) = Lat1 /\ a_g1 (a_reset a) = Vt100.
Proof. repeat split. Qed.
(* DEC special graphics: every code point in 0x5f..0x7e is replaced (by a symbol at or above U+00A0);
   below 256 the only other replacements are the five arrow/block keys + , - . 0 *)
Lemma graf_sweep :
  forallb (fun c => if (95 <=? c) && (c <=? 126) then negb (translate Vt100 c =? c) && (160 <=? translate Vt100 c)
                    else if nmem c [43; 44; 45; 46; 48] then negb (translate Vt100 c =? c) else translate Vt100 c =? c) (range 0 256) = true.
Proof. vm_compute. reflexivity. Qed.
Lemma c20_dec_graphics c : 95 <= c <= 126 -> translate Vt100 c <> c /\ 160 <= translate Vt100 c.
Proof.
  intros H. pose proof graf_sweep as S. rewrite forallb_forall in S. specialize (S c). 
  assert (I : In c (range 0 256)) by (apply in_range; lia). specialize (S I).
  destruct (N.leb_spec 95 c); [|lia]. destruct (N.leb_spec c 126); [|lia]. cbn [andb] in S.
  apply andb_true_iff in S. destruct S as [S1 S2]. apply negb_true_iff, N.eqb_neq in S1. apply N.leb_le in S2. split; assumption.
Qed.
Lemma c20_dec_graphics_rest c : c < 256 -> ~ (95 <= c <= 126) -> nmem c [43; 44; 45; 46; 48] = false -> translate Vt100 c = c.
Proof.
  intros H N1 N2. pose proof graf_sweep as S. rewrite forallb_forall in S. specialize (S c).
  assert (I : In c (range 0 256)) by (apply in_range; lia). specialize (S I).
  rewrite N2 in S. destruct (N.leb_spec 95 c), (N.leb_spec c 126); cbn [andb] in S; try (apply N.eqb_eq in S; exact S). lia.
Qed.
(* SO / SI *)
Lemma c20_so wid is_comb nfc a : astep wid is_comb nfc a OShiftOut = a_with_cs a G1 (a_g0 a) (a_g1 a). Proof. reflexivity. Qed.
Lemma c20_si wid is_comb nfc a : astep wid is_comb nfc a OShiftIn = a_with_cs a G0 (a_g0 a) (a_g1 a). Proof. reflexivity. Qed.
Lemma c20_so_active wid is_comb nfc a : active (astep wid is_comb nfc a OShiftOut) = a_g1 a /\ active (astep wid is_comb nfc a OShiftIn) = a_g0 a.
Proof. split; reflexivity. Qed.
(* designation *)
Lemma c20_codes : charset_of_code [66] = Some Lat1 /\ charset_of_code [48] = Some Vt100 /\ charset_of_code [85] = Some Ibmpc /\ charset_of_code [86] = Some Vax42.
Proof. repeat split. Qed.
Lemma c20_unknown_code code : code <> [66] -> code <> [48] -> code <> [85] -> code <> [86] -> charset_of_code code = None.
Proof.
  intros H1 H2 H3 H4. destruct code as [|c [|d r]]; try reflexivity.
  all: unfold charset_of_code.
  all: repeat match goal with |- context [match ?x with _ => _ end] => destruct x; try reflexivity; try congruence end.
Qed.
Lemma c20_designate a code m t : charset_of_code code = Some t ->
  a_defcs a code [40] = a_with_cs a (a_cs a) t (a_g1 a) /\ a_defcs a code [41] = a_with_cs a (a_cs a) (a_g0 a) t /\
  (m <> [40] -> m <> [41] -> a_defcs a code m = a).
Proof.
  intros H. unfold a_defcs. rewrite H. repeat split.
  intros N1 N2. destruct (leqb m [40]) eqn:E1; [apply leqb_eq in E1; contradiction|].
  destruct (leqb m [41]) eqn:E2; [apply leqb_eq in E2; contradiction|reflexivity].
Qed.
Lemma c20_designate_unknown a code m : charset_of_code code = None -> a_defcs a code m = a.
Proof. intros H. unfold a_defcs. rewrite H. reflexivity. Qed.
