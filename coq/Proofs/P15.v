(* Proofs/P15.v — C15: RIS. The saved-cursor stack is invisible to every operation except DECSC / DECRC. *)
From Coq Require Import NArith List Bool Lia.
From MT Require Import Lib Types Charsets Tables Screen Spec Obs Stmt.
From MT.Proofs Require Import WF Aeq P05 Congr CongrMore SpecAll P14.
Import ListNotations.
Open Scope N_scope.

Notation wsp := a_with_sp.
Lemma p_ax a s : ax (wsp a s) = ax a. Proof. reflexivity. Qed.
Lemma p_ay a s : ay (wsp a s) = ay a. Proof. reflexivity. Qed.
Lemma p_aattr a s : aattr (wsp a s) = aattr a. Proof. reflexivity. Qed.
Lemma p_amode a s m : amode (wsp a s) m = amode a m. Proof. reflexivity. Qed.
Lemma p_adc a s : adc (wsp a s) = adc a. Proof. reflexivity. Qed.
Lemma p_atb a s : atb (wsp a s) = atb a. Proof. reflexivity. Qed.
Lemma p_cols a s : a_cols (wsp a s) = a_cols a. Proof. reflexivity. Qed.
Lemma p_lines a s : a_lines (wsp a s) = a_lines a. Proof. reflexivity. Qed.
Lemma p_grid a s : a_grid (wsp a s) = a_grid a. Proof. reflexivity. Qed.
Lemma p_cur a s : a_cur (wsp a s) = a_cur a. Proof. reflexivity. Qed.
Lemma p_margins a s : a_margins (wsp a s) = a_margins a. Proof. reflexivity. Qed.
Lemma p_mode a s : a_mode (wsp a s) = a_mode a. Proof. reflexivity. Qed.
Lemma p_tabs a s : a_tabs (wsp a s) = a_tabs a. Proof. reflexivity. Qed.
Lemma p_dirty a s : a_dirty (wsp a s) = a_dirty a. Proof. reflexivity. Qed.
Lemma p_cs a s : a_cs (wsp a s) = a_cs a. Proof. reflexivity. Qed.
Lemma p_g0 a s : a_g0 (wsp a s) = a_g0 a. Proof. reflexivity. Qed.
Lemma p_g1 a s : a_g1 (wsp a s) = a_g1 a. Proof. reflexivity. Qed.
Lemma p_savedcols a s : a_savedcols (wsp a s) = a_savedcols a. Proof. reflexivity. Qed.
Lemma p_sp a s : a_sp (wsp a s) = s. Proof. reflexivity. Qed.
Lemma p_idem a s1 s2 : wsp (wsp a s1) s2 = wsp a s2. Proof. reflexivity. Qed.
Global Hint Rewrite p_ax p_ay p_aattr p_amode p_adc p_atb p_cols p_lines p_grid p_cur p_margins p_mode p_tabs p_dirty p_cs p_g0 p_g1 p_savedcols p_sp p_idem : wsp.

(* primitives commute with replacing the stack *)
Lemma w_with_cur a s c : a_with_cur (wsp a s) c = wsp (a_with_cur a c) s. Proof. reflexivity. Qed.
Lemma w_xy a s x y : a_xy (wsp a s) x y = wsp (a_xy a x y) s. Proof. reflexivity. Qed.
Lemma w_x a s x : a_x (wsp a s) x = wsp (a_x a x) s. Proof. reflexivity. Qed.
Lemma w_y a s y : a_y (wsp a s) y = wsp (a_y a y) s. Proof. reflexivity. Qed.
Lemma w_with_grid a s g : a_with_grid (wsp a s) g = wsp (a_with_grid a g) s. Proof. reflexivity. Qed.
Lemma w_with_dirty a s g : a_with_dirty (wsp a s) g = wsp (a_with_dirty a g) s. Proof. reflexivity. Qed.
Lemma w_with_margins a s g : a_with_margins (wsp a s) g = wsp (a_with_margins a g) s. Proof. reflexivity. Qed.
Lemma w_with_mode a s g : a_with_mode (wsp a s) g = wsp (a_with_mode a g) s. Proof. reflexivity. Qed.
Lemma w_with_tabs a s g : a_with_tabs (wsp a s) g = wsp (a_with_tabs a g) s. Proof. reflexivity. Qed.
Lemma w_with_cs a s c g0 g1 : a_with_cs (wsp a s) c g0 g1 = wsp (a_with_cs a c g0 g1) s. Proof. reflexivity. Qed.
Lemma w_with_savedcols a s g : a_with_savedcols (wsp a s) g = wsp (a_with_savedcols a g) s. Proof. reflexivity. Qed.
Lemma w_with_attr a s g : a_with_attr (wsp a s) g = wsp (a_with_attr a g) s. Proof. reflexivity. Qed.
Lemma w_with_title a s g : a_with_title (wsp a s) g = wsp (a_with_title a g) s. Proof. reflexivity. Qed.
Lemma w_with_icon a s g : a_with_icon (wsp a s) g = wsp (a_with_icon a g) s. Proof. reflexivity. Qed.
Lemma w_dirty_add a s y : a_dirty_add (wsp a s) y = wsp (a_dirty_add a y) s. Proof. reflexivity. Qed.
Lemma w_dirty_range a s lo hi : a_dirty_range (wsp a s) lo hi = wsp (a_dirty_range a lo hi) s. Proof. reflexivity. Qed.
Lemma w_all_dirty a s : a_all_dirty (wsp a s) = wsp (a_all_dirty a) s. Proof. reflexivity. Qed.
Lemma w_put a s y x cl : a_put (wsp a s) y x cl = wsp (a_put a y x cl) s. Proof. reflexivity. Qed.
Lemma w_cr a s : a_cr (wsp a s) = wsp (a_cr a) s. Proof. reflexivity. Qed.
Lemma w_ich a s n : a_ich (wsp a s) n = wsp (a_ich a n) s. Proof. reflexivity. Qed.
Lemma w_dch a s n : a_dch (wsp a s) n = wsp (a_dch a n) s. Proof. reflexivity. Qed.
Lemma w_ech a s n : a_ech (wsp a s) n = wsp (a_ech a n) s. Proof. reflexivity. Qed.
Lemma w_fill_row a s y lo hi : a_fill_row (wsp a s) y lo hi = wsp (a_fill_row a y lo hi) s. Proof. reflexivity. Qed.
Lemma w_cuu a s n : a_cuu (wsp a s) n = wsp (a_cuu a n) s. Proof. reflexivity. Qed.
Lemma w_cud a s n : a_cud (wsp a s) n = wsp (a_cud a n) s. Proof. reflexivity. Qed.
Lemma w_cuf a s n : a_cuf (wsp a s) n = wsp (a_cuf a n) s. Proof. reflexivity. Qed.
Lemma w_cub a s n : a_cub (wsp a s) n = wsp (a_cub a n) s. Proof. reflexivity. Qed.
Lemma w_cha a s n : a_cha (wsp a s) n = wsp (a_cha a n) s. Proof. reflexivity. Qed.
Lemma w_tab a s : a_tab (wsp a s) = wsp (a_tab a) s. Proof. reflexivity. Qed.
Lemma w_hts a s : a_hts (wsp a s) = wsp (a_hts a) s. Proof. reflexivity. Qed.
Lemma w_decaln a s : a_decaln (wsp a s) = wsp (a_decaln a) s. Proof. reflexivity. Qed.
Lemma w_sgr a s ps : a_sgr (wsp a s) ps = wsp (a_sgr a ps) s. Proof. reflexivity. Qed.
Lemma w_reset a s : a_reset (wsp a s) = wsp (a_reset a) s. Proof. reflexivity. Qed.
Lemma w_vclamp a s u : a_vclamp (wsp a s) u = wsp (a_vclamp a u) s.
Proof. unfold a_vclamp. autorewrite with wsp. destruct (match a_margins a with Some m => if u || amode a DECOM then m else (0, a_lines a - 1) | None => (0, a_lines a - 1) end). reflexivity. Qed.
Lemma w_cup a s l c : a_cup (wsp a s) l c = wsp (a_cup a l c) s.
Proof.
  unfold a_cup. cbv beta zeta. autorewrite with wsp.
  destruct (a_margins a) as [[t b]|]; [|rewrite w_xy, w_vclamp; reflexivity]. destruct (amode a DECOM); [|rewrite w_xy, w_vclamp; reflexivity].
  destruct (_ <? _); [reflexivity|rewrite w_xy, w_vclamp; reflexivity].
Qed.
Lemma w_vpa a s n : a_vpa (wsp a s) n = wsp (a_vpa a n) s.
Proof. unfold a_vpa. cbv beta zeta. autorewrite with wsp. rewrite ?w_y, ?w_vclamp. reflexivity. Qed.
Lemma w_index a s : a_index (wsp a s) = wsp (a_index a) s.
Proof. unfold a_index. autorewrite with wsp. destruct (atb a) as [t b]. destruct (ay a =? b); reflexivity. Qed.
Lemma w_rindex a s : a_rindex (wsp a s) = wsp (a_rindex a) s.
Proof. unfold a_rindex. autorewrite with wsp. destruct (atb a) as [t b]. destruct (ay a =? t); reflexivity. Qed.
Lemma w_linefeed a s : a_linefeed (wsp a s) = wsp (a_linefeed a) s.
Proof. unfold a_linefeed. rewrite w_index. autorewrite with wsp. destruct (amode (a_index a) LNM); reflexivity. Qed.
Lemma w_il a s n : a_il (wsp a s) n = wsp (a_il a n) s.
Proof. unfold a_il. autorewrite with wsp. destruct (atb a) as [t b]. destruct (_ && _); reflexivity. Qed.
Lemma w_dl a s n : a_dl (wsp a s) n = wsp (a_dl a n) s.
Proof. unfold a_dl. autorewrite with wsp. destruct (atb a) as [t b]. destruct (_ && _); reflexivity. Qed.
Lemma w_el a s h : a_el (wsp a s) h = wsp (a_el a h) s.
Proof. unfold a_el. destruct (_ =? 0); [reflexivity|]. destruct (_ =? 1); [reflexivity|]. destruct (_ =? 2); reflexivity. Qed.
Lemma w_ed a s h : a_ed (wsp a s) h = wsp (a_ed a h) s.
Proof.
  unfold a_ed. autorewrite with wsp. destruct (if _ =? 0 then _ else _) as [lo hi].
  rewrite w_dirty_range, w_with_grid. destruct (_ || _); [apply w_el|reflexivity].
Qed.
Lemma w_tbc a s h : a_tbc (wsp a s) h = wsp (a_tbc a h) s.
Proof. unfold a_tbc. destruct (_ =? 0); [reflexivity|]. destruct (_ =? 3); reflexivity. Qed.
Lemma w_stbm a s t b : a_stbm (wsp a s) t b = wsp (a_stbm a t b) s.
Proof.
  unfold a_stbm. destruct (_ && _); [reflexivity|]. autorewrite with wsp. destruct (atb a) as [mt mb].
  destruct (_ <? _); [|reflexivity]. rewrite w_with_margins. apply w_cup.
Qed.
Lemma w_defcs a s c m : a_defcs (wsp a s) c m = wsp (a_defcs a c m) s.
Proof. unfold a_defcs. destruct (charset_of_code c); [|reflexivity]. destruct (leqb m [40]); [reflexivity|]. destruct (leqb m [41]); reflexivity. Qed.
Lemma w_resize a s l c : a_resize (wsp a s) l c = wsp (a_resize a l c) s.
Proof. unfold a_resize. autorewrite with wsp. destruct (_ && _); reflexivity. Qed.
Lemma w_set_mode a s ms p on : a_set_mode (wsp a s) ms p on = wsp (a_set_mode a ms p on) s.
Proof.
  unfold a_set_mode. cbv zeta. set (ml := if p then _ else ms).
  set (a1 := if nmem DECSCNM ml then a_all_dirty a else a).
  assert (E1 : (if nmem DECSCNM ml then a_all_dirty (wsp a s) else wsp a s) = wsp a1 s) by (unfold a1; destruct (nmem DECSCNM ml); reflexivity).
  rewrite E1. clearbody a1. autorewrite with wsp. rewrite w_with_mode.
  set (a2 := a_with_mode a1 _). clearbody a2.
  set (a3 := if nmem DECCOLM ml then _ else a2).
  match goal with |- context [if nmem DECCOLM ml then ?X else wsp a2 s] => assert (E3 : (if nmem DECCOLM ml then X else wsp a2 s) = wsp a3 s) end.
  { unfold a3. destruct (nmem DECCOLM ml); [|reflexivity]. autorewrite with wsp.
    destruct on.
    - rewrite w_with_savedcols, w_resize, w_ed, w_cup. reflexivity.
    - destruct (a_cols a2 =? 132); [|rewrite w_ed, w_cup; reflexivity].
      destruct (a_savedcols a2); [|rewrite w_ed, w_cup; reflexivity].
      rewrite w_resize, w_with_savedcols, w_ed, w_cup. reflexivity. }
  rewrite E3. clearbody a3.
  set (a4 := if nmem DECOM ml then a_cup a3 None None else a3).
  assert (E4 : (if nmem DECOM ml then a_cup (wsp a3 s) None None else wsp a3 s) = wsp a4 s) by (unfold a4; destruct (nmem DECOM ml); [apply w_cup|reflexivity]).
  rewrite E4. clearbody a4. autorewrite with wsp.
  destruct (nmem DECSCNM ml); destruct (nmem DECTCEM ml); reflexivity.
Qed.

Section S.
Variable wid : cp -> N. Variable is_comb : cp -> bool. Variable nfc : str -> str.
Notation astep := (astep wid is_comb nfc).
Notation arun := (arun wid is_comb nfc).

Lemma w_pre_wrap a s w : pre_wrap (wsp a s) w = wsp (pre_wrap a w) s.
Proof.
  unfold pre_wrap. autorewrite with wsp. destruct (ax a =? a_cols a); [|reflexivity].
  destruct (amode a DECAWM); [rewrite w_dirty_add, w_cr, w_linefeed; reflexivity|]. destruct (0 <? w); reflexivity.
Qed.
Lemma w_place a s ch w : place is_comb nfc (wsp a s) ch w = wsp (place is_comb nfc a ch w) s.
Proof.
  unfold place. autorewrite with wsp. destruct (w =? 1); [reflexivity|]. destruct (w =? 2).
  - cbv zeta. rewrite w_put. autorewrite with wsp. destruct (_ <? _); reflexivity.
  - destruct (_ && _); [|reflexivity]. destruct (0 <? ax a); [reflexivity|]. destruct (0 <? ay a); reflexivity.
Qed.
Lemma w_draw_char a s ch : a_draw_char wid is_comb nfc (wsp a s) ch = wsp (a_draw_char wid is_comb nfc a ch) s.
Proof.
  rewrite !draw_char_stages. cbv zeta. rewrite w_pre_wrap. set (a1 := pre_wrap a (wid ch)). clearbody a1. autorewrite with wsp.
  assert (E2 : (if amode a1 IRM && (0 <? wid ch) then a_ich (wsp a1 s) (Some (wid ch)) else wsp a1 s)
             = wsp (if amode a1 IRM && (0 <? wid ch) then a_ich a1 (Some (wid ch)) else a1) s) by (destruct (_ && _); reflexivity).
  rewrite E2. set (a2 := if _ && _ then _ else a1). clearbody a2. rewrite w_place.
  set (a3 := place is_comb nfc a2 ch (wid ch)). clearbody a3. autorewrite with wsp. destruct (0 <? wid ch); reflexivity.
Qed.
Lemma w_draw_chars cs : forall a s, fold_left (a_draw_char wid is_comb nfc) cs (wsp a s) = wsp (fold_left (a_draw_char wid is_comb nfc) cs a) s.
Proof. induction cs as [|c cs IH]; intros a s; [reflexivity|]. cbn [fold_left]. rewrite w_draw_char. apply IH. Qed.
Lemma w_draw a s t : a_draw wid is_comb nfc (wsp a s) t = wsp (a_draw wid is_comb nfc a t) s.
Proof.
  unfold a_draw. assert (E : map (a_translate (wsp a s)) t = map (a_translate a) t) by reflexivity. rewrite E.
  rewrite w_draw_chars. reflexivity.
Qed.

(* every operation except DECSC / DECRC commutes with replacing the stack *)
Theorem w_astep a s o : no_save_restore o -> astep (wsp a s) o = wsp (astep a o) s.
Proof.
  intros H. destruct o; try contradiction; cbn [astep]; try reflexivity.
  - apply w_defcs. - apply w_index. - apply w_linefeed. - apply w_rindex. - apply w_draw.
  - apply w_cup. - apply w_ed. - apply w_el. - apply w_il. - apply w_dl. - apply w_vpa. - apply w_tbc.
  - apply w_set_mode. - apply w_set_mode. - apply w_stbm. - apply w_resize.
Qed.
End S.

(* ---- RIS and what follows ---- *)
From MT.Proofs Require Import RefineReset RefineModes RefineAll RunAll.
Definition not_restore (o : op) : Prop := o <> ORestore.
Section R.
Variable wid : cp -> N. Variable is_comb : cp -> bool. Variable nfc : str -> str.
Notation astep := (astep wid is_comb nfc).
Notation arun := (arun wid is_comb nfc).
Notation run := (run wid is_comb nfc).

(* RIS = "a new screen of the current dimensions", keeping the stack — as a record equality *)
Lemma c15_reset a : astep a OReset = wsp (a_init (a_cols a) (a_lines a)) (a_sp a).
Proof. reflexivity. Qed.
Lemma c15_all_dirty a r : r < a_lines a -> nmem r (a_dirty (astep a OReset)) = true.
Proof. intros H. cbn [astep a_reset a_dirty]. rewrite nmem_range. destruct (N.leb_spec 0 r), (N.ltb_spec r (a_lines a)); try lia; reflexivity. Qed.
(* one step from two states that differ only in the stack *)
Lemma es_step a s o : not_restore o -> exists s', astep (wsp a s) o = wsp (astep a o) s'.
Proof.
  intros H. destruct o; try (eexists; apply (w_astep wid is_comb nfc); exact I).
  - eexists. cbn [astep]. unfold a_save. reflexivity.
  - exfalso. apply H. reflexivity.
Qed.
Lemma es_run t : forall a s, Forall not_restore t -> exists s', arun (wsp a s) t = wsp (arun a t) s'.
Proof.
  induction t as [|o t IH]; intros a s F; [exists s; reflexivity|].
  inversion F as [|? ? Ho Ft]; subst. cbn [SpecAll.arun fold_left].
  destruct (es_step a s o Ho) as [s1 E1]. rewrite E1. apply IH. exact Ft.
Qed.
(* the continuation: whatever came before, after RIS every input without DECRC produces the state it produces on a
   new screen of the same size — all fields, with at most a different saved-cursor stack *)
Theorem c15_continuation a t : Forall not_restore t ->
  exists s', arun (astep a OReset) t = wsp (arun (a_init (a_cols a) (a_lines a)) t) s'.
Proof. intros F. rewrite c15_reset. apply es_run. exact F. Qed.

Lemma Aeq_wsp a b s : Aeq a b -> Aeq (wsp a s) (wsp b s).
Proof. intros [q1 q2 q3 q4 q5 q6 q7 q8 q9 q10 q11 q12 q13 q14 q15]. constructor; auto. Qed.
Lemma AWF_init c l : 1 <= c -> 1 <= l -> AWF (a_init c l).
Proof. intros Hc Hl. constructor; cbn; try lia; exact I. Qed.
(* the same for the code model: histories h, continuations t *)
Theorem c15_model s t : WF s -> SCm s -> Forall args_ok t -> Forall not_restore t ->
  Aeq (wsp (abs (run s (OReset :: t))) []) (wsp (abs (run (init (columns s) (lines s)) t)) []).
Proof.
  intros W SC FA FR.
  pose proof (wf_cols s W) as Hc. pose proof (wf_lines s W) as Hl.
  destruct (refine_step wid is_comb nfc s OReset W SC I) as [A1 [W1 SC1]].
  change (run s (OReset :: t)) with (run (step wid is_comb nfc s OReset) t).
  destruct (refine_run wid is_comb nfc t _ W1 SC1 FA) as [A2 _].
  assert (A3 : Aeq (arun (abs (step wid is_comb nfc s OReset)) t) (arun (astep (abs s) OReset) t)).
  { apply cg_arun; try assumption. apply AWF_abs; exact W1. }
  destruct (c15_continuation (abs s) t FR) as [s' E]. rewrite E in A3. cbn [abs a_cols a_lines] in A3.
  pose proof (WF_init (columns s) (lines s) Hc Hl) as Wi.
  assert (SCi : SCm (init (columns s) (lines s))) by (unfold SCm, init; rewrite reset_closed by assumption; exact I).
  destruct (refine_run wid is_comb nfc t _ Wi SCi FA) as [B2 _].
  assert (B3 : Aeq (arun (abs (init (columns s) (lines s))) t) (arun (a_init (columns s) (lines s)) t)).
  { apply cg_arun; try assumption; [apply AWF_abs; exact Wi|apply init_abs; assumption]. }
  eapply Aeq_trans; [apply Aeq_wsp; eapply Aeq_trans; [exact A2|exact A3]|].
  rewrite p_idem. apply Aeq_sym. apply Aeq_wsp. eapply Aeq_trans; [exact B2|exact B3].
Qed.
End R.
