(* Proofs/RefineAll.v — the refinement theorem for the whole operation surface of Screen:
   from every well-formed state, every operation of the sparse model (the code's loops, maps, saturating
   arithmetic) yields the state the closed-form specification describes — observationally — and keeps the
   well-formedness invariant. Lifted to operation sequences from any well-formed state, in particular from
   Screen::new. *)
From Coq Require Import NArith List Bool Lia.
From MT Require Import Lib Types Charsets Tables Screen Spec Obs Stmt.
From MT.Proofs Require Import WF Aeq Loops View RefineSimple RefineErase RefineShift RefineScroll RefineSgr RefineTab RefineReset
  RefineMisc RefineRestore RefineResize P05 P06 Congr CongrGrid CongrMore SpecAll RefineDraw RefineModes.
Import ListNotations.
Open Scope N_scope.

Section S.
Variable wid : cp -> N. Variable is_comb : cp -> bool. Variable nfc : str -> str.
Notation step := (step wid is_comb nfc).
Notation astep := (astep wid is_comb nfc).

Lemma WF_of_AWF s s' : WF s -> AWF (abs s') -> columns s' = columns s -> lines s' = lines s -> dirty s' = dirty s -> buffer s' = buffer s -> WF s'.
Proof.
  intros [w1 w2 w3 w4 w5 w6 w7 w8] [a1 a2 a3 a4 a5] e1 e2 e3 e4.
  constructor; unfold cx, cy, margins_wf in *; rewrite ?e1, ?e2, ?e3, ?e4; try assumption.
  - rewrite <- e2. exact a3.
  - rewrite <- e1. exact a4.
  - rewrite <- e2. exact a5.
Qed.
Lemma SCm_ASC s : SCm s <-> ASC (abs s). Proof. reflexivity. Qed.
Lemma WF_restore s : WF s -> WF (restore_cursor s).
Proof.
  intros W. pose proof (wf_cols s W). pose proof (wf_lines s W). pose proof (wf_margins s W) as M. unfold margins_wf in M.
  destruct (savepoints s) as [|sp rest] eqn:ES.
  - unfold restore_cursor. rewrite ES.
    change (rm_post (rm_pre s [DECOM]) [DECOM]) with (cursor_position (set_mode_f s (ndiff (mode s) [DECOM])) None None).
    apply (WF_cup wid is_comb nfc). apply (WF_cup wid is_comb nfc). apply WF_set_mode_f. exact W.
  - rewrite (restore_pop_closed s sp rest ES). destruct W as [w1 w2 w3 w4 w5 w6 w7 w8].
    constructor; unfold cx, cy, margins_wf, vclamp_y in *;
      cbn [columns lines cur margins dirty buffer set_cur set_mode_f set_charset set_g1 set_g0 set_savepoints cu_x cu_y]; try assumption; try lia.
    destruct (margins s) as [[t b]|]; lia.
Qed.

Theorem refine_step s o : WF s -> SCm s -> args_ok o ->
  Aeq (abs (step s o)) (astep (abs s) o) /\ WF (step s o) /\ SCm (step s o).
Proof.
  intros W SC Ho.
  assert (AW : AWF (abs s)) by (apply AWF_abs; exact W).
  destruct (awf_astep wid is_comb nfc (abs s) o AW SC Ho) as [AW' SC'].
  assert (G : Aeq (abs (step s o)) (astep (abs s) o) /\ WF (step s o)).
  2:{ destruct G as [A W']. split; [exact A|]. split; [exact W'|]. unfold SCm. change (saved_columns (step s o)) with (a_savedcols (abs (step s o))).
      rewrite (q_savedcols _ _ A). exact SC'. }
  (* Leibniz-refined operations: the abstract state IS the specification's; frame by computation *)
  assert (L : forall (E : abs (step s o) = astep (abs s) o),
              columns (step s o) = columns s -> lines (step s o) = lines s -> dirty (step s o) = dirty s -> buffer (step s o) = buffer s ->
              Aeq (abs (step s o)) (astep (abs s) o) /\ WF (step s o)).
  { intros E e1 e2 e3 e4. split; [apply Aeq_of_eq; exact E|]. apply (WF_of_AWF s); try assumption. rewrite E. exact AW'. }
  destruct o; cbn [args_ok] in Ho.
  - split; [apply ref_align|apply WF_align]; exact W.
  - apply (L (ref_defcs wid is_comb nfc s code mode)); cbn [Screen.step]; unfold define_charset;
      (destruct (charset_of_code code); [destruct (leqb mode [40]); [|destruct (leqb mode [41])]|]; reflexivity).
  - split; [apply ref_reset; exact W|cbn [Screen.step]; apply WF_reset; apply W].
  - split; [apply ref_index; exact W|apply WF_index_gen; exact W].
  - split; [apply ref_linefeed; exact W|apply WF_linefeed_gen; exact W].
  - split; [apply ref_rindex; exact W|apply WF_rindex; exact W].
  - apply (L (ref_settab wid is_comb nfc s)); reflexivity.
  - apply (L (ref_save wid is_comb nfc s)); reflexivity.
  - split; [apply ref_restore; exact W|cbn [Screen.step]; apply WF_restore; exact W].
  - apply (L (ref_so wid is_comb nfc s)); reflexivity.
  - apply (L (ref_si wid is_comb nfc s)); reflexivity.
  - apply (L (ref_bell wid is_comb nfc s)); reflexivity.
  - apply (L (ref_bs wid is_comb nfc s W)); cbn [Screen.step]; rewrite cursor_back_closed by exact W; reflexivity.
  - apply (L (ref_tab wid is_comb nfc s)); reflexivity.
  - apply (L (ref_cr wid is_comb nfc s)); reflexivity.
  - destruct (Ref_draw wid is_comb nfc s (abs s) text (conj W (Aeq_refl _))) as [W' A]. split; [exact A|exact W'].
  - split; [apply ref_ich|apply WF_ich]; exact W.
  - apply (L (ref_cuu wid is_comb nfc s n)); reflexivity.
  - apply (L (ref_cud wid is_comb nfc s n)); reflexivity.
  - apply (L (ref_cuf wid is_comb nfc s n)); reflexivity.
  - apply (L (ref_cub wid is_comb nfc s n W)); cbn [Screen.step]; rewrite cursor_back_closed by exact W; reflexivity.
  - apply (L (ref_cnl wid is_comb nfc s n)); reflexivity.
  - apply (L (ref_cpl wid is_comb nfc s n)); reflexivity.
  - apply (L (ref_cha wid is_comb nfc s n)); reflexivity.
  - apply (L (ref_cup wid is_comb nfc s l c)); cbn [Screen.step]; destruct (cup_frame s l c) as [cu E]; rewrite E; reflexivity.
  - split; [apply ref_ed|apply WF_ed]; exact W.
  - split; [apply ref_el; exact W|cbn [Screen.step]; apply WF_el_gen; exact W].
  - split; [apply ref_il|apply WF_il]; exact W.
  - split; [apply ref_dl|apply WF_dl]; exact W.
  - split; [apply ref_dch|apply WF_dch]; exact W.
  - split; [apply ref_ech|apply WF_ech]; exact W.
  - apply (L (ref_da wid is_comb nfc s m p)); reflexivity.
  - assert (F : columns (cursor_to_line s n) = columns s /\ lines (cursor_to_line s n) = lines s /\
                dirty (cursor_to_line s n) = dirty s /\ buffer (cursor_to_line s n) = buffer s).
    { clear. destruct s as [sps c l di ma bu mo ti ic cs g0' g1' ts [x y at_ hd] sc].
      lazy beta iota zeta delta [cursor_to_line ensure_vbounds set_y set_cur cy has_mode mode margins cur cu_x cu_y cu_attr cu_hidden lines columns dirty buffer
                                 savepoints title icon_name charset g0 g1 tabstops saved_columns orb].
      destruct ma as [[t b]|]; repeat match goal with |- context [if ?c then _ else _] => destruct c end; repeat split; reflexivity. }
    destruct F as [f1 [f2 [f3 f4]]]. apply (L (ref_vpa wid is_comb nfc s n)); assumption.
  - apply (L (ref_tbc wid is_comb nfc s how)); cbn [Screen.step]; unfold clear_tab_stop; (destruct (_ =? 0); [|destruct (_ =? 3)]); reflexivity.
  - destruct (ref_set_mode wid is_comb nfc s ms private W) as [W' A]. split; [exact A|exact W'].
  - destruct (ref_reset_mode wid is_comb nfc s ms private W SC) as [W' A]. split; [exact A|exact W'].
  - apply (L (ref_sgr wid is_comb nfc s ps)); cbn [Screen.step]; rewrite sgr_closed; reflexivity.
  - apply (L (ref_title wid is_comb nfc s t)); reflexivity.
  - apply (L (ref_icon wid is_comb nfc s t)); reflexivity.
  - split; [apply Aeq_of_eq; apply ref_margins|apply WF_margins_op; exact W].
  - destruct Ho as [Hl Hc]. destruct (resize_spec s l c W Hl Hc) as [A W']. split; [exact A|exact W'].
  - split; [apply ref_display|apply WF_display]; exact W.
Qed.
End S.
