(* Proofs/EndToEnd.v — the glue: characters in, screen operations out.  Parser::feed is "run the recogniser, apply its
   events to the screen in order"; with the token equations of Recog.v and the refinement theorem this gives, for every
   escape sequence of the grammar, the closed-form effect on the screen of FEEDING ITS CHARACTERS (any chunking). *)
From Coq Require Import NArith List Bool Lia.
From MT Require Import Lib Types Charsets Tables Screen Parser Utf8 World Spec Obs Stmt.
From MT.Proofs Require Import WF Aeq P05 CongrMore SpecAll RefineModes RefineAll RunAll Stream Recog P01.
Import ListNotations.
Open Scope N_scope.

Section S.
Variable wid : cp -> N. Variable is_comb : cp -> bool. Variable nfc : str -> str.
Notation step := (step wid is_comb nfc).
Notation feed_char := (feed_char wid is_comb nfc).
Notation feed_chars := (feed_chars wid is_comb nfc).
Notation run := (run wid is_comb nfc).
Notation astep := (astep wid is_comb nfc).
Notation arun := (arun wid is_comb nfc).

(* feeding characters = folding the screen over the recogniser's event list *)
Theorem feed_chars_events cs : forall w,
  feed_chars w cs = mkW (fold_left step (snd (prun (w_utf8 w) (w_pst w) cs)) (w_scr w)) (fst (prun (w_utf8 w) (w_pst w) cs)) (w_utf8 w) (w_dec w).
Proof.
  induction cs as [|c cs IH]; intros w; [destruct w; reflexivity|].
  cbn [World.feed_chars fold_left]. fold (feed_chars (feed_char w c) cs). rewrite IH. unfold World.feed_char.
  cbn [prun]. destruct (pstep (w_utf8 w) (w_pst w) c) as [p evs]. cbn [w_scr w_pst w_utf8 w_dec].
  destruct (prun (w_utf8 w) p cs) as [st2 e2]. cbn [fst snd]. rewrite fold_left_app. reflexivity.
Qed.
(* a complete CSI sequence fed from the ground state: its embedded controls, then exactly the dispatched operation, are
   applied to the screen; the recogniser is back in the ground state *)
Theorem e2e_csi w intro items c : w_pst w = PGround -> In intro csi_intros -> Forall item_ok items -> final_ok c ->
  let w' := feed_chars w (intro ++ map item_char items ++ [c]) in
  w_scr w' = fold_left step (ctl_events items ++ csi_dispatch c (map param_of (fields items)) (has_q items)) (w_scr w) /\ w_pst w' = PGround.
Proof.
  intros G HI F HF. cbv zeta. rewrite feed_chars_events, G, (csi_sequence (w_utf8 w) intro items c [] HI F HF).
  cbn [prun fst snd w_scr w_pst]. rewrite app_nil_r. split; reflexivity.
Qed.
Theorem e2e_esc w f : w_pst w = PGround -> f <> 91 -> f <> 93 -> f <> 35 -> f <> 37 -> f <> 40 -> f <> 41 ->
  let w' := feed_chars w [ESC; f] in w_scr w' = fold_left step (escape_dispatch f) (w_scr w) /\ w_pst w' = PGround.
Proof.
  intros G H1 H2 H3 H4 H5 H6. cbv zeta. rewrite feed_chars_events, G, (esc_final (w_utf8 w) f [] H1 H2 H3 H4 H5 H6).
  cbn [prun fst snd w_scr w_pst]. rewrite app_nil_r. split; reflexivity.
Qed.
Theorem e2e_text w c : w_pst w = PGround -> nmem c special_ctrls = false ->
  let w' := feed_chars w [c] in w_scr w' = step (w_scr w) (ODraw [c]) /\ w_pst w' = PGround.
Proof.
  intros G H. cbv zeta. rewrite feed_chars_events, G, (text_char (w_utf8 w) c [] H). cbn [prun fst snd w_scr w_pst app fold_left]. split; reflexivity.
Qed.
(* and therefore, in the closed forms: e.g. "ESC [ n A" moves the cursor up by n (n̂ = 1 for 0 / absent), whatever the state *)
Theorem e2e_refines w evs : WF (w_scr w) -> SCm (w_scr w) -> forallb no_resize evs = true ->
  Aeq (abs (fold_left step evs (w_scr w))) (arun (abs (w_scr w)) evs) /\ WF (fold_left step evs (w_scr w)).
Proof.
  intros W SC NR.
  assert (F : Forall args_ok evs).
  { apply Forall_forall. intros o Ho. apply no_resize_ok. rewrite forallb_forall in NR. apply NR. exact Ho. }
  destruct (refine_run wid is_comb nfc evs (w_scr w) W SC F) as [A [W' _]]. split; assumption.
Qed.
End S.

(* concrete instances, by computation on the recogniser alone (the world is arbitrary) *)
Example csi_5_A : csi_dispatch 65 (map param_of (fields [IDigit 53])) (has_q [IDigit 53]) = [OCuu (Some 5)].
Proof. reflexivity. Qed.
Example csi_q25_l : csi_dispatch 108 (map param_of (fields [IQ; IDigit 50; IDigit 53])) (has_q [IQ; IDigit 50; IDigit 53]) = [ORm [25] true].
Proof. reflexivity. Qed.
Example csi_2_3_H : csi_dispatch 72 (map param_of (fields [IDigit 50; ISemi; IDigit 51])) false = [OCup (Some 2) (Some 3)].
Proof. reflexivity. Qed.

(* ---- bytes in: a ByteParser in UTF-8 mode whose decoder is at a character boundary behaves on the UTF-8 encoding of a
   character string exactly like the character parser on the string itself — in any chunking of the bytes ---- *)
From MT.Proofs Require Import Utf8Dec.
Section B.
Variable wid : cp -> N. Variable is_comb : cp -> bool. Variable nfc : str -> str.
Notation feed_chars := (feed_chars wid is_comb nfc).
Notation feed_bytes := (feed_bytes wid is_comb nfc).
Theorem e2e_bytes w cs : w_utf8 w = true -> w_dec w = gnd false -> Forall scalar cs ->
  feed_bytes w (concat (map encode cs)) = feed_chars w cs.
Proof.
  intros U D F. unfold World.feed_bytes. rewrite U, D, (round_trip cs F). destruct w as [s p u d]. cbn in *. subst. reflexivity.
Qed.
Theorem e2e_bytes_chunked w cs chunks : w_utf8 w = true -> w_dec w = gnd false -> Forall scalar cs ->
  concat chunks = concat (map encode cs) -> fold_left feed_bytes chunks w = feed_chars w cs.
Proof. intros U D F E. rewrite feed_bytes_chunks, E. apply e2e_bytes; assumption. Qed.
(* 8-bit mode: bytes are the characters *)
Theorem e2e_bytes_8bit w bs : w_utf8 w = false -> feed_bytes w bs = feed_chars w bs.
Proof. intros U. unfold World.feed_bytes. rewrite U. reflexivity. Qed.
End B.
