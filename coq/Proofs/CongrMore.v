(* Proofs/CongrMore.v — well-formedness preservation of the specification (C09 at the spec level) and
   congruence for the composite operations: DECRC, resize, SM/RM, draw. *)
From Coq Require Import NArith List Bool Lia.
From MT Require Import Lib Types Charsets Tables Screen Spec Obs Stmt.
From MT.Proofs Require Import WF Aeq Loops RefineSimple RefineTab P05 Congr CongrGrid.
Import ListNotations.
Open Scope N_scope.

Definition same_geom (a a' : astate) : Prop :=
  a_cols a' = a_cols a /\ a_lines a' = a_lines a /\ ax a' = ax a /\ ay a' = ay a /\ a_margins a' = a_margins a.
Lemma AWF_same_geom a a' : AWF a -> same_geom a a' -> AWF a'.
Proof. intros [w1 w2 w3 w4 w5] [e1 [e2 [e3 [e4 e5]]]]. constructor; rewrite ?e1, ?e2, ?e3, ?e4, ?e5; assumption. Qed.
Lemma AWF_with_xy a x y : AWF a -> y < a_lines a -> x <= a_cols a -> AWF (a_xy a x y).
Proof. intros [w1 w2 w3 w4 w5] Hy Hx. constructor; assumption. Qed.

Section S.
Variable wid : cp -> N. Variable is_comb : cp -> bool. Variable nfc : str -> str.
Notation astep := (astep wid is_comb nfc).

Lemma AWF_cr a : AWF a -> AWF (a_cr a).
Proof. intros W. apply AWF_with_xy; [exact W|apply W|lia]. Qed.
Lemma AWF_cud a n : AWF a -> AWF (a_cud a n).
Proof. intros W. apply (c05_keeps_AWF wid is_comb nfc a (OCud n) W eq_refl). Qed.
Lemma AWF_cuu a n : AWF a -> AWF (a_cuu a n).
Proof. intros W. apply (c05_keeps_AWF wid is_comb nfc a (OCuu n) W eq_refl). Qed.
Lemma AWF_cup a l c : AWF a -> AWF (a_cup a l c).
Proof. intros W. apply (c05_keeps_AWF wid is_comb nfc a (OCup l c) W eq_refl). Qed.
Lemma AWF_index a : AWF a -> AWF (a_index a).
Proof.
  intros W. unfold a_index. destruct (atb a) as [t b]. destruct (ay a =? b); [|apply AWF_cud; exact W].
  apply (AWF_same_geom a); [exact W|repeat split].
Qed.
Lemma AWF_rindex a : AWF a -> AWF (a_rindex a).
Proof.
  intros W. unfold a_rindex. destruct (atb a) as [t b]. destruct (ay a =? t); [|apply AWF_cuu; exact W].
  apply (AWF_same_geom a); [exact W|repeat split].
Qed.
Lemma AWF_linefeed a : AWF a -> AWF (a_linefeed a).
Proof. intros W. unfold a_linefeed. destruct (amode (a_index a) LNM); [apply AWF_cr|]; apply AWF_index; exact W. Qed.
Lemma AWF_ich a n : AWF a -> AWF (a_ich a n).
Proof. intros W. apply (AWF_same_geom a); [exact W|repeat split]. Qed.
Lemma AWF_dirty_add a y : AWF a -> AWF (a_dirty_add a y).
Proof. intros W. apply (AWF_same_geom a); [exact W|repeat split]. Qed.
Lemma AWF_put a y x cl : AWF a -> AWF (a_put a y x cl).
Proof. intros W. apply (AWF_same_geom a); [exact W|repeat split]. Qed.
Lemma AWF_el a h : AWF a -> AWF (a_el a h).
Proof. intros W. unfold a_el. destruct (_ =? 0); [|destruct (_ =? 1); [|destruct (_ =? 2)]]; apply (AWF_same_geom a); try exact W; repeat split. Qed.
Lemma AWF_ed a h : AWF a -> AWF (a_ed a h).
Proof.
  intros W. unfold a_ed. destruct (if _ =? 0 then _ else _) as [lo hi].
  destruct ((_ =? 0) || (_ =? 1)); [apply AWF_el|]; apply (AWF_same_geom a); try exact W; repeat split.
Qed.
Lemma AWF_resize a l c : AWF a -> (match l with Some v => 1 <= v | None => True end) -> (match c with Some v => 1 <= v | None => True end) ->
  AWF (a_resize a l c).
Proof.
  intros W Hl Hc. pose proof W as [w1 w2 w3 w4 w5]. unfold a_resize.
  set (L := match l with Some v => v | None => a_lines a end). set (C := match c with Some v => v | None => a_cols a end).
  assert (HL : 1 <= L) by (unfold L; destruct l; assumption). assert (HC : 1 <= C) by (unfold C; destruct c; assumption).
  destruct ((L =? a_lines a) && (C =? a_cols a)); [exact W|].
  constructor; unfold ax, ay in *; cbn [a_cols a_lines a_cur a_margins cu_x cu_y]; try assumption; try lia; try exact I.
Qed.
Lemma AWF_restore a : AWF a -> AWF (a_restore a).
Proof.
  intros W. pose proof W as [w1 w2 w3 w4 w5]. unfold a_restore. destruct (a_sp a) as [|sp rest].
  - apply AWF_cup. constructor; assumption.
  - unfold a_vclamp. cbn [a_margins a_with_cur a_with_mode a_with_cs a_with_sp orb a_cols a_lines].
    destruct (a_margins a) as [[t b]|] eqn:EM; unfold a_y, a_xy, a_with_cur, ax, ay, aattr in *;
      constructor; unfold ax, ay; cbn [a_cols a_lines a_cur a_margins cu_x cu_y a_with_mode a_with_cs a_with_sp]; rewrite ?EM; try assumption; try lia; try exact I.
Qed.
(* a remembered width (DECCOLM) is a width some earlier well-formed state had *)
Definition ASC (a : astate) : Prop := match a_savedcols a with Some w => 1 <= w | None => True end.
Lemma savedcols_cup a l c : a_savedcols (a_cup a l c) = a_savedcols a.
Proof.
  change (a_cup a l c) with (astep a (OCup l c)). rewrite (c05_frame wid is_comb nfc a (OCup l c) eq_refl). reflexivity.
Qed.
Lemma savedcols_ed a h : a_savedcols (a_ed a h) = a_savedcols a.
Proof.
  unfold a_ed, a_el. destruct (if _ =? 0 then _ else _) as [lo hi].
  destruct ((_ =? 0) || (_ =? 1)); [destruct (_ =? 0); [|destruct (_ =? 1); [|destruct (_ =? 2)]]|]; reflexivity.
Qed.
Lemma AWF_set_mode a ms p on : AWF a -> ASC a -> AWF (a_set_mode a ms p on) /\ ASC (a_set_mode a ms p on).
Proof.
  intros W SC. unfold a_set_mode.
  set (ml := if p then map (fun m => m * 32) ms else ms).
  set (a1 := if nmem DECSCNM ml then a_all_dirty a else a).
  assert (W1 : AWF a1 /\ ASC a1) by (unfold a1; destruct (nmem DECSCNM ml); [split; [apply (AWF_same_geom a); [exact W|repeat split]|exact SC]|split; assumption]).
  destruct W1 as [W1 S1].
  set (a2 := a_with_mode a1 _).
  assert (W2 : AWF a2) by (apply (AWF_same_geom a1); [exact W1|repeat split]).
  assert (S2 : ASC a2) by exact S1.
  set (a3 := if nmem DECCOLM ml then _ else a2).
  assert (W3 : AWF a3 /\ ASC a3).
  { unfold a3. destruct (nmem DECCOLM ml); [|split; assumption].
    assert (G : forall x, AWF x -> ASC x -> AWF (a_cup (a_ed x (Some 2)) None None) /\ ASC (a_cup (a_ed x (Some 2)) None None)).
    { intros x Wx Sx. split; [apply AWF_cup; apply AWF_ed; exact Wx|].
      unfold ASC in *. rewrite savedcols_cup, savedcols_ed. exact Sx. }
    destruct on.
    - apply G.
      + apply AWF_resize; [apply (AWF_same_geom a2); [exact W2|repeat split]|exact I|cbn; lia].
      + unfold a_resize, ASC. cbn [a_lines a_cols a_with_savedcols]. pose proof (aw_cols a2 W2).
        destruct ((_ =? _) && (_ =? _)); cbn [a_savedcols a_with_savedcols]; assumption.
    - destruct (a_cols a2 =? 132); [|apply G; assumption]. unfold ASC in S2. destruct (a_savedcols a2) as [w|] eqn:ES; [|apply G; [assumption|unfold ASC; rewrite ES; exact I]].
      apply G.
      + apply (AWF_same_geom (a_resize a2 None (Some w))); [apply AWF_resize; [exact W2|exact I|exact S2]|repeat split].
      + exact I. }
  destruct W3 as [W3 S3].
  set (a4 := if nmem DECOM ml then a_cup a3 None None else a3).
  assert (W4 : AWF a4 /\ ASC a4).
  { unfold a4. destruct (nmem DECOM ml); [|split; assumption]. split; [apply AWF_cup; exact W3|].
    unfold ASC in *. rewrite savedcols_cup. exact S3. }
  destruct W4 as [W4 S4].
  set (a5 := if nmem DECSCNM ml then _ else a4).
  assert (W5 : AWF a5 /\ ASC a5).
  { unfold a5. destruct (nmem DECSCNM ml); [|split; assumption]. split; [apply (AWF_same_geom a4); [exact W4|repeat split]|exact S4]. }
  destruct W5 as [W5 S5].
  destruct (nmem DECTCEM ml); [|split; assumption]. split; [apply (AWF_same_geom a5); [exact W5|repeat split]|exact S5].
Qed.

(* ---------------- congruence of the composite operations ---------------- *)
Lemma Aeq_fields a b : Aeq a b ->
  a_cols b = a_cols a /\ a_lines b = a_lines a /\ a_cur b = a_cur a /\ a_margins b = a_margins a /\
  (forall m, amode b m = amode a m) /\ a_sp b = a_sp a /\ a_savedcols b = a_savedcols a /\ a_cs b = a_cs a /\ a_g0 b = a_g0 a /\ a_g1 b = a_g1 a.
Proof.
  intros [q1 q2 q3 q4 q5 q6 q7 q8 q9 q10 q11 q12 q13 q14 q15]. repeat split; try congruence.
  intros m. unfold amode. symmetry. apply q6.
Qed.
Lemma cg_with_mode a b m m' : Aeq a b -> seteq m m' -> Aeq (a_with_mode a m) (a_with_mode b m').
Proof. intros [q1 q2 q3 q4 q5 q6 q7 q8 q9 q10 q11 q12 q13 q14 q15] Hm. constructor; cbn; auto. Qed.
Lemma cg_with_savedcols a b v : Aeq a b -> Aeq (a_with_savedcols a v) (a_with_savedcols b v).
Proof. intros [q1 q2 q3 q4 q5 q6 q7 q8 q9 q10 q11 q12 q13 q14 q15]. constructor; cbn; auto. Qed.
Lemma cg_all_dirty a b : Aeq a b -> Aeq (a_all_dirty a) (a_all_dirty b).
Proof.
  intros [q1 q2 q3 q4 q5 q6 q7 q8 q9 q10 q11 q12 q13 q14 q15]. unfold a_all_dirty, a_dirty_range, a_with_dirty.
  constructor; cbn [a_cols a_lines a_grid a_cur a_margins a_mode a_tabs a_dirty a_cs a_g0 a_g1 a_title a_icon a_sp a_savedcols]; auto.
  rewrite q2. apply seteq_nunion. exact q8.
Qed.
Lemma cg_dirty_add a b y : Aeq a b -> Aeq (a_dirty_add a y) (a_dirty_add b y).
Proof.
  intros [q1 q2 q3 q4 q5 q6 q7 q8 q9 q10 q11 q12 q13 q14 q15]. constructor; cbn; auto. apply seteq_nadd. exact q8.
Qed.
Lemma cg_x a b x : Aeq a b -> Aeq (a_x a x) (a_x b x).
Proof.
  intros [q1 q2 q3 q4 q5 q6 q7 q8 q9 q10 q11 q12 q13 q14 q15]. unfold a_x, a_xy, a_with_cur, ax, ay, aattr. rewrite q4. constructor; cbn; auto.
Qed.
Lemma cg_put a b y x cl : Aeq a b -> Aeq (a_put a y x cl) (a_put b y x cl).
Proof.
  intros [q1 q2 q3 q4 q5 q6 q7 q8 q9 q10 q11 q12 q13 q14 q15]. constructor; cbn; auto.
  intros r c Hr Hc. destruct ((r =? y) && (c =? x)); [reflexivity|apply q3; assumption].
Qed.
Lemma cg_restore a b : AWF a -> Aeq a b -> Aeq (a_restore a) (a_restore b).
Proof.
  intros W H. start W H a b. unfold a_restore. cbn [a_sp]. destruct sp as [|spv rest].
  - apply cg_cup.
    + constructor; assumption.
    + unf. fin2 q3.
  - unf. rewrite <- ?q6. cbn [orb]. destruct ma as [[t bb]|]; bsplit; fin2 q3.
Qed.
Lemma cg_resize a b l c : AWF a -> Aeq a b -> Aeq (a_resize a l c) (a_resize b l c).
Proof.
  intros W H. destruct (Aeq_fields a b H) as [e1 [e2 [e3 [e4 [e5 _]]]]].
  unfold a_resize. rewrite e1, e2. unfold ax, ay, aattr, adc. rewrite e3, (e5 DECSCNM).
  set (L := match l with Some v => v | None => a_lines a end). set (C := match c with Some v => v | None => a_cols a end).
  destruct ((L =? a_lines a) && (C =? a_cols a)); [exact H|].
  destruct H as [q1 q2 q3 q4 q5 q6 q7 q8 q9 q10 q11 q12 q13 q14 q15].
  constructor; cbn [a_cols a_lines a_grid a_cur a_margins a_mode a_tabs a_dirty a_cs a_g0 a_g1 a_title a_icon a_sp a_savedcols]; auto; try apply seteq_refl.
  intros r cc Hr Hc. bdestruct; cbn; try reflexivity. apply q3; lia.
Qed.

Lemma cg_set_mode a b ms p on : AWF a -> ASC a -> Aeq a b -> Aeq (a_set_mode a ms p on) (a_set_mode b ms p on).
Proof.
  intros W SC H. unfold a_set_mode.
  set (ml := if p then map (fun m => m * 32) ms else ms).
  (* stage 1: dirty *)
  assert (H1 : Aeq (if nmem DECSCNM ml then a_all_dirty a else a) (if nmem DECSCNM ml then a_all_dirty b else b))
    by (destruct (nmem DECSCNM ml); [apply cg_all_dirty|]; exact H).
  assert (W1 : AWF (if nmem DECSCNM ml then a_all_dirty a else a) /\ ASC (if nmem DECSCNM ml then a_all_dirty a else a)).
  { destruct (nmem DECSCNM ml); [split; [apply (AWF_same_geom a); [exact W|repeat split]|exact SC]|split; assumption]. }
  revert H1 W1. generalize (if nmem DECSCNM ml then a_all_dirty a else a) as a1. generalize (if nmem DECSCNM ml then a_all_dirty b else b) as b1.
  intros b1 a1 H1 [W1 S1].
  (* stage 2: mode *)
  assert (H2 : Aeq (a_with_mode a1 (if on then nunion ml (a_mode a1) else ndiff (a_mode a1) ml)) (a_with_mode b1 (if on then nunion ml (a_mode b1) else ndiff (a_mode b1) ml))).
  { apply cg_with_mode; [exact H1|]. destruct on; [apply seteq_nunion|apply seteq_ndiff]; apply (q_mode _ _ H1). }
  assert (W2 : AWF (a_with_mode a1 (if on then nunion ml (a_mode a1) else ndiff (a_mode a1) ml))) by (apply (AWF_same_geom a1); [exact W1|repeat split]).
  assert (S2 : ASC (a_with_mode a1 (if on then nunion ml (a_mode a1) else ndiff (a_mode a1) ml))) by exact S1.
  revert H2 W2 S2. generalize (a_with_mode a1 (if on then nunion ml (a_mode a1) else ndiff (a_mode a1) ml)) as a2.
  generalize (a_with_mode b1 (if on then nunion ml (a_mode b1) else ndiff (a_mode b1) ml)) as b2. intros b2 a2 H2 W2 S2.
  (* stage 3: DECCOLM *)
  destruct (Aeq_fields a2 b2 H2) as [e1 [e2 [e3 [e4 [e5 [e6 [e7 _]]]]]]].
  assert (G : forall x y, AWF x -> Aeq x y -> Aeq (a_cup (a_ed x (Some 2)) None None) (a_cup (a_ed y (Some 2)) None None) /\ AWF (a_cup (a_ed x (Some 2)) None None)).
  { intros x y Wx Hxy. split; [apply cg_cup; [apply AWF_ed; exact Wx|apply cg_ed; assumption]|apply AWF_cup; apply AWF_ed; exact Wx]. }
  assert (H3 : exists a3 b3, Aeq a3 b3 /\ AWF a3 /\
      a3 = (if nmem DECCOLM ml then
              a_cup (a_ed (if on then a_resize (a_with_savedcols a2 (Some (a_cols a2))) None (Some 132)
                           else if a_cols a2 =? 132 then match a_savedcols a2 with Some w => a_with_savedcols (a_resize a2 None (Some w)) None | None => a2 end else a2) (Some 2)) None None
            else a2) /\
      b3 = (if nmem DECCOLM ml then
              a_cup (a_ed (if on then a_resize (a_with_savedcols b2 (Some (a_cols b2))) None (Some 132)
                           else if a_cols b2 =? 132 then match a_savedcols b2 with Some w => a_with_savedcols (a_resize b2 None (Some w)) None | None => b2 end else b2) (Some 2)) None None
            else b2)).
  { eexists. eexists. split; [|split; [|split; reflexivity]].
    - destruct (nmem DECCOLM ml); [|exact H2]. rewrite e1, e7.
      destruct on.
      + apply G.
        * apply AWF_resize; [apply (AWF_same_geom a2); [exact W2|repeat split]|exact I|cbn; lia].
        * apply cg_resize; [apply (AWF_same_geom a2); [exact W2|repeat split]|apply cg_with_savedcols; exact H2].
      + destruct (a_cols a2 =? 132); [|apply G; assumption]. unfold ASC in S2.
        destruct (a_savedcols a2) as [w|]; [|apply G; assumption].
        apply G.
        * apply (AWF_same_geom (a_resize a2 None (Some w))); [apply AWF_resize; [exact W2|exact I|exact S2]|repeat split].
        * apply cg_with_savedcols. apply cg_resize; assumption.
    - destruct (nmem DECCOLM ml); [|exact W2].
      destruct on.
      + apply G with (y := a_resize (a_with_savedcols a2 (Some (a_cols a2))) None (Some 132)).
        * apply AWF_resize; [apply (AWF_same_geom a2); [exact W2|repeat split]|exact I|cbn; lia].
        * apply Aeq_refl.
      + destruct (a_cols a2 =? 132); [|apply (G a2 a2 W2 (Aeq_refl a2))]. unfold ASC in S2.
        destruct (a_savedcols a2) as [w|]; [|apply (G a2 a2 W2 (Aeq_refl a2))].
        apply G with (y := a_with_savedcols (a_resize a2 None (Some w)) None); [|apply Aeq_refl].
        apply (AWF_same_geom (a_resize a2 None (Some w))); [apply AWF_resize; [exact W2|exact I|exact S2]|repeat split]. }
  destruct H3 as [a3 [b3 [H3 [W3 [Ea3 Eb3]]]]]. rewrite <- Ea3, <- Eb3. clear Ea3 Eb3.
  (* stage 4: DECOM homes *)
  assert (H4 : Aeq (if nmem DECOM ml then a_cup a3 None None else a3) (if nmem DECOM ml then a_cup b3 None None else b3))
    by (destruct (nmem DECOM ml); [apply cg_cup|]; assumption).
  assert (W4 : AWF (if nmem DECOM ml then a_cup a3 None None else a3)) by (destruct (nmem DECOM ml); [apply AWF_cup|]; exact W3).
  revert H4 W4. generalize (if nmem DECOM ml then a_cup a3 None None else a3) as a4. generalize (if nmem DECOM ml then a_cup b3 None None else b3) as b4.
  intros b4 a4 H4 W4.
  (* stage 5: DECSCNM flips every cell and the current rendition *)
  assert (H5 : Aeq (if nmem DECSCNM ml then a_with_attr (a_with_grid a4 (fun r c => with_reverse (a_grid a4 r c) on)) (with_reverse (aattr a4) on) else a4)
                   (if nmem DECSCNM ml then a_with_attr (a_with_grid b4 (fun r c => with_reverse (a_grid b4 r c) on)) (with_reverse (aattr b4) on) else b4)).
  { destruct (nmem DECSCNM ml); [|exact H4].
    destruct H4 as [q1 q2 q3 q4 q5 q6 q7 q8 q9 q10 q11 q12 q13 q14 q15]. unfold a_with_attr, a_with_grid, a_with_cur, ax, ay, aattr. rewrite q4.
    constructor; cbn [a_cols a_lines a_grid a_cur a_margins a_mode a_tabs a_dirty a_cs a_g0 a_g1 a_title a_icon a_sp a_savedcols]; auto.
    intros r c Hr Hc. rewrite q3 by assumption. reflexivity. }
  revert H5. generalize (if nmem DECSCNM ml then a_with_attr (a_with_grid a4 (fun r c => with_reverse (a_grid a4 r c) on)) (with_reverse (aattr a4) on) else a4) as a5.
  generalize (if nmem DECSCNM ml then a_with_attr (a_with_grid b4 (fun r c => with_reverse (a_grid b4 r c) on)) (with_reverse (aattr b4) on) else b4) as b5.
  intros b5 a5 H5.
  destruct (nmem DECTCEM ml); [|exact H5].
  destruct H5 as [q1 q2 q3 q4 q5 q6 q7 q8 q9 q10 q11 q12 q13 q14 q15]. unfold a_with_cur, ax, ay, aattr. rewrite q4.
  constructor; cbn [a_cols a_lines a_grid a_cur a_margins a_mode a_tabs a_dirty a_cs a_g0 a_g1 a_title a_icon a_sp a_savedcols]; auto.
Qed.

(* ---------------- draw ---------------- *)
Lemma AWF_x a x : AWF a -> x <= a_cols a -> AWF (a_x a x).
Proof. intros W Hx. apply AWF_with_xy; [exact W|apply W|exact Hx]. Qed.
Definition pre_wrap (a : astate) (w : N) : astate :=
  if ax a =? a_cols a then
    if amode a DECAWM then a_linefeed (a_cr (a_dirty_add a (ay a))) else if 0 <? w then a_x a (ax a - w) else a
  else a.
Lemma AWF_pre_wrap a w : AWF a -> AWF (pre_wrap a w).
Proof.
  intros W. unfold pre_wrap. destruct (ax a =? a_cols a); [|exact W].
  destruct (amode a DECAWM); [apply AWF_linefeed; apply AWF_cr; apply AWF_dirty_add; exact W|].
  destruct (0 <? w); [|exact W]. apply AWF_x; [exact W|]. pose proof (aw_x a W). lia.
Qed.
Lemma cg_pre_wrap a b w : AWF a -> Aeq a b -> Aeq (pre_wrap a w) (pre_wrap b w).
Proof.
  intros W H. destruct (Aeq_fields a b H) as [e1 [e2 [e3 [e4 [e5 _]]]]].
  unfold pre_wrap, ax, ay. rewrite e1, e3, (e5 DECAWM). fold (ax a) (ay a).
  destruct (ax a =? a_cols a); [|exact H].
  destruct (amode a DECAWM).
  - apply cg_linefeed; [apply AWF_cr; apply AWF_dirty_add; exact W|]. apply cg_cr. apply cg_dirty_add. exact H.
  - destruct (0 <? w); [|exact H]. apply cg_x. exact H.
Qed.
Definition place (a : astate) (ch : cp) (w : N) : astate :=
  if w =? 1 then a_put a (ay a) (ax a) (with_data (aattr a) [ch])
  else if w =? 2 then
    let a1 := a_put a (ay a) (ax a) (with_data (aattr a) [ch]) in
    if ax a1 + 1 <? a_cols a1 then a_put a1 (ay a1) (ax a1 + 1) (with_data (aattr a1) []) else a1
  else if (w =? 0) && is_comb ch then
    if 0 <? ax a then
      let old := a_grid a (ay a) (ax a - 1) in a_put a (ay a) (ax a - 1) (with_data old (nfc (c_data old) ++ [ch]))
    else if 0 <? ay a then
      let old := a_grid a (ay a - 1) (a_cols a - 1) in
      a_dirty_add (a_put a (ay a - 1) (a_cols a - 1) (with_data old (nfc (c_data old) ++ [ch]))) (ay a - 1)
    else a
  else a.
Lemma AWF_place a ch w : AWF a -> AWF (place a ch w).
Proof.
  intros W. unfold place. destruct (w =? 1); [apply AWF_put; exact W|].
  destruct (w =? 2); [destruct (_ <? _); repeat apply AWF_put; exact W|].
  destruct ((w =? 0) && is_comb ch); [|exact W].
  destruct (0 <? ax a); [apply AWF_put; exact W|]. destruct (0 <? ay a); [apply AWF_dirty_add; apply AWF_put; exact W|exact W].
Qed.
Lemma place_geom a ch w : ax (place a ch w) = ax a /\ ay (place a ch w) = ay a /\ a_cols (place a ch w) = a_cols a.
Proof.
  unfold place. destruct (w =? 1); [repeat split|]. destruct (w =? 2); [destruct (_ <? _); repeat split|].
  destruct ((w =? 0) && is_comb ch); [|repeat split]. destruct (0 <? ax a); [repeat split|]. destruct (0 <? ay a); repeat split.
Qed.
Lemma cg_place a b ch w : AWF a -> Aeq a b -> Aeq (place a ch w) (place b ch w).
Proof.
  intros W H. destruct (Aeq_fields a b H) as [e1 [e2 [e3 [e4 [e5 _]]]]]. pose proof W as [w1 w2 w3 w4 w5].
  unfold place. unfold ax, ay, aattr. cbn [a_cur a_put a_with_grid a_cols]. rewrite e1, e3. fold (ax a) (ay a) (aattr a).
  destruct (w =? 1); [apply cg_put; exact H|].
  destruct (w =? 2).
  { destruct (ax a + 1 <? a_cols a); repeat apply cg_put; exact H. }
  destruct ((w =? 0) && is_comb ch); [|exact H].
  destruct (N.ltb_spec 0 (ax a)).
  - rewrite <- (q_grid _ _ H (ay a) (ax a - 1)) by lia. apply cg_put; exact H.
  - destruct (N.ltb_spec 0 (ay a)); [|exact H].
    rewrite <- (q_grid _ _ H (ay a - 1) (a_cols a - 1)) by lia. apply cg_dirty_add. apply cg_put. exact H.
Qed.
Lemma draw_char_stages a ch :
  a_draw_char wid is_comb nfc a ch =
  let w := wid ch in
  let a1 := pre_wrap a w in
  let a2 := if amode a1 IRM && (0 <? w) then a_ich a1 (Some w) else a1 in
  let a3 := place a2 ch w in
  if 0 <? w then a_x a3 (N.min (ax a3 + w) (a_cols a3)) else a3.
Proof. reflexivity. Qed.
Lemma AWF_draw_char a ch : AWF a -> AWF (a_draw_char wid is_comb nfc a ch).
Proof.
  intros W. rewrite draw_char_stages. cbv zeta.
  set (a1 := pre_wrap a (wid ch)). assert (W1 : AWF a1) by (apply AWF_pre_wrap; exact W).
  set (a2 := if amode a1 IRM && (0 <? wid ch) then a_ich a1 (Some (wid ch)) else a1).
  assert (W2 : AWF a2) by (unfold a2; destruct (amode a1 IRM && (0 <? wid ch)); [apply AWF_ich|]; exact W1).
  set (a3 := place a2 ch (wid ch)). assert (W3 : AWF a3) by (apply AWF_place; exact W2).
  destruct (0 <? wid ch); [|exact W3]. apply AWF_x; [exact W3|lia].
Qed.
Lemma cg_draw_char a b ch : AWF a -> Aeq a b -> Aeq (a_draw_char wid is_comb nfc a ch) (a_draw_char wid is_comb nfc b ch).
Proof.
  intros W H. rewrite !draw_char_stages. cbv zeta.
  pose proof (cg_pre_wrap a b (wid ch) W H) as H1. pose proof (AWF_pre_wrap a (wid ch) W) as W1.
  revert H1 W1. generalize (pre_wrap a (wid ch)) as a1. generalize (pre_wrap b (wid ch)) as b1. intros b1 a1 H1 W1.
  destruct (Aeq_fields a1 b1 H1) as [_ [_ [_ [_ [e5 _]]]]]. rewrite (e5 IRM).
  assert (H2 : Aeq (if amode a1 IRM && (0 <? wid ch) then a_ich a1 (Some (wid ch)) else a1) (if amode a1 IRM && (0 <? wid ch) then a_ich b1 (Some (wid ch)) else b1))
    by (destruct (amode a1 IRM && (0 <? wid ch)); [apply cg_ich|]; assumption).
  assert (W2 : AWF (if amode a1 IRM && (0 <? wid ch) then a_ich a1 (Some (wid ch)) else a1))
    by (destruct (amode a1 IRM && (0 <? wid ch)); [apply AWF_ich|]; exact W1).
  revert H2 W2. generalize (if amode a1 IRM && (0 <? wid ch) then a_ich a1 (Some (wid ch)) else a1) as a2.
  generalize (if amode a1 IRM && (0 <? wid ch) then a_ich b1 (Some (wid ch)) else b1) as b2. intros b2 a2 H2 W2.
  pose proof (cg_place a2 b2 ch (wid ch) W2 H2) as H3.
  revert H3. generalize (place a2 ch (wid ch)) as a3. generalize (place b2 ch (wid ch)) as b3. intros b3 a3 H3.
  destruct (0 <? wid ch); [|exact H3].
  destruct (Aeq_fields a3 b3 H3) as [e1 [_ [e3 _]]]. unfold ax. rewrite e1, e3. apply cg_x. exact H3.
Qed.
Lemma AWF_draw_chars cs : forall a, AWF a -> AWF (fold_left (a_draw_char wid is_comb nfc) cs a).
Proof. induction cs as [|c cs IH]; intros a W; [exact W|]. cbn [fold_left]. apply IH. apply AWF_draw_char. exact W. Qed.
Lemma cg_draw_chars cs : forall a b, AWF a -> Aeq a b ->
  Aeq (fold_left (a_draw_char wid is_comb nfc) cs a) (fold_left (a_draw_char wid is_comb nfc) cs b).
Proof.
  induction cs as [|c cs IH]; intros a b W H; [exact H|]. cbn [fold_left].
  apply IH; [apply AWF_draw_char; exact W|apply cg_draw_char; assumption].
Qed.
Lemma AWF_draw a t : AWF a -> AWF (a_draw wid is_comb nfc a t).
Proof. intros W. unfold a_draw. apply AWF_dirty_add. apply AWF_draw_chars. exact W. Qed.
Lemma cg_draw a b t : AWF a -> Aeq a b -> Aeq (a_draw wid is_comb nfc a t) (a_draw wid is_comb nfc b t).
Proof.
  intros W H. destruct (Aeq_fields a b H) as [_ [_ [_ [_ [_ [_ [_ [e8 [e9 e10]]]]]]]]].
  unfold a_draw.
  assert (T : map (a_translate b) t = map (a_translate a) t).
  { apply map_ext. intros c. unfold a_translate. rewrite e8, e9, e10. reflexivity. }
  rewrite T.
  pose proof (cg_draw_chars (map (a_translate a) t) a b W H) as G.
  revert G. generalize (fold_left (a_draw_char wid is_comb nfc) (map (a_translate a) t) a) as x.
  generalize (fold_left (a_draw_char wid is_comb nfc) (map (a_translate a) t) b) as y. intros y x G.
  destruct (Aeq_fields x y G) as [_ [_ [e3 _]]]. unfold ay. rewrite e3. apply cg_dirty_add. exact G.
Qed.
End S.
