(* Proofs/PSafe.v — C01, arithmetic half: in every reachable state no checked operation of the Rust text fails.
   [step_ok] (Safe.v) holds whenever the state is well-formed, the number of lines is at most BND = 2^31 - 10000 (any number
   of columns) and the numeric arguments are absent or at most 9999 (resize: lines between 1 and BND, columns >= 1); lifted
   over the recogniser and the decoder to every byte / character / API history. *)
From Coq Require Import NArith List Bool Lia ZifyBool.
From MT Require Import Lib Types Charsets Tables Screen Parser Utf8 World Spec Obs Stmt Safe.
From MT.Proofs Require Import WF Aeq Loops View RefineSimple RefineErase RefineShift RefineScroll P05 Congr CongrGrid CongrMore
  SpecAll RefineReset RefineRestore RefineResize RefineDraw RefineModes RefineAll RunAll Stream Recog P17 P01.
Import ListNotations.
Open Scope N_scope.

Definition BND : N := 2147473648.          (* 2^31 - 10000 *)
Definition Bn (s : screen) : Prop := lines s <= BND.
(* same geometry *)
Definition geq (s' s : screen) : Prop := columns s' = columns s /\ lines s' = lines s /\ saved_columns s' = saved_columns s.
Definition small (n : option N) : Prop := match n with Some a => a <= 9999 | None => True end.

Ltac consts := unfold fits, small in *; unfold BND, I32, U32 in *.

Section S.
Variable wid : cp -> N. Variable is_comb : cp -> bool. Variable nfc : str -> str.
Hypothesis wid_le_2 : forall c, wid c <= 2.
Notation step := (step wid is_comb nfc).
Notation step_ok := (step_ok wid is_comb nfc).

Lemma nhat_small n : small n -> 1 <= nhat n <= 9999.
Proof. unfold nhat, small. destruct n as [a|]; [|lia]. intros H. destruct (N.ltb_spec 0 a); lia. Qed.
Lemma one_based_small n : small n -> 1 <= one_based n <= 9999.
Proof. unfold one_based, small. destruct n as [a|]; [|lia]. intros H. destruct (N.eqb_spec a 0); lia. Qed.

Lemma hb_ok_WF s : WF s -> hb_ok s = true.
Proof. intros W. pose proof (wf_cols s W). unfold hb_ok. lia. Qed.
Lemma vb_ok_WF s um : WF s -> vb_ok s um = true.
Proof. intros W. pose proof (wf_lines s W). unfold vb_ok. destruct (margins s); [destruct (_ || _)|]; lia. Qed.

Lemma cup_ok s l c : WF s -> Bn s -> small l -> small c -> cursor_position_ok s l c = true.
Proof.
  intros W Bl Hl Hc. unfold Bn in Bl. pose proof (one_based_small l Hl). pose proof (one_based_small c Hc).
  pose proof (wf_margins s W) as M. unfold margins_wf in M. pose proof (wf_lines s W).
  unfold cursor_position_ok. cbv zeta. rewrite (hb_ok_WF s W), (vb_ok_WF s false W).
  consts. destruct (margins s) as [[t b]|].
  - destruct (has_mode s DECOM).
    + destruct (one_based l <? 2147483648) eqn:E1; destruct ((2147483648 <? one_based l) || (b <? one_based l - 1 + t)); lia.
    + lia.
  - lia.
Qed.

Ltac geo W B := pose proof (wf_cols _ W); pose proof (wf_lines _ W); pose proof (wf_x _ W); pose proof (wf_y _ W);
  let M := fresh "M" in pose proof (wf_margins _ W) as M; unfold margins_wf in M; unfold Bn in B.

Lemma WF_set_margins_some s t b : WF s -> t < b -> b <= lines s - 1 -> WF (set_margins_f s (Some (t, b))).
Proof. intros [w1 w2 w3 w4 w5 w6 w7 w8] H1 H2. constructor; try assumption. unfold margins_wf. cbn. split; assumption. Qed.
Lemma WF_set_margins_none s : WF s -> WF (set_margins_f s None).
Proof. intros [w1 w2 w3 w4 w5 w6 w7 w8]. constructor; try assumption. exact I. Qed.

Lemma stbm_ok s t b : WF s -> Bn s -> small t -> small b -> set_margins_ok s t b = true.
Proof.
  intros W B Ht Hb. pose proof B as B0. geo W B. unfold set_margins_ok.
  destruct (_ && _); [reflexivity|].
  destruct (margins_or_full s) as [mt mb] eqn:EM. destruct (margins_or_full_wf s mt mb W EM) as [m1 m2]. cbv zeta.
  set (t' := match t with None => mt | Some t0 => _ end). set (b' := match b with None => mb | Some b0 => _ end).
  assert (Hb' : b' <= lines s - 1) by (unfold b'; destruct b as [b0|]; [destruct (I32 <? b0)|]; lia).
  assert (E : (1 <=? lines s) && (lines s <? I32) && match t with Some t0 => negb (t0 =? I32) | None => true end &&
              match b with Some b0 => negb (b0 =? I32) | None => true end = true).
  { consts. destruct t, b; lia. }
  rewrite E. cbn [andb]. destruct (N.leb_spec (t' + 1) b'); [|reflexivity].
  apply cup_ok; try exact I; [apply WF_set_margins_some; [exact W|lia|exact Hb']|exact B0].
Qed.

Lemma cud_ok s n : WF s -> Bn s -> small n -> cursor_down_ok s n = true.
Proof. intros W B Hn. geo W B. pose proof (nhat_small n Hn). unfold cursor_down_ok. consts. destruct (margins s); cbv iota; lia. Qed.
Lemma cuf_ok s n : WF s -> Bn s -> small n -> cursor_forward_ok s n = true.
Proof. intros W B Hn. geo W B. unfold cursor_forward_ok, hb_ok. lia. Qed.
Lemma cub_ok s n : WF s -> cursor_back_ok s n = true.
Proof. intros W. pose proof (wf_cols _ W). unfold cursor_back_ok, hb_ok. destruct (N.eqb_spec (cx s) (columns s)); lia. Qed.
Lemma vpa_ok s n : WF s -> Bn s -> small n -> cursor_to_line_ok s n = true.
Proof.
  intros W B Hn. rewrite <- (vb_ok_WF s false W). geo W B. unfold cursor_to_line_ok. rewrite (vb_ok_WF s false W).
  destruct (has_mode s DECOM); [|reflexivity]. destruct (margins s) as [[t b]|]; [|reflexivity]. consts. destruct n; lia.
Qed.
Lemma index_ok_WF s : WF s -> Bn s -> index_ok s = true.
Proof.
  intros W B. pose proof (cud_ok s None W B I) as C. geo W B. unfold index_ok. destruct (margins_or_full s) as [t b] eqn:EM.
  destruct (margins_or_full_wf s t b W EM). rewrite C. consts. destruct (cy s =? b); lia.
Qed.
Lemma rindex_ok s : WF s -> Bn s -> reverse_index_ok s = true.
Proof.
  intros W B. geo W B. unfold reverse_index_ok. destruct (margins_or_full s) as [t b] eqn:EM.
  destruct (margins_or_full_wf s t b W EM). consts. destruct (margins s); destruct (cy s =? t); cbv iota; lia.
Qed.
Lemma shift_chars_ok_WF s n : WF s -> Bn s -> small n -> shift_chars_ok s n = true.
Proof. reflexivity. Qed.
Lemma shift_lines_ok_gen s n : WF s -> Bn s -> nhat n <= lines s + 9999 -> shift_lines_ok s n = true.
Proof.
  intros W B Hn. geo W B. unfold shift_lines_ok. destruct (margins_or_full s) as [t b] eqn:EM.
  destruct (margins_or_full_wf s t b W EM). consts. destruct ((t <=? cy s) && (cy s <=? b)); lia.
Qed.
Lemma shift_lines_ok_WF s n : WF s -> Bn s -> small n -> shift_lines_ok s n = true.
Proof. intros W B Hn. pose proof (nhat_small n Hn). apply shift_lines_ok_gen; try assumption. lia. Qed.
Lemma el_ok s h : WF s -> Bn s -> erase_in_line_ok s h = true.
Proof. reflexivity. Qed.
Lemma ed_ok s h : WF s -> Bn s -> erase_in_display_ok s h = true.
Proof.
  intros W B. unfold erase_in_display_ok, erase_in_line_ok. cbv zeta. geo W B. consts.
  destruct (_ =? 0); destruct (_ || _); lia.
Qed.
Lemma ech_ok s n : WF s -> Bn s -> small n -> erase_characters_ok s n = true.
Proof. reflexivity. Qed.

(* ---- frames: which functions leave the geometry alone ---- *)
Lemma geq_refl s : geq s s. Proof. repeat split. Qed.
Lemma geq_trans a b c : geq a b -> geq b c -> geq a c.
Proof. intros [a1 [a2 a3]] [b1 [b2 b3]]. repeat split; congruence. Qed.
Lemma Bn_geq s' s : geq s' s -> Bn s -> Bn s'.
Proof. intros [e1 [e2 e3]] b. unfold Bn in *. rewrite e2. exact b. Qed.
Lemma geq_set_cur s cu : geq (set_cur s cu) s. Proof. repeat split. Qed.
Lemma geq_cup s l c : geq (cursor_position s l c) s.
Proof. destruct (cup_frame s l c) as [cu E]. rewrite E. apply geq_set_cur. Qed.
Lemma geq_sgr s ps : geq (select_graphic_rendition s ps) s.
Proof. unfold select_graphic_rendition. destruct ps as [|a [|b r]]; try destruct (a =? 0); repeat split. Qed.
Lemma geq_sm_pre s ml : geq (sm_pre s ml) s.
Proof. unfold sm_pre. destruct (nmem DECSCNM ml); repeat split. Qed.
Lemma geq_rm_pre s ml : geq (rm_pre s ml) s.
Proof. unfold rm_pre. destruct (nmem DECSCNM ml); repeat split. Qed.
Lemma geq_sm_post s ml : geq (sm_post s ml) s.
Proof.
  unfold sm_post.
  set (s1 := if nmem DECOM ml then cursor_position s None None else s).
  assert (G1 : geq s1 s) by (unfold s1; destruct (nmem DECOM ml); [apply geq_cup|apply geq_refl]). clearbody s1.
  set (s2 := if nmem DECSCNM ml then _ else s1).
  assert (G2 : geq s2 s).
  { unfold s2. destruct (nmem DECSCNM ml); [|exact G1]. eapply geq_trans; [apply geq_sgr|]. eapply geq_trans; [|exact G1]. repeat split. }
  clearbody s2. destruct (nmem DECTCEM ml); [|exact G2]. eapply geq_trans; [|exact G2]. repeat split.
Qed.
Lemma geq_rm_post s ml : geq (rm_post s ml) s.
Proof.
  unfold rm_post.
  set (s1 := if nmem DECOM ml then cursor_position s None None else s).
  assert (G1 : geq s1 s) by (unfold s1; destruct (nmem DECOM ml); [apply geq_cup|apply geq_refl]). clearbody s1.
  set (s2 := if nmem DECSCNM ml then _ else s1).
  assert (G2 : geq s2 s).
  { unfold s2. destruct (nmem DECSCNM ml); [|exact G1]. eapply geq_trans; [apply geq_sgr|]. eapply geq_trans; [|exact G1]. repeat split. }
  clearbody s2. destruct (nmem DECTCEM ml); [|exact G2]. eapply geq_trans; [|exact G2]. repeat split.
Qed.
Lemma geq_cud s n : geq (cursor_down s n) s. Proof. repeat split. Qed.
Lemma geq_cuu s n : geq (cursor_up s n) s. Proof. repeat split. Qed.
Lemma geq_index s : geq (index s) s.
Proof. unfold index. destruct (margins_or_full s) as [t b]. destruct (cy s =? b); repeat split. Qed.
Lemma geq_linefeed s : geq (linefeed s) s.
Proof. unfold linefeed. destruct (has_mode (index s) LNM); [eapply geq_trans; [|apply geq_index]; repeat split|apply geq_index]. Qed.
Lemma geq_rindex s : geq (reverse_index s) s.
Proof. unfold reverse_index. destruct (margins_or_full s) as [t b]. destruct (cy s =? t); repeat split. Qed.
Lemma geq_ich s n : geq (insert_characters s n) s. Proof. repeat split. Qed.
Lemma geq_dch s n : geq (delete_characters s n) s. Proof. repeat split. Qed.
Lemma geq_il s n : geq (insert_lines s n) s.
Proof. unfold insert_lines. destruct (margins_or_full s) as [t b]. destruct (_ && _); repeat split. Qed.
Lemma geq_dl s n : geq (delete_lines s n) s.
Proof. unfold delete_lines. destruct (margins_or_full s) as [t b]. destruct (_ && _); repeat split. Qed.
Lemma geq_el s h : geq (erase_in_line s h) s.
Proof. unfold erase_in_line. destruct (_ =? 0); [repeat split|]. destruct (_ =? 1); [repeat split|]. destruct (_ =? 2); repeat split. Qed.
Lemma geq_ed s h : geq (erase_in_display s h) s.
Proof.
  unfold erase_in_display. cbv zeta.
  destruct (if _ =? 0 then _ else _) as [lo hi]. destruct (_ || _); [|repeat split].
  eapply geq_trans; [apply geq_el|]. repeat split.
Qed.

Lemma geq_hb s : geq (ensure_hbounds s) s. Proof. repeat split. Qed.
Lemma geq_vb s b : geq (ensure_vbounds s b) s.
Proof. unfold ensure_vbounds. destruct (match margins s with Some _ => _ | None => _ end) as [t bt]. repeat split. Qed.
Lemma geq_restore s : geq (restore_cursor s) s.
Proof.
  unfold restore_cursor. destruct (savepoints s) as [|sp rest].
  - eapply geq_trans; [apply geq_cup|]. eapply geq_trans; [apply geq_rm_post|]. apply geq_rm_pre.
  - cbv zeta. eapply geq_trans; [apply geq_vb|]. eapply geq_trans; [apply geq_hb|]. eapply geq_trans; [apply geq_set_cur|].
    set (s1 := set_charset _ _). assert (G1 : geq s1 s) by repeat split. clearbody s1.
    set (s2 := if sp_origin sp then _ else s1).
    assert (G2 : geq s2 s).
    { unfold s2. destruct (sp_origin sp); [|exact G1]. eapply geq_trans; [apply geq_sm_post|]. eapply geq_trans; [apply geq_sm_pre|exact G1]. }
    clearbody s2. destruct (sp_wrap sp); [|exact G2]. eapply geq_trans; [apply geq_sm_post|]. eapply geq_trans; [apply geq_sm_pre|exact G2].
Qed.

Lemma restore_ok s : WF s -> Bn s -> restore_cursor_ok s = true.
Proof.
  intros W B. unfold restore_cursor_ok. destruct (savepoints s) as [|sp rest].
  - destruct (pre_stage s [DECOM] false W) as [W1 _]. change (m_pre s [DECOM] false) with (rm_pre s [DECOM]) in W1.
    pose proof (Bn_geq _ _ (geq_rm_pre s [DECOM]) B) as B1.
    rewrite (cup_ok _ None None W1 B1 I I).
    assert (E : rm_post (rm_pre s [DECOM]) [DECOM] = cursor_position (rm_pre s [DECOM]) None None) by reflexivity.
    rewrite E. apply cup_ok; try exact I; [apply (WF_cup wid is_comb nfc); exact W1|exact (Bn_geq _ _ (geq_cup _ _ _) B1)].
  - cbv zeta. set (s1 := set_charset _ _).
    assert (W1 : WF s1) by (apply (WF_frame s); [exact W|reflexivity..]).
    assert (G1 : geq s1 s) by repeat split. clearbody s1.
    assert (O1 : (if sp_origin sp then cursor_position_ok (sm_pre s1 [DECOM]) None None else true) = true).
    { destruct (sp_origin sp); [|reflexivity]. destruct (pre_stage s1 [DECOM] true W1) as [W2 _].
      change (m_pre s1 [DECOM] true) with (sm_pre s1 [DECOM]) in W2.
      apply cup_ok; try exact I; [exact W2|]. apply (Bn_geq _ s); [|exact B]. eapply geq_trans; [apply geq_sm_pre|exact G1]. }
    rewrite O1. cbn [andb].
    set (s2 := if sp_origin sp then _ else s1).
    assert (G2 : geq s2 s).
    { unfold s2. destruct (sp_origin sp); [|exact G1]. eapply geq_trans; [apply geq_sm_post|]. eapply geq_trans; [apply geq_sm_pre|exact G1]. }
    clearbody s2. set (s3 := if sp_wrap sp then _ else s2).
    assert (G3 : geq s3 s).
    { unfold s3. destruct (sp_wrap sp); [|exact G2]. eapply geq_trans; [apply geq_sm_post|]. eapply geq_trans; [apply geq_sm_pre|exact G2]. }
    clearbody s3. destruct G3 as [e1 [e2 _]]. pose proof (wf_cols s W). pose proof (wf_lines s W).
    unfold hb_ok, vb_ok. cbn [columns lines margins set_cur]. rewrite e1, e2. destruct (margins s3); cbn [orb]; lia.
Qed.

Lemma resize_geo s l c :
  columns (resize s l c) = match c with Some v => v | None => columns s end /\
  lines (resize s l c) = match l with Some v => v | None => lines s end /\
  saved_columns (resize s l c) = saved_columns s.
Proof.
  unfold resize. set (L := match l with Some v => v | None => lines s end). set (C := match c with Some v => v | None => columns s end).
  destruct ((L =? lines s) && (C =? columns s)) eqn:E.
  - apply andb_true_iff in E. destruct E as [E1 E2]. apply N.eqb_eq in E1, E2. rewrite E1, E2. repeat split.
  - cbv zeta. set (s1 := add_dirty_range s 0 L).
    set (s2 := if L <? lines s1 then _ else s1).
    assert (G2 : geq s2 s).
    { unfold s2. destruct (L <? lines s1); [|repeat split].
      eapply geq_trans; [apply geq_restore|]. eapply geq_trans; [apply geq_dl|]. eapply geq_trans; [apply geq_cup|]. repeat split. }
    clearbody s2. set (s3 := if C <? columns s2 then _ else s2).
    assert (G3 : saved_columns s3 = saved_columns s) by (unfold s3; destruct (C <? columns s2); [cbn|]; apply G2).
    clearbody s3.
    set (s5 := set_dirty (set_size s3 L C) _).
    assert (E5 : columns s5 = C /\ lines s5 = L /\ saved_columns s5 = saved_columns s) by (repeat split; exact G3).
    clearbody s5. destruct E5 as [f1 [f2 f3]].
    assert (M : set_margins s5 None None = set_margins_f s5 None) by reflexivity. rewrite M.
    destruct (geq_vb (ensure_hbounds (set_margins_f s5 None)) false) as [g1 [g2 g3]]. rewrite g1, g2, g3. cbn. repeat split; assumption.
Qed.

Definition dim_ok (v : option N) : Prop := match v with Some a => 1 <= a <= BND | None => True end.      (* lines *)
Definition dim_c (v : option N) : Prop := match v with Some a => 1 <= a | None => True end.             (* columns *)
Lemma resize_ok_WF s l c : WF s -> Bn s -> dim_ok l -> dim_c c -> resize_ok s l c = true.
Proof.
  intros W B Hl Hc. pose proof B as B0. geo W B. unfold resize_ok.
  set (L := match l with Some v => v | None => lines s end). set (C := match c with Some v => v | None => columns s end).
  assert (HL : 1 <= L) by (unfold L; destruct l; cbn in Hl; lia). assert (HC : 1 <= C) by (unfold C; destruct c; cbn in Hc; lia).
  destruct (_ && _); [reflexivity|]. cbv zeta.
  assert (E : (1 <=? C) && (1 <=? L) = true) by lia.
  rewrite <- andb_assoc, E, andb_true_r.
  change (lines (add_dirty_range s 0 L)) with (lines s).
  destruct (N.ltb_spec L (lines s)) as [Hlt|]; [|reflexivity].
  assert (W1 : WF (add_dirty_range s 0 L)) by (apply add_dirty_range_WF; [exact W|lia]).
  set (s2 := save_cursor (set_margins_f (add_dirty_range s 0 L) None)).
  assert (W2 : WF s2) by (apply (WF_frame (set_margins_f (add_dirty_range s 0 L) None)); [apply WF_set_margins_none; exact W1|reflexivity..]).
  assert (G2 : geq s2 s) by repeat split.
  rewrite (cup_ok s2 (Some 0) (Some 0) W2 (Bn_geq _ _ G2 B0)) by (cbn; lia). cbn [andb].
  pose proof (WF_cup wid is_comb nfc s2 (Some 0) (Some 0) W2) as W3.
  assert (G3 : geq (cursor_position s2 (Some 0) (Some 0)) s) by (eapply geq_trans; [apply geq_cup|exact G2]).
  set (s3 := cursor_position s2 (Some 0) (Some 0)) in *. clearbody s3.
  pose proof (Bn_geq _ _ G3 B0) as B3.
  rewrite (shift_lines_ok_gen s3 _ W3 B3) by (unfold nhat; destruct (0 <? lines s3 - L); pose proof (wf_lines s3 W3); lia).
  cbn [andb]. apply restore_ok; [apply WF_dl_gen; exact W3|]. apply (Bn_geq _ s3); [apply geq_dl|exact B3].
Qed.

Lemma colm_tail_ok sr ml : WF sr -> Bn sr ->
  cursor_position_ok (erase_in_display sr (Some 2)) None None &&
  (if nmem DECOM ml then cursor_position_ok (cursor_position (erase_in_display sr (Some 2)) None None) None None else true) = true.
Proof.
  intros Wr Br.
  pose proof (WF_ed wid is_comb nfc sr (Some 2) Wr) as We. change (Screen.step wid is_comb nfc sr (OEd (Some 2))) with (erase_in_display sr (Some 2)) in We.
  pose proof (Bn_geq _ _ (geq_ed sr (Some 2)) Br) as Be.
  rewrite (cup_ok _ None None We Be I I). cbn [andb].
  destruct (nmem DECOM ml); [|reflexivity].
  apply cup_ok; try exact I; [apply (WF_cup wid is_comb nfc); exact We|exact (Bn_geq _ _ (geq_cup _ _ _) Be)].
Qed.

Lemma set_mode_ok_WF s ms p : WF s -> Bn s -> set_mode_ok s ms p = true.
Proof.
  intros W B. unfold set_mode_ok. cbv zeta. set (ml := enc_modes ms p).
  destruct (pre_stage s ml true W) as [W1 _]. change (m_pre s ml true) with (sm_pre s ml) in W1.
  pose proof (Bn_geq _ _ (geq_sm_pre s ml) B) as B1. set (s1 := sm_pre s ml) in *. clearbody s1.
  destruct (nmem DECCOLM ml).
  - set (s0 := set_saved_columns s1 (Some (columns s1))).
    assert (W0 : WF s0) by (apply (WF_frame s1); [exact W1|reflexivity..]).
    assert (B0 : Bn s0) by exact B1.
    rewrite (resize_ok_WF s0 None (Some 132) W0 B0 I) by (cbn; lia). cbn [andb].
    assert (H132 : 1 <= 132) by lia.
    destruct (resize_spec s0 None (Some 132) W0 I H132) as [_ Wr].
    destruct (resize_geo s0 None (Some 132)) as [r1 [r2 r3]].
    set (sr := resize s0 None (Some 132)) in *.
    assert (Br : Bn sr) by (unfold Bn; rewrite r2; exact B0).
    clearbody sr. apply colm_tail_ok; assumption.
  - cbn [andb]. destruct (nmem DECOM ml); [|reflexivity]. apply cup_ok; try exact I; assumption.
Qed.

Lemma reset_mode_ok_WF s ms p : WF s -> SCm s -> Bn s -> reset_mode_ok s ms p = true.
Proof.
  intros W SC B. unfold reset_mode_ok. cbv zeta. set (ml := enc_modes ms p).
  destruct (pre_stage s ml false W) as [W1 _]. change (m_pre s ml false) with (rm_pre s ml) in W1.
  pose proof (Bn_geq _ _ (geq_rm_pre s ml) B) as B1.
  assert (SC1 : SCm (rm_pre s ml)) by (unfold SCm; destruct (geq_rm_pre s ml) as [_ [_ e]]; rewrite e; exact SC).
  set (s1 := rm_pre s ml) in *. clearbody s1.
  destruct (nmem DECCOLM ml).
  - set (sr := if columns s1 =? 132 then match saved_columns s1 with Some w => set_saved_columns (resize s1 None (Some w)) None | None => s1 end else s1).
    assert (R : (if columns s1 =? 132 then match saved_columns s1 with Some w => resize_ok s1 None (Some w) | None => true end else true) = true /\ WF sr /\ Bn sr).
    { unfold sr. destruct (columns s1 =? 132); [|split; [reflexivity|split; assumption]].
      unfold SCm in SC1. destruct (saved_columns s1) as [w|] eqn:Es; [|split; [reflexivity|split; assumption]].
      split; [apply resize_ok_WF; try assumption; try exact I; exact SC1|].
      destruct (resize_spec s1 None (Some w) W1 I SC1) as [_ Wr].
      destruct (resize_geo s1 None (Some w)) as [r1 [r2 r3]].
      split; [apply (WF_frame (resize s1 None (Some w))); [exact Wr|reflexivity..]|].
      unfold Bn. cbn [lines set_saved_columns]. rewrite r2. exact B1. }
    destruct R as [R1 [Wr Br]]. rewrite R1. cbn [andb]. clearbody sr. apply colm_tail_ok; assumption.
  - cbn [andb]. destruct (nmem DECOM ml); [|reflexivity]. apply cup_ok; try exact I; assumption.
Qed.

Lemma reset_ok_geo s : 1 <= columns s -> 1 <= lines s -> reset_ok s = true.
Proof. intros Hc Hl. unfold reset_ok, cursor_position_ok, hb_ok, vb_ok. cbn. consts. lia. Qed.

(* ---- draw ---- *)
Lemma Ref_self s : WF s -> Ref s (abs s). Proof. intros W. split; [exact W|apply Aeq_refl]. Qed.
Lemma geq_pre_wrap s w : geq (m_pre_wrap s w) s.
Proof.
  unfold m_pre_wrap. destruct (cx s =? columns s); [|apply geq_refl].
  destruct (has_mode s DECAWM); [eapply geq_trans; [apply geq_linefeed|]; repeat split|]. destruct (0 <? w); repeat split.
Qed.
Lemma geq_place s ch w : geq (m_place is_comb nfc s ch w) s.
Proof.
  unfold m_place. destruct (w =? 1); [repeat split|]. destruct (w =? 2).
  - cbv zeta. destruct (_ <? _); repeat split.
  - destruct (_ && _); [|apply geq_refl]. destruct (0 <? cx s); [repeat split|]. destruct (0 <? cy s); repeat split.
Qed.
Lemma geq_draw_char s ch : geq (draw_char wid is_comb nfc s ch) s.
Proof.
  rewrite m_draw_char_stages. cbv zeta.
  pose proof (geq_pre_wrap s (wid ch)) as G1. set (s1 := m_pre_wrap s (wid ch)) in *. clearbody s1.
  set (s2 := if has_mode s1 IRM && (0 <? wid ch) then insert_characters s1 (Some (wid ch)) else s1).
  assert (G2 : geq s2 s) by (unfold s2; destruct (_ && _); [eapply geq_trans; [apply geq_ich|exact G1]|exact G1]). clearbody s2.
  set (s2' := set_buffer s2 _). assert (G2' : geq s2' s) by (eapply geq_trans; [|exact G2]; repeat split). clearbody s2'.
  pose proof (geq_trans _ _ _ (geq_place s2' ch (wid ch)) G2') as G3. set (s3 := m_place is_comb nfc s2' ch (wid ch)) in *. clearbody s3.
  destruct (0 <? wid ch); [eapply geq_trans; [|exact G3]; repeat split|exact G3].
Qed.

Lemma draw_char_ok_WF s ch : WF s -> Bn s -> draw_char_ok wid is_comb s ch = true.
Proof.
  intros W B. pose proof (wid_le_2 ch) as Hw. unfold draw_char_ok. cbv zeta.
  assert (O1 : (if cx s =? columns s then if has_mode s DECAWM then index_ok (carriage_return (add_dirty s (cy s))) else true else true) = true).
  { destruct (cx s =? columns s); [|reflexivity]. destruct (has_mode s DECAWM); [|reflexivity].
    apply index_ok_WF; [apply WF_cr; apply add_dirty_WF; [exact W|apply (wf_y s W)]|apply (Bn_geq _ s); [repeat split|exact B]]. }
  rewrite O1. cbn [andb].
  change (if cx s =? columns s then if has_mode s DECAWM then linefeed (carriage_return (add_dirty s (cy s))) else if 0 <? wid ch then set_x s (cx s - wid ch) else s else s)
    with (m_pre_wrap s (wid ch)).
  pose proof (proj1 (Ref_pre_wrap wid is_comb nfc s (abs s) (wid ch) (Ref_self s W))) as W1.
  pose proof (Bn_geq _ _ (geq_pre_wrap s (wid ch)) B) as B1.
  set (s1 := m_pre_wrap s (wid ch)) in *. clearbody s1.
  assert (O2 : (if has_mode s1 IRM && (0 <? wid ch) then shift_chars_ok s1 (Some (wid ch)) else true) = true).
  { destruct (_ && _); reflexivity. }
  rewrite O2. cbn [andb].
  set (s2 := if has_mode s1 IRM && (0 <? wid ch) then insert_characters s1 (Some (wid ch)) else s1).
  assert (W2 : WF s2) by (unfold s2; destruct (_ && _); [apply WF_ich_gen|]; exact W1).
  assert (B2 : Bn s2) by (unfold s2; destruct (_ && _); [apply (Bn_geq _ s1); [apply geq_ich|exact B1]|exact B1]).
  clearbody s2. geo W2 B2.
  destruct (wid ch =? 1); [reflexivity|]. destruct (wid ch =? 2); [reflexivity|].
  destruct ((wid ch =? 0) && is_comb ch); [|reflexivity].
  destruct (0 <? cx s2); [reflexivity|]. destruct (0 <? cy s2); [lia|reflexivity].
Qed.
Lemma draw_chars_ok_WF cs : forall s, WF s -> Bn s -> draw_chars_ok wid is_comb nfc s cs = true.
Proof.
  induction cs as [|c cs IH]; intros s W B; [reflexivity|]. cbn [draw_chars_ok]. rewrite (draw_char_ok_WF s c W B). cbn [andb].
  apply IH; [exact (proj1 (Ref_draw_char wid is_comb nfc s (abs s) c (Ref_self s W)))|exact (Bn_geq _ _ (geq_draw_char s c) B)].
Qed.

(* ---- every operation ---- *)
Definition op_small (o : op) : Prop :=
  match o with
  | OIch n | OCuu n | OCud n | OCuf n | OCub n | OCnl n | OCpl n | OCha n | OIl n | ODl n | ODch n | OEch n | OVpa n => small n
  | OCup l c => small l /\ small c
  | OMargins t b => small t /\ small b
  | OResize l c => dim_ok l /\ dim_c c
  | _ => True
  end.
Lemma op_small_args_ok o : op_small o -> args_ok o.
Proof. destruct o; try (intros _; exact I). intros [Hl Hc]. split; [destruct l|destruct c]; cbn in *; try exact I; try exact Hc; lia. Qed.

Theorem step_safe s o : WF s -> SCm s -> Bn s -> op_small o -> step_ok s o = true.
Proof.
  intros W SC B Ho. destruct o; cbn [step_ok Safe.step_ok]; cbn [op_small] in Ho; try reflexivity;
    match type of Ho with _ /\ _ => destruct Ho as [Ho1 Ho2] | _ => idtac end;
    first [ apply reset_ok_geo; [apply (wf_cols s W)|apply (wf_lines s W)]
          | apply index_ok_WF; assumption | apply rindex_ok; assumption | apply restore_ok; assumption
          | apply cub_ok; assumption | apply draw_chars_ok_WF; assumption | apply cud_ok; assumption
          | apply cuf_ok; assumption | apply hb_ok_WF; assumption | apply cup_ok; assumption
          | apply ed_ok; assumption | apply shift_lines_ok_WF; assumption | apply vpa_ok; assumption
          | apply set_mode_ok_WF; assumption | apply reset_mode_ok_WF; assumption | apply stbm_ok; assumption
          | apply resize_ok_WF; assumption | (unfold tab_ok; pose proof (wf_cols s W); lia) ].
Qed.

(* ---- the geometry bound is kept by every operation ---- *)
Lemma geq_draw_chars cs : forall s, geq (fold_left (draw_char wid is_comb nfc) cs s) s.
Proof. induction cs as [|c cs IH]; intros s; [apply geq_refl|]. cbn [fold_left]. eapply geq_trans; [apply IH|apply geq_draw_char]. Qed.
Lemma geq_stbm s t b : geq (set_margins s t b) s.
Proof.
  unfold set_margins. destruct (_ && _); [repeat split|]. destruct (margins_or_full s) as [mt mb]. cbv zeta.
  destruct (_ <=? _); [eapply geq_trans; [apply geq_cup|]; repeat split|apply geq_refl].
Qed.
Lemma Bn_set_mode s ms p : WF s -> Bn s -> Bn (set_mode s ms p).
Proof.
  intros W B. unfold set_mode. cbv zeta. apply (Bn_geq _ _ (geq_sm_post _ _)).
  pose proof (Bn_geq _ _ (geq_sm_pre s (enc_modes ms p)) B) as B1. set (s1 := sm_pre s (enc_modes ms p)) in *. clearbody s1.
  destruct (nmem DECCOLM (enc_modes ms p)); [|exact B1].
  apply (Bn_geq _ _ (geq_cup _ _ _)). apply (Bn_geq _ _ (geq_ed _ _)).
  destruct (resize_geo (set_saved_columns s1 (Some (columns s1))) None (Some 132)) as [r1 [r2 r3]].
  unfold Bn. rewrite r2. exact B1.
Qed.
Lemma Bn_reset_mode s ms p : WF s -> Bn s -> Bn (reset_mode s ms p).
Proof.
  intros W B. unfold reset_mode. cbv zeta. apply (Bn_geq _ _ (geq_rm_post _ _)).
  pose proof (Bn_geq _ _ (geq_rm_pre s (enc_modes ms p)) B) as B1. set (s1 := rm_pre s (enc_modes ms p)) in *. clearbody s1.
  destruct (nmem DECCOLM (enc_modes ms p)); [|exact B1].
  apply (Bn_geq _ _ (geq_cup _ _ _)). apply (Bn_geq _ _ (geq_ed _ _)).
  destruct (columns s1 =? 132); [|exact B1]. destruct (saved_columns s1) as [w|] eqn:Es; [|exact B1].
  destruct (resize_geo s1 None (Some w)) as [r1 [r2 r3]].
  unfold Bn. cbn [lines set_saved_columns]. rewrite r2. exact B1.
Qed.
Lemma reset_geo s : 1 <= columns s -> 1 <= lines s -> columns (reset s) = columns s /\ lines (reset s) = lines s /\ saved_columns (reset s) = None.
Proof. intros Hc Hl. rewrite reset_closed by assumption. repeat split. Qed.
Definition is_plain (o : op) : bool := match o with OReset | OSm _ _ | ORm _ _ | OResize _ _ => false | _ => true end.
Ltac gq := repeat match goal with
  | |- context [if ?c then _ else _] => destruct c
  | |- context [match ?x with Some _ => _ | None => _ end] => destruct x
  | |- context [let '(_, _) := ?p in _] => destruct p end; repeat split.
Lemma geq_step s o : is_plain o = true -> geq (step s o) s.
Proof.
  intros P. destruct o; try discriminate P; cbn [Screen.step];
    try solve [apply geq_refl|apply geq_index|apply geq_linefeed|apply geq_rindex|apply geq_restore
      |apply geq_ich|apply geq_dch|apply geq_il|apply geq_dl|apply geq_el|apply geq_ed|apply geq_cup|apply geq_sgr|apply geq_stbm];
    try solve [repeat split];
    try solve [unfold define_charset, cursor_back, clear_tab_stop; cbv zeta; gq].
  - unfold draw. eapply geq_trans; [|apply geq_draw_chars]. repeat split.
  - unfold cursor_to_line. cbv zeta. eapply geq_trans; [apply geq_vb|]. gq.
  - unfold display. destruct (fold_left _ _ _) as [buf out]. repeat split.
Qed.
Theorem Bn_step s o : WF s -> Bn s -> op_small o -> Bn (step s o).
Proof.
  intros W B Ho. destruct (is_plain o) eqn:P; [apply (Bn_geq _ s); [apply geq_step; exact P|exact B]|].
  destruct o; try discriminate P; cbn [Screen.step]; cbn [op_small] in Ho.
  - destruct (reset_geo s (wf_cols s W) (wf_lines s W)) as [e1 [e2 e3]]. unfold Bn in *. rewrite e2. exact B.
  - apply Bn_set_mode; assumption.
  - apply Bn_reset_mode; assumption.
  - destruct Ho as [Hl Hc]. destruct (resize_geo s l c) as [r1 [r2 r3]]. unfold Bn in *. rewrite r2. destruct l; cbn in Hl; lia.
Qed.

(* ---- histories of API calls ---- *)
Record SInv (s : screen) : Prop := mkSInv { si_wf : WF s; si_sc : SCm s; si_bn : Bn s }.
Lemma SInv_step s o : SInv s -> op_small o -> SInv (step s o).
Proof.
  intros [W SC B] Ho. destruct (refine_step wid is_comb nfc s o W SC (op_small_args_ok o Ho)) as [_ [W' SC']].
  constructor; [exact W'|exact SC'|apply Bn_step; assumption].
Qed.
Theorem all_safe os : forall s, SInv s -> Forall op_small os ->
  all_ok wid is_comb nfc s os = true /\ SInv (fold_left step os s).
Proof.
  induction os as [|o os IH]; intros s I0 F; [split; [reflexivity|exact I0]|].
  inversion F as [|? ? Ho F']; subst. cbn [all_ok fold_left]. destruct I0 as [W SC B].
  rewrite (step_safe s o W SC B Ho). cbn [andb]. apply IH; [apply SInv_step; [constructor; assumption|exact Ho]|exact F'].
Qed.
Lemma SInv_init c l : 1 <= c -> 1 <= l <= BND -> SInv (init c l).
Proof.
  intros Hc Hl. unfold init.
  set (s0 := mkScreen [] c l [] None NMap.empty default_modes [] [] G0 Lat1 Vt100 [] (mkCursor 0 0 cell_default false) None).
  assert (E1 : 1 <= columns s0) by (cbn; lia). assert (E2 : 1 <= lines s0) by (cbn; lia).
  destruct (reset_geo s0 E1 E2) as [e1 [e2 e3]].
  constructor; [apply WF_reset; assumption|unfold SCm; rewrite e3; exact I|unfold Bn; rewrite e2; cbn; lia].
Qed.
Lemma init_ok_true c l : 1 <= c -> 1 <= l -> init_ok c l = true.
Proof. intros Hc Hl. unfold init_ok. apply reset_ok_geo; cbn; assumption. Qed.

(* ---- through the recogniser: every event it delivers has small arguments ---- *)
Definition pst_small (st : pst) : Prop := match st with PCsi ps _ _ => Forall (fun p => p <= 9999) ps | _ => True end.
Lemma nth_small ps k : Forall (fun p => p <= 9999) ps -> small (nth_error ps k).
Proof.
  intros F. destruct (nth_error ps k) as [a|] eqn:E; [|exact I]. cbn. rewrite Forall_forall in F. apply F. eapply nth_error_In. exact E.
Qed.
Ltac ifs := repeat match goal with |- context [if ?c then _ else _] => destruct c end.
Lemma basic_small c : Forall op_small (basic_dispatch c).
Proof. unfold basic_dispatch. ifs; repeat constructor. Qed.
Lemma escape_small c : Forall op_small (escape_dispatch c).
Proof. unfold escape_dispatch. ifs; repeat constructor. Qed.
Lemma csi_small c ps q : Forall (fun p => p <= 9999) ps -> Forall op_small (csi_dispatch c ps q).
Proof.
  intros F. pose proof (nth_small ps 0 F) as H0. pose proof (nth_small ps 1 F) as H1.
  unfold csi_dispatch. cbv zeta. ifs; repeat constructor; cbn [op_small]; try assumption; try (split; assumption).
Qed.
Lemma osc_small code acc : Forall op_small (osc_finish code acc).
Proof. unfold osc_finish. ifs; repeat constructor. Qed.
Lemma param_small ds : param_of ds <= 9999.
Proof. rewrite param_of_spec. destruct ds; [discriminate|apply N.le_min_r]. Qed.
Lemma pstep_small u st c : pst_small st -> pst_small (fst (pstep u st c)) /\ Forall op_small (snd (pstep u st c)).
Proof.
  intros P. destruct st; cbn [pstep].
  - destruct (c =? ESC); [split; [exact I|constructor]|]. unfold start_step. destruct (nmem c basic_ctrls).
    + destruct (_ && _); (split; [exact I|]); [constructor|apply basic_small].
    + ifs; (split; [try exact I; constructor|]); repeat constructor.
  - ifs; (split; [try exact I; try constructor|]); try constructor. apply escape_small.
  - split; [exact I|]. ifs; repeat constructor.
  - split; [exact I|constructor].
  - split; [exact I|]. ifs; repeat constructor.
  - cbn [pst_small] in P.
    destruct (c =? 63); [split; [exact P|constructor]|]. destruct (nmem c allowed_in_csi); [split; [exact P|apply basic_small]|].
    destruct (_ || _); [split; [exact P|constructor]|]. destruct (_ || _); [split; [exact I|repeat constructor]|].
    destruct (is_digit c); [split; [exact P|constructor]|]. destruct (c =? 36); [split; [exact I|constructor]|]. cbv zeta.
    assert (F' : Forall (fun p => p <= 9999) (params ++ [param_of cur])).
    { apply Forall_app. split; [exact P|]. constructor; [apply param_small|constructor]. }
    destruct (c =? 59); [split; [exact F'|constructor]|split; [exact I|apply csi_small; exact F']].
  - split; [exact I|constructor].
  - ifs; (split; [exact I|constructor]).
  - destruct n as [|[|m]]; (split; [exact I|constructor]).
  - destruct (c =? ESC); [split; [exact I|constructor]|]. destruct (_ || _); [split; [exact I|apply osc_small]|split; [exact I|constructor]].
  - destruct (c =? 92); [split; [exact I|apply osc_small]|split; [exact I|constructor]].
Qed.

(* ---- the whole pipeline ---- *)
Notation feed_char := (feed_char wid is_comb nfc).
Notation feed_chars := (feed_chars wid is_comb nfc).
Notation feed_bytes := (feed_bytes wid is_comb nfc).
Notation wstep := (wstep wid is_comb nfc).
Notation wrun := (wrun wid is_comb nfc).
Definition PInv (w : world) : Prop := SInv (w_scr w) /\ pst_small (w_pst w).
Lemma feed_char_safe w c : PInv w ->
  all_ok wid is_comb nfc (w_scr w) (snd (pstep (w_utf8 w) (w_pst w) c)) = true /\ PInv (feed_char w c).
Proof.
  intros [S P]. destruct (pstep_small (w_utf8 w) (w_pst w) c P) as [P' F]. unfold World.feed_char.
  destruct (pstep (w_utf8 w) (w_pst w) c) as [p evs]. cbn [fst snd] in *.
  destruct (all_safe evs (w_scr w) S F) as [A S']. split; [exact A|]. split; [exact S'|exact P'].
Qed.
Lemma chars_safe cs : forall w, PInv w -> chars_ok wid is_comb nfc w cs = true /\ PInv (feed_chars w cs).
Proof.
  induction cs as [|c cs IH]; intros w I0; [split; [reflexivity|exact I0]|].
  cbn [chars_ok World.feed_chars fold_left]. destruct (feed_char_safe w c I0) as [A I1]. rewrite A. cbn [andb]. apply IH. exact I1.
Qed.
Lemma bytes_safe w bs : PInv w -> bytes_ok wid is_comb nfc w bs = true /\ PInv (feed_bytes w bs).
Proof.
  intros I0. unfold bytes_ok, World.feed_bytes. destruct (w_utf8 w); [|apply chars_safe; exact I0].
  destruct (drun (w_dec w) bs) as [d cs]. apply chars_safe. exact I0.
Qed.
Definition wop_small (o : wop) : Prop := match o with WApi a => op_small a | _ => True end.
Lemma wstep_safe w o : PInv w -> wop_small o -> wstep_ok wid is_comb nfc w o = true /\ PInv (wstep w o).
Proof.
  intros I0 Ho. destruct o; cbn [wstep_ok World.wstep].
  - apply bytes_safe; exact I0.
  - apply chars_safe; exact I0.
  - split; [reflexivity|]. unfold select_other. destruct (leqb code [64]); [exact I0|]. destruct (_ || _); exact I0.
  - destruct I0 as [[W SC B] P]. split; [apply step_safe; assumption|]. split; [apply SInv_step; [constructor; assumption|exact Ho]|exact P].
  - split; [reflexivity|]. destruct I0 as [[W SC B] P]. destruct (WF_clear_dirty (w_scr w) W) as [W' _].
    split; [constructor; [exact W'|exact SC|exact B]|exact P].
Qed.
(* every history of byte chunks (either parser mode), character chunks, charset-mode switches, API calls with arguments
   absent or <= 9999 (resize: lines 1..BND, columns >= 1) and dirty-clears, from Screen::new(cols, lines) with 1 <= cols and 1 <= lines <= BND:
   Screen::new itself and every operation the pipeline performs are free of failing checked arithmetic *)
Theorem world_safe cols lns os : 1 <= cols -> 1 <= lns <= BND -> Forall wop_small os ->
  init_ok cols lns = true /\ wrun_ok wid is_comb nfc (winit cols lns) os = true.
Proof.
  intros Hc Hl F. split; [apply init_ok_true; lia|].
  assert (I0 : PInv (winit cols lns)) by (split; [apply SInv_init; assumption|exact I]).
  revert I0. generalize (winit cols lns) as w.
  induction os as [|o os IH]; intros w I0; [reflexivity|].
  inversion F as [|? ? Ho Fo]; subst. cbn [wrun_ok]. destruct (wstep_safe w o I0 Ho) as [A I1]. rewrite A. cbn [andb]. apply IH; assumption.
Qed.
Theorem api_safe c l os : 1 <= c -> 1 <= l <= BND -> Forall op_small os ->
  init_ok c l = true /\ all_ok wid is_comb nfc (init c l) os = true.
Proof.
  intros Hc Hl F. split; [apply init_ok_true; lia|]. apply (all_safe os (init c l)); [apply SInv_init; assumption|exact F].
Qed.
End S.
