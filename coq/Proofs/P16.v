(* Proofs/P16.v — C16: resize. *)
From Coq Require Import NArith List Bool Lia.
From MT Require Import Lib Types Charsets Tables Screen Spec Obs Stmt.
From MT.Proofs Require Import WF Aeq Loops RefineResize P05 CongrMore.
Import ListNotations.
Open Scope N_scope.

Section S.
Variable wid : cp -> N. Variable is_comb : cp -> bool. Variable nfc : str -> str.

(* a resize that changes the geometry: crop rows from the top, columns from the right, pad with blanks *)
Lemma c16_changed a l c : let L := match l with Some v => v | None => a_lines a end in
  let C := match c with Some v => v | None => a_cols a end in
  (L =? a_lines a) && (C =? a_cols a) = false ->
  let a' := a_resize a l c in let d := a_lines a - L in
  a_lines a' = L /\ a_cols a' = C /\
  (forall r cc, a_grid a' r cc = if (r + d <? a_lines a) && (cc <? a_cols a) then a_grid a (r + d) cc else adc a) /\
  a_margins a' = None /\ (forall y, nmem y (a_dirty a') = (y <? L)) /\
  ax a' = N.min (if L <? a_lines a then N.min (ax a) (a_cols a - 1) else ax a) (C - 1) /\ ay a' = N.min (ay a) (L - 1) /\
  aattr a' = aattr a /\ a_mode a' = a_mode a /\ a_tabs a' = a_tabs a /\ a_sp a' = a_sp a /\ a_title a' = a_title a /\ a_icon a' = a_icon a /\
  a_cs a' = a_cs a /\ a_g0 a' = a_g0 a /\ a_g1 a' = a_g1 a.
Proof.
  cbv zeta. intros H. unfold a_resize. rewrite H. repeat split.
  intros y. cbn [a_dirty]. rewrite nmem_range. destruct (N.leb_spec 0 y); [reflexivity|lia].
Qed.
(* resizing to the current size is a complete no-op: the very same state *)
Lemma c16_same_size_spec a l c : (match l with Some v => v | None => a_lines a end =? a_lines a) && (match c with Some v => v | None => a_cols a end =? a_cols a) = true ->
  a_resize a l c = a.
Proof. intros H. unfold a_resize. rewrite H. reflexivity. Qed.
Lemma c16_same_size_code s l c : (match l with Some v => v | None => lines s end =? lines s) && (match c with Some v => v | None => columns s end =? columns s) = true ->
  resize s l c = s.
Proof. intros H. unfold resize. rewrite H. reflexivity. Qed.
(* what a shrink discarded does not come back when the screen grows again: the regrown area is blank *)
Lemma c16_regrow a l1 c1 l2 c2 r cc :
  (l1 =? a_lines a) && (c1 =? a_cols a) = false -> (l2 =? l1) && (c2 =? c1) = false -> l1 <= l2 ->
  (c1 <= cc \/ l1 <= r) ->
  a_grid (a_resize (a_resize a (Some l1) (Some c1)) (Some l2) (Some c2)) r cc = adc a.
Proof.
  intros H1 H2 Hl Hout.
  destruct (c16_changed a (Some l1) (Some c1) H1) as [e1 [e2 [e3 [_ [_ [_ [_ [_ [e9 _]]]]]]]]]. cbv zeta in *.
  set (a1 := a_resize a (Some l1) (Some c1)) in *.
  assert (H2' : (l2 =? a_lines a1) && (c2 =? a_cols a1) = false) by (rewrite e1, e2; exact H2).
  destruct (c16_changed a1 (Some l2) (Some c2) H2') as [_ [_ [g3 _]]]. cbv zeta in g3. rewrite g3, e1, e2.
  assert (D : adc a1 = adc a) by (unfold adc, amode; rewrite e9; reflexivity). rewrite D.
  replace (l1 - l2) with 0 by lia. replace (r + 0) with r by lia.
  destruct (N.ltb_spec r l1), (N.ltb_spec cc c1); cbn [andb]; try reflexivity.
  destruct Hout; lia.
Qed.
End S.
