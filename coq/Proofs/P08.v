(* Proofs/P08.v — C08: SGR. *)
From Coq Require Import NArith List Bool Lia.
From MT Require Import Lib Types Charsets Tables Screen Spec Obs Stmt.
From MT.Proofs Require Import WF Aeq RefineSgr.
Import ListNotations.
Open Scope N_scope.

Section S.
Variable wid : cp -> N. Variable is_comb : cp -> bool. Variable nfc : str -> str.
Notation step := (step wid is_comb nfc).
Notation astep := (astep wid is_comb nfc).

(* after SGR the rendition is the fold of the documented table; nothing else changes (record equality) *)
Lemma c08_refines s ps : abs (step s (OSgr ps)) = astep (abs s) (OSgr ps).
Proof. apply ref_sgr. Qed.
Lemma c08_fold a ps :
  astep a (OSgr ps) = a_with_attr a (match ps with [] => adc a | _ => sgr_spec (adc a) (aattr a) ps end).
Proof. reflexivity. Qed.
(* the fold, one step at a time *)
Lemma c08_fold_simple d a p rest : p <> 38 -> p <> 48 -> sgr_spec d a (p :: rest) = sgr_spec d (sgr_simple d a p) rest.
Proof.
  intros H1 H2. cbn [sgr_spec]. destruct (N.eqb_spec p 38); [contradiction|]. destruct (N.eqb_spec p 48); [contradiction|]. reflexivity.
Qed.
Lemma c08_fold_256 d a m rest :
  sgr_spec d a (38 :: 5 :: m :: rest) = sgr_spec d (if m <? 256 then set_fg a (palette m) else a) rest /\
  sgr_spec d a (48 :: 5 :: m :: rest) = sgr_spec d (if m <? 256 then set_bg a (palette m) else a) rest.
Proof. split; reflexivity. Qed.
Lemma c08_fold_rgb d a r g b rest :
  sgr_spec d a (38 :: 2 :: r :: g :: b :: rest) = sgr_spec d (if (r <? 256) && (g <? 256) && (b <? 256) then set_fg a (rgb r g b) else a) rest /\
  sgr_spec d a (48 :: 2 :: r :: g :: b :: rest) = sgr_spec d (if (r <? 256) && (g <? 256) && (b <? 256) then set_bg a (rgb r g b) else a) rest.
Proof. split; reflexivity. Qed.
(* malformed extended-colour forms: what is consumed *)
Lemma c08_fold_malformed d a n rest : n <> 5 -> n <> 2 ->
  sgr_spec d a [38] = a /\ sgr_spec d a [48] = a /\ sgr_spec d a [38; 5] = a /\ sgr_spec d a [48; 5] = a /\
  sgr_spec d a (38 :: n :: rest) = sgr_spec d a rest /\ sgr_spec d a (48 :: n :: rest) = sgr_spec d a rest.
Proof.
  intros H5 H2. repeat split; try reflexivity; cbn [sgr_spec]; cbn [N.eqb Pos.eqb orb];
    destruct (N.eqb_spec n 5); try contradiction; destruct (N.eqb_spec n 2); try contradiction; reflexivity.
Qed.
(* the documented single codes *)
Lemma c08_codes d a :
  sgr_simple d a 0 = d /\
  sgr_simple d a 1 = set_text a FBold true /\ sgr_simple d a 22 = set_text a FBold false /\
  sgr_simple d a 3 = set_text a FItalics true /\ sgr_simple d a 23 = set_text a FItalics false /\
  sgr_simple d a 4 = set_text a FUnderscore true /\ sgr_simple d a 24 = set_text a FUnderscore false /\
  sgr_simple d a 5 = set_text a FBlink true /\ sgr_simple d a 25 = set_text a FBlink false /\
  sgr_simple d a 7 = set_text a FReverse true /\ sgr_simple d a 27 = set_text a FReverse false /\
  sgr_simple d a 9 = set_text a FStrike true /\ sgr_simple d a 29 = set_text a FStrike false /\
  sgr_simple d a 39 = set_fg a s_default /\ sgr_simple d a 49 = set_bg a s_default /\
  (forall i, i < 8 -> sgr_simple d a (30 + i) = set_fg a (nth_name i) /\ sgr_simple d a (40 + i) = set_bg a (nth_name i) /\
                      sgr_simple d a (90 + i) = set_fg a (bright (nth_name i)) /\ sgr_simple d a (100 + i) = set_bg a (bright (nth_name i))).
Proof.
  repeat split; try reflexivity.
  all: assert (E : i = 0 \/ i = 1 \/ i = 2 \/ i = 3 \/ i = 4 \/ i = 5 \/ i = 6 \/ i = 7) by lia;
       destruct E as [->|[->|[->|[->|[->|[->|[->| ->]]]]]]]; reflexivity.
Qed.
(* unknown codes are ignored *)
Definition known_code (p : N) : bool :=
  nmem p [0;1;3;4;5;7;9;22;23;24;25;27;29;39;49] || ((30 <=? p) && (p <=? 37)) || ((40 <=? p) && (p <=? 47)) ||
  ((90 <=? p) && (p <=? 97)) || ((100 <=? p) && (p <=? 107)).
Lemma c08_unknown d a p : known_code p = false -> sgr_simple d a p = a.
Proof.
  unfold known_code. intros H. apply orb_false_iff in H. destruct H as [H H4]. apply orb_false_iff in H. destruct H as [H H3].
  apply orb_false_iff in H. destruct H as [H H2]. apply orb_false_iff in H. destruct H as [H0 H1].
  unfold sgr_simple. rewrite H1, H2, H3, H4.
  cbn [nmem existsb] in H0. repeat (apply orb_false_iff in H0; destruct H0 as [?E H0]).
  repeat match goal with E : (p =? ?k) = false |- _ => rewrite E; clear E end. reflexivity.
Qed.
(* cells already on screen never change; cursor position, modes, ... neither *)
Lemma c08_frame a ps : let a' := astep a (OSgr ps) in
  a_grid a' = a_grid a /\ ax a' = ax a /\ ay a' = ay a /\ cu_hidden (a_cur a') = cu_hidden (a_cur a) /\
  a_mode a' = a_mode a /\ a_margins a' = a_margins a /\ a_tabs a' = a_tabs a /\ a_dirty a' = a_dirty a /\ a_sp a' = a_sp a.
Proof. repeat split; reflexivity. Qed.
End S.

(* one sequence with several ordinary codes = the same codes sent one sequence at a time (a list may be cut anywhere
   except inside an extended-colour form 38/48;…) *)
Lemma sgr_app_ordinary d l1 : forall a l2, Forall (fun p => p <> 38 /\ p <> 48) l1 ->
  sgr_spec d a (l1 ++ l2) = sgr_spec d (sgr_spec d a l1) l2.
Proof.
  induction l1 as [|p l1 IH]; intros a l2 F; [reflexivity|].
  inversion F as [|? ? [H1 H2] F']; subst. cbn [app sgr_spec].
  destruct (N.eqb_spec p 38); [contradiction|]. destruct (N.eqb_spec p 48); [contradiction|]. cbn [orb]. apply IH. exact F'.
Qed.
