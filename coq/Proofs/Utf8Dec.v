(* Proofs/Utf8Dec.v — C11: the streaming decoder model decodes exactly the well-formed sequences of
   Unicode Table 3-7, emits U+FFFD for ill-formed input, holds incomplete tails, and round-trips every scalar. *)
From Coq Require Import NArith ZArith List Bool Lia ZifyBool ZifyN.
From MT Require Import Lib Types Utf8.
From MT.Proofs Require Import Stream.
Import ListNotations.
Open Scope N_scope.
Ltac Zify.zify_post_hook ::= Z.div_mod_to_equations.

Definition scalar (c : N) : Prop := c < 55296 \/ (57344 <= c /\ c <= 1114111).
Definition encode (c : N) : list N :=
  if c <? 128 then [c]
  else if c <? 2048 then [192 + c / 64; 128 + c mod 64]
  else if c <? 65536 then [224 + c / 4096; 128 + (c / 64) mod 64; 128 + c mod 64]
  else [240 + c / 262144; 128 + (c / 4096) mod 64; 128 + (c / 64) mod 64; 128 + c mod 64].
Definition cont (b : N) : Prop := 128 <= b <= 191.
(* Unicode Table 3-7: well-formed UTF-8 byte sequences *)
Inductive wf : list N -> N -> Prop :=
| wf1 b : b <= 127 -> wf [b] b
| wf2 b0 b1 : 194 <= b0 <= 223 -> cont b1 -> wf [b0; b1] ((b0 - 192) * 64 + (b1 - 128))
| wf3 b0 b1 b2 : 224 <= b0 <= 239 -> (if b0 =? 224 then 160 else 128) <= b1 <= (if b0 =? 237 then 159 else 191) -> cont b2 ->
    wf [b0; b1; b2] (((b0 - 224) * 64 + (b1 - 128)) * 64 + (b2 - 128))
| wf4 b0 b1 b2 b3 : 240 <= b0 <= 244 -> (if b0 =? 240 then 144 else 128) <= b1 <= (if b0 =? 244 then 143 else 191) -> cont b2 -> cont b3 ->
    wf [b0; b1; b2; b3] ((((b0 - 240) * 64 + (b1 - 128)) * 64 + (b2 - 128)) * 64 + (b3 - 128)).

Notation gnd f := (mkD 0 0 128 191 f) (only parsing).
Definition out1 (f : bool) (c : N) : list N := if f && (c =? BOM) then [] else [c].

(* ---- transition lemmas ---- *)
Lemma lead_ascii b : b <= 127 -> lead b = ((0, 0, 128, 191), [b]).
Proof. intros H. unfold lead. destruct (N.leb_spec b 127); [reflexivity|lia]. Qed.
Lemma lead_2 b : 194 <= b <= 223 -> lead b = ((1, b - 192, 128, 191), []).
Proof.
  intros H. unfold lead. destruct (N.leb_spec b 127); [lia|].
  destruct (N.leb_spec 194 b), (N.leb_spec b 223); try lia. reflexivity.
Qed.
Lemma lead_3 b : 224 <= b <= 239 ->
  lead b = ((2, b - 224, (if b =? 224 then 160 else 128), (if b =? 237 then 159 else 191)), []).
Proof.
  intros H. unfold lead. destruct (N.leb_spec b 127); [lia|].
  destruct (N.leb_spec 194 b), (N.leb_spec b 223); try lia; cbn [andb].
  destruct (N.leb_spec 224 b), (N.leb_spec b 239); try lia. reflexivity.
Qed.
Lemma lead_4 b : 240 <= b <= 244 ->
  lead b = ((3, b - 240, (if b =? 240 then 144 else 128), (if b =? 244 then 143 else 191)), []).
Proof.
  intros H. unfold lead. destruct (N.leb_spec b 127); [lia|].
  destruct (N.leb_spec 194 b), (N.leb_spec b 223); try lia; cbn [andb].
  destruct (N.leb_spec 224 b), (N.leb_spec b 239); try lia; cbn [andb].
  destruct (N.leb_spec 240 b), (N.leb_spec b 244); try lia. reflexivity.
Qed.
Lemma lead_bad b : (128 <= b <= 193) \/ 245 <= b -> lead b = ((0, 0, 128, 191), [REPL]).
Proof.
  intros H. unfold lead. destruct (N.leb_spec b 127); [lia|].
  destruct (N.leb_spec 194 b), (N.leb_spec b 223); try lia; cbn [andb];
  destruct (N.leb_spec 224 b), (N.leb_spec b 239); try lia; cbn [andb];
  destruct (N.leb_spec 240 b), (N.leb_spec b 244); try lia; reflexivity.
Qed.
Lemma step_lead f b : dstep (gnd f) b =
  let '((r, c, lo, hi), out) := lead b in
  match out with [] => (mkD r c lo hi f, []) | x :: rest => (mkD r c lo hi false, if f && (x =? BOM) then rest else out) end.
Proof. reflexivity. Qed.
Lemma step_cont_more r c lo hi f b : 2 <= r -> lo <= b <= hi ->
  dstep (mkD r c lo hi f) b = (mkD (r - 1) (c * 64 + (b - 128)) 128 191 f, []).
Proof.
  intros Hr Hb. unfold dstep, raw_step. cbn [d_rem d_lo d_hi d_cp d_first].
  destruct (N.eqb_spec r 0); [lia|]. destruct (N.leb_spec lo b), (N.leb_spec b hi); try lia. cbn [andb].
  destruct (N.eqb_spec r 1); [lia|]. reflexivity.
Qed.
Lemma step_cont_last c lo hi f b : lo <= b <= hi ->
  dstep (mkD 1 c lo hi f) b = (gnd false, out1 f (c * 64 + (b - 128))).
Proof.
  intros Hb. unfold dstep, raw_step. cbn [d_rem d_lo d_hi d_cp d_first].
  destruct (N.leb_spec lo b), (N.leb_spec b hi); try lia. reflexivity.
Qed.
Lemma step_cont_bad r c lo hi f b : 1 <= r -> (b < lo \/ hi < b) ->
  dstep (mkD r c lo hi f) b =
  let '((r', c', lo', hi'), out) := lead b in (mkD r' c' lo' hi' false, if f && (REPL =? BOM) then out else REPL :: out).
Proof.
  intros Hr Hb. unfold dstep, raw_step. cbn [d_rem d_lo d_hi d_cp d_first].
  destruct (N.eqb_spec r 0); [lia|].
  assert (E : (lo <=? b) && (b <=? hi) = false) by (destruct (N.leb_spec lo b), (N.leb_spec b hi); try reflexivity; lia).
  rewrite E. destruct (lead b) as [[[[r' c'] lo'] hi'] out]. reflexivity.
Qed.

(* ---- a well-formed sequence yields its code point once; the decoder is back between characters ---- *)
Lemma drun_cons d b rest : drun d (b :: rest) = let '(d1, o1) := dstep d b in let '(d2, o2) := drun d1 rest in (d2, o1 ++ o2).
Proof. reflexivity. Qed.
Theorem decode_wf bs c : wf bs c -> forall f rest,
  drun (gnd f) (bs ++ rest) = (fst (drun (gnd false) rest), out1 f c ++ snd (drun (gnd false) rest)).
Proof.
  intros W f rest. destruct W as [b H|b0 b1 H0 H1|b0 b1 b2 H0 H1 H2|b0 b1 b2 b3 H0 H1 H2 H3]; unfold cont in *.
  - cbn [app]. rewrite drun_cons, step_lead, lead_ascii by assumption.
    destruct (drun (gnd false) rest) as [d2 o2]. reflexivity.
  - cbn [app]. rewrite drun_cons, step_lead, lead_2 by assumption.
    rewrite drun_cons, step_cont_last by lia. destruct (drun (gnd false) rest) as [d2 o2]. reflexivity.
  - cbn [app]. rewrite drun_cons, step_lead, lead_3 by assumption.
    rewrite drun_cons, step_cont_more by lia. replace (2 - 1) with 1 by lia.
    rewrite drun_cons, step_cont_last by lia. destruct (drun (gnd false) rest) as [d2 o2]. reflexivity.
  - cbn [app]. rewrite drun_cons, step_lead, lead_4 by assumption.
    rewrite drun_cons, step_cont_more by lia. replace (3 - 1) with 2 by lia.
    rewrite drun_cons, step_cont_more by lia. replace (2 - 1) with 1 by lia.
    rewrite drun_cons, step_cont_last by lia. destruct (drun (gnd false) rest) as [d2 o2]. reflexivity.
Qed.

(* ---- well-formed sequences are exactly the encodings of scalar values ---- *)
Theorem wf_scalar bs c : wf bs c -> scalar c /\ bs = encode c.
Proof.
  intros W. destruct W as [b H|b0 b1 H0 H1|b0 b1 b2 H0 H1 H2|b0 b1 b2 b3 H0 H1 H2 H3]; unfold cont, scalar, encode in *.
  - split; [lia|]. destruct (N.ltb_spec b 128); [reflexivity|lia].
  - split; [lia|].
    destruct (N.ltb_spec ((b0 - 192) * 64 + (b1 - 128)) 128); [lia|].
    destruct (N.ltb_spec ((b0 - 192) * 64 + (b1 - 128)) 2048); [|lia].
    f_equal; [lia|f_equal; lia].
  - assert (R : 2048 <= ((b0 - 224) * 64 + (b1 - 128)) * 64 + (b2 - 128) < 65536).
    { destruct (N.eqb_spec b0 224), (N.eqb_spec b0 237); lia. }
    split; [destruct (N.eqb_spec b0 224), (N.eqb_spec b0 237); lia|].
    destruct (N.ltb_spec (((b0 - 224) * 64 + (b1 - 128)) * 64 + (b2 - 128)) 128); [lia|].
    destruct (N.ltb_spec (((b0 - 224) * 64 + (b1 - 128)) * 64 + (b2 - 128)) 2048); [lia|].
    destruct (N.ltb_spec (((b0 - 224) * 64 + (b1 - 128)) * 64 + (b2 - 128)) 65536); [|lia].
    assert (B1 : 128 <= b1 <= 191) by (destruct (N.eqb_spec b0 224), (N.eqb_spec b0 237); lia).
    f_equal; [lia|f_equal; [lia|f_equal; lia]].
  - assert (B1 : 128 <= b1 <= 191) by (destruct (N.eqb_spec b0 240), (N.eqb_spec b0 244); lia).
    assert (R : 65536 <= (((b0 - 240) * 64 + (b1 - 128)) * 64 + (b2 - 128)) * 64 + (b3 - 128) <= 1114111).
    { destruct (N.eqb_spec b0 240), (N.eqb_spec b0 244); lia. }
    split; [lia|].
    destruct (N.ltb_spec ((((b0 - 240) * 64 + (b1 - 128)) * 64 + (b2 - 128)) * 64 + (b3 - 128)) 128); [lia|].
    destruct (N.ltb_spec ((((b0 - 240) * 64 + (b1 - 128)) * 64 + (b2 - 128)) * 64 + (b3 - 128)) 2048); [lia|].
    destruct (N.ltb_spec ((((b0 - 240) * 64 + (b1 - 128)) * 64 + (b2 - 128)) * 64 + (b3 - 128)) 65536); [lia|].
    f_equal; [lia|f_equal; [lia|f_equal; [lia|f_equal; lia]]].
Qed.
Theorem encode_wf c : scalar c -> wf (encode c) c.
Proof.
  intros S. unfold scalar in S. unfold encode.
  destruct (N.ltb_spec c 128); [apply wf1; lia|].
  destruct (N.ltb_spec c 2048).
  - replace c with ((192 + c / 64 - 192) * 64 + (128 + c mod 64 - 128)) at 3 by lia.
    apply wf2; unfold cont; lia.
  - destruct (N.ltb_spec c 65536).
    + replace c with (((224 + c / 4096 - 224) * 64 + (128 + (c / 64) mod 64 - 128)) * 64 + (128 + c mod 64 - 128)) at 4 by lia.
      apply wf3; unfold cont; try lia.
      destruct (N.eqb_spec (224 + c / 4096) 224), (N.eqb_spec (224 + c / 4096) 237); lia.
    + replace c with ((((240 + c / 262144 - 240) * 64 + (128 + (c / 4096) mod 64 - 128)) * 64 + (128 + (c / 64) mod 64 - 128)) * 64 + (128 + c mod 64 - 128)) at 5 by lia.
      apply wf4; unfold cont; try lia.
      destruct (N.eqb_spec (240 + c / 262144) 240), (N.eqb_spec (240 + c / 262144) 244); lia.
Qed.

(* ---- round trip: nothing dropped, duplicated or reordered ---- *)
Theorem round_trip cs : Forall scalar cs -> drun (gnd false) (concat (map encode cs)) = (gnd false, cs).
Proof.
  induction 1 as [|c cs S F IH]; [reflexivity|].
  cbn [map concat]. rewrite (decode_wf (encode c) c (encode_wf c S) false (concat (map encode cs))), IH.
  reflexivity.
Qed.
(* with BOM removal active (fresh decoder): a leading U+FEFF is dropped, anything else passes *)
Theorem round_trip_fresh c cs : scalar c -> Forall scalar cs ->
  drun d0 (concat (map encode (c :: cs))) = (gnd false, (if c =? BOM then [] else [c]) ++ cs).
Proof.
  intros S F. cbn [map concat]. change d0 with (mkD 0 0 128 191 true).
  rewrite (decode_wf (encode c) c (encode_wf c S) true (concat (map encode cs))), round_trip by assumption.
  reflexivity.
Qed.

(* ---- ill-formed input ---- *)
Theorem bad_lead_byte f b rest : (128 <= b <= 193) \/ 245 <= b ->
  drun (gnd f) (b :: rest) = (fst (drun (gnd false) rest), REPL :: snd (drun (gnd false) rest)).
Proof.
  intros H. rewrite drun_cons, step_lead, lead_bad by assumption.
  assert (E : f && (REPL =? BOM) = false) by (destruct f; reflexivity). rewrite E.
  destruct (drun (gnd false) rest) as [d2 o2]. reflexivity.
Qed.
(* an incomplete sequence followed by a byte that cannot continue it: ONE U+FFFD for the whole prefix
   (maximal subpart), and the offending byte is decoded afresh *)
Theorem truncated_then_other r c lo hi f b rest : 1 <= r -> (b < lo \/ hi < b) ->
  drun (mkD r c lo hi f) (b :: rest) =
  let '(d2, o2) := drun (gnd false) (b :: rest) in (d2, REPL :: o2).
Proof.
  intros Hr Hb. rewrite drun_cons, step_cont_bad by assumption.
  assert (E : f && (REPL =? BOM) = false) by (destruct f; reflexivity). rewrite E.
  rewrite (drun_cons (gnd false) b rest), step_lead.
  destruct (lead b) as [[[[r' c'] lo'] hi'] out].
  destruct out as [|x out'].
  - destruct (drun (mkD r' c' lo' hi' false) rest) as [d2 o2]. reflexivity.
  - cbn [andb]. destruct (drun (mkD r' c' lo' hi' false) rest) as [d2 o2]. reflexivity.
Qed.
(* an incomplete trailing sequence is held: no output until a later byte completes or invalidates it *)
Theorem incomplete_tail_held bs c b rest f : wf (bs ++ b :: rest) c -> bs <> [] ->
  snd (drun (gnd f) bs) = [] /\ d_rem (fst (drun (gnd f) bs)) <> 0.
Proof.
  intros W Hne. inversion W as [b' H E|b0 b1 H0 H1 E|b0 b1 b2 H0 H1 H2 E|b0 b1 b2 b3 H0 H1 H2 H3 E]; subst; unfold cont in *;
    destruct bs as [|x [|y [|z [|u l]]]]; try contradiction; cbn [app] in E; inversion E; subst;
    try (match goal with Hl : _ ++ _ :: _ = [] |- _ => destruct l; discriminate Hl | Hl : [] = _ ++ _ :: _ |- _ => destruct l; discriminate Hl end).
  - (* 2-byte, after the lead *)
    cbn [drun]. rewrite step_lead, lead_2 by assumption. cbn. split; [reflexivity|discriminate].
  - cbn [drun]. rewrite step_lead, lead_3 by assumption. cbn. split; [reflexivity|discriminate].
  - rewrite drun_cons, step_lead, lead_3 by assumption. rewrite drun_cons, step_cont_more by lia. cbn. split; [reflexivity|discriminate].
  - cbn [drun]. rewrite step_lead, lead_4 by assumption. cbn. split; [reflexivity|discriminate].
  - rewrite drun_cons, step_lead, lead_4 by assumption. rewrite drun_cons, step_cont_more by lia. cbn. split; [reflexivity|discriminate].
  - rewrite drun_cons, step_lead, lead_4 by assumption. rewrite drun_cons, step_cont_more by lia.
    replace (3 - 1) with 2 by lia. rewrite drun_cons, step_cont_more by lia. cbn. split; [reflexivity|discriminate].
Qed.
