(* Proofs/P14.v — C14: DECSC / DECRC. *)
From Coq Require Import NArith List Bool Lia.
From MT Require Import Lib Types Charsets Tables Screen Spec Obs Stmt.
From MT.Proofs Require Import WF Aeq RefineSimple RefineRestore RefineResize P05 Congr CongrMore SpecAll.
Import ListNotations.
Open Scope N_scope.
Ltac dmatch := repeat match goal with
  | |- context [match ?x with Some _ => _ | None => _ end] => destruct x as [[? ?]|] || destruct x
  | |- context [if ?c then _ else _] => destruct c
  | |- context [let '(_, _) := ?x in _] => destruct x
  | |- context [match ?x with [] => _ | _ :: _ => _ end] => destruct x
  end.

Section S.
Variable wid : cp -> N. Variable is_comb : cp -> bool. Variable nfc : str -> str.
Notation astep := (astep wid is_comb nfc).

(* DECSC pushes exactly: cursor record (position, rendition, visibility), G0, G1, shift state, origin, wrap *)
Lemma c14_save a : astep a OSave =
  a_with_sp a (mkSave (a_cur a) (a_g0 a) (a_g1 a) (a_cs a) (amode a DECOM) (amode a DECAWM) :: a_sp a).
Proof. reflexivity. Qed.
(* DECRC pops: position clamped into the screen and the region, rendition/visibility/charsets reinstated,
   DECOM / DECAWM re-enabled if they were on; on an empty stack: DECOM cleared and the cursor homed *)
Lemma c14_restore_pop a sp rest : a_sp a = sp :: rest ->
  let a' := astep a ORestore in
  a_sp a' = rest /\ a_cs a' = sp_charset sp /\ a_g0 a' = sp_g0 sp /\ a_g1 a' = sp_g1 sp /\
  aattr a' = cu_attr (sp_cursor sp) /\ cu_hidden (a_cur a') = cu_hidden (sp_cursor sp) /\
  ax a' = N.min (cu_x (sp_cursor sp)) (a_cols a - 1) /\
  ay a' = (match a_margins a with Some (t, b) => N.min (N.max (cu_y (sp_cursor sp)) t) b
                                | None => N.min (N.max (cu_y (sp_cursor sp)) 0) (a_lines a - 1) end) /\
  (forall m, amode a' m = ((sp_origin sp && (m =? DECOM)) || (sp_wrap sp && (m =? DECAWM)) || amode a m)) /\
  a_grid a' = a_grid a /\ a_margins a' = a_margins a /\ a_tabs a' = a_tabs a /\ a_cols a' = a_cols a /\ a_lines a' = a_lines a.
Proof.
  intros E. cbn [Spec.astep]. unfold a_restore. rewrite E. unfold a_vclamp. cbn [a_margins a_with_cur a_with_mode a_with_cs a_with_sp orb].
  destruct (a_margins a) as [[t b]|] eqn:EM; unfold a_y, a_xy, a_with_cur, ax, ay, aattr, amode;
    cbn [a_cur a_cols a_lines a_margins a_mode a_tabs a_dirty a_cs a_g0 a_g1 a_title a_icon a_sp a_savedcols a_grid cu_x cu_y cu_attr cu_hidden a_with_mode a_with_cs a_with_sp];
    repeat split; try assumption; try reflexivity;
    intros m; rewrite nmem_nunion; destruct (sp_origin sp), (sp_wrap sp); cbn [app nmem existsb andb orb]; rewrite ?orb_false_r; try reflexivity;
    rewrite ?(N.eqb_sym m); reflexivity.
Qed.
(* DECSC immediately followed by DECRC: everything is as before, except that a pending-wrap cursor comes back in the last column
   and a cursor outside the scrolling region comes back inside it *)
Lemma c14_round_trip a :
  let a' := astep (astep a OSave) ORestore in
  a_sp a' = a_sp a /\ a_cs a' = a_cs a /\ a_g0 a' = a_g0 a /\ a_g1 a' = a_g1 a /\ aattr a' = aattr a /\
  cu_hidden (a_cur a') = cu_hidden (a_cur a) /\ ax a' = N.min (ax a) (a_cols a - 1) /\
  ay a' = (match a_margins a with Some (t, b) => N.min (N.max (ay a) t) b | None => N.min (N.max (ay a) 0) (a_lines a - 1) end) /\
  (forall m, amode a' m = amode a m) /\
  a_grid a' = a_grid a /\ a_margins a' = a_margins a /\ a_tabs a' = a_tabs a /\ a_cols a' = a_cols a /\ a_lines a' = a_lines a.
Proof.
  cbv zeta. set (b := astep a OSave).
  assert (E : a_sp b = mkSave (a_cur a) (a_g0 a) (a_g1 a) (a_cs a) (amode a DECOM) (amode a DECAWM) :: a_sp a) by reflexivity.
  destruct (c14_restore_pop b _ _ E) as [h1 [h2 [h3 [h4 [h5 [h6 [h7 [h8 [h9 [h10 [h11 [h12 [h13 h14]]]]]]]]]]]]].
  repeat split; try assumption.
  intros mm. rewrite h9. cbn [sp_origin sp_wrap]. change (amode b mm) with (amode a mm).
  destruct (N.eqb_spec mm DECOM) as [E1|N1].
  - subst mm. change (DECOM =? DECAWM) with false. change (DECOM =? DECOM) with true. rewrite andb_false_r. destruct (amode a DECOM); reflexivity.
  - destruct (N.eqb_spec mm DECAWM) as [E2|N2].
    + subst mm. change (DECAWM =? DECOM) with false. change (DECAWM =? DECAWM) with true. rewrite andb_false_r. cbn [orb]. destruct (amode a DECAWM); reflexivity.
    + rewrite !andb_false_r. reflexivity.
Qed.
Lemma c14_restore_empty a : a_sp a = [] ->
  astep a ORestore = a_cup (a_with_mode a (nrem DECOM (a_mode a))) None None.
Proof. intros E. cbn [Spec.astep]. unfold a_restore. rewrite E. reflexivity. Qed.
Lemma sp_cup a l c : a_sp (a_cup a l c) = a_sp a.
Proof. change (a_cup a l c) with (astep a (OCup l c)). rewrite (c05_frame wid is_comb nfc a (OCup l c) eq_refl). reflexivity. Qed.
Lemma sp_ed a h : a_sp (a_ed a h) = a_sp a.
Proof.
  unfold a_ed, a_el. destruct (if _ =? 0 then _ else _) as [lo hi].
  destruct ((_ =? 0) || (_ =? 1)); [destruct (_ =? 0); [|destruct (_ =? 1); [|destruct (_ =? 2)]]|]; reflexivity.
Qed.
Lemma sp_resize a l c : a_sp (a_resize a l c) = a_sp a.
Proof. unfold a_resize. destruct (_ && _); reflexivity. Qed.
Lemma sp_set_mode a ms p on : a_sp (a_set_mode a ms p on) = a_sp a.
Proof.
  unfold a_set_mode. set (ml := if p then map (fun m => m * 32) ms else ms).
  set (a1 := if nmem DECSCNM ml then a_all_dirty a else a). assert (E1 : a_sp a1 = a_sp a) by (unfold a1; destruct (nmem DECSCNM ml); reflexivity).
  set (a2 := a_with_mode a1 _). assert (E2 : a_sp a2 = a_sp a) by exact E1.
  set (a3 := if nmem DECCOLM ml then _ else a2).
  assert (E3 : a_sp a3 = a_sp a).
  { unfold a3. destruct (nmem DECCOLM ml); [|exact E2]. rewrite sp_cup, sp_ed.
    destruct on; [rewrite sp_resize; exact E2|]. destruct (a_cols a2 =? 132); [|exact E2].
    destruct (a_savedcols a2); [|exact E2]. cbn [a_sp a_with_savedcols]. rewrite sp_resize. exact E2. }
  set (a4 := if nmem DECOM ml then a_cup a3 None None else a3).
  assert (E4 : a_sp a4 = a_sp a) by (unfold a4; destruct (nmem DECOM ml); [rewrite sp_cup|]; exact E3).
  set (a5 := if nmem DECSCNM ml then _ else a4).
  assert (E5 : a_sp a5 = a_sp a) by (unfold a5; destruct (nmem DECSCNM ml); exact E4).
  destruct (nmem DECTCEM ml); exact E5.
Qed.
(* no other operation touches the stack (resize pushes and pops in the code: net zero, by refinement) *)
Lemma c14_stack_untouched a o : (match o with OSave | ORestore => False | _ => True end) -> a_sp (astep a o) = a_sp a.
Proof.
  intros Ho. destruct o; try contradiction; cbn [Spec.astep]; try reflexivity; try apply sp_set_mode; try apply sp_cup; try apply sp_ed; try apply sp_resize.
  all: try (destruct a as [co li g cu ma mo ta di cs g0 g1 ti ic sp sc]; unfold a_resize, a_tbc, a_set_mode; unf; dmatch; reflexivity).
  - (* draw *) unfold a_draw. cbn [a_sp a_dirty_add a_with_dirty].
    generalize (map (a_translate a) text) as cs. intros cs. revert a. induction cs as [|c cs IH]; intros a; [reflexivity|].
    cbn [fold_left]. rewrite IH. rewrite draw_char_stages. cbv zeta.
    assert (P : forall x, a_sp (pre_wrap x (wid c)) = a_sp x).
    { intros x. unfold pre_wrap. destruct (ax x =? a_cols x); [|reflexivity]. destruct (amode x DECAWM); [|destruct (0 <? wid c); reflexivity].
      destruct x as [co li g cu ma mo ta di cs' g0 g1 ti ic sp sc]. unf. dmatch; reflexivity. }
    assert (Q : forall x, a_sp (place is_comb nfc x c (wid c)) = a_sp x).
    { intros x. unfold place. destruct (_ =? 1); [reflexivity|]. destruct (_ =? 2); [destruct (_ <? _); reflexivity|].
      destruct (_ && _); [|reflexivity]. destruct (0 <? ax x); [reflexivity|]. destruct (0 <? ay x); reflexivity. }
    destruct (0 <? wid c); cbn [a_sp a_x a_xy a_with_cur]; rewrite Q; destruct (amode _ IRM && _); cbn [a_sp a_ich a_with_grid a_dirty_add a_with_dirty]; apply P.
Qed.

(* whatever happens in between (no DECSC/DECRC), the stack below and the record pushed are still there: LIFO *)
Definition no_save_restore (o : op) : Prop := match o with OSave | ORestore => False | _ => True end.
Lemma c14_stack_after_ops ops : forall a, Forall no_save_restore ops -> a_sp (arun wid is_comb nfc a ops) = a_sp a.
Proof.
  induction ops as [|o ops IH]; intros a F; [reflexivity|]. inversion F; subst. cbn [arun fold_left].
  change (fold_left astep ops (astep a o)) with (arun wid is_comb nfc (astep a o) ops). rewrite IH by assumption.
  apply c14_stack_untouched. assumption.
Qed.
Lemma c14_lifo a ops : Forall no_save_restore ops ->
  a_sp (arun wid is_comb nfc (astep a OSave) ops) =
  mkSave (a_cur a) (a_g0 a) (a_g1 a) (a_cs a) (amode a DECOM) (amode a DECAWM) :: a_sp a.
Proof. intros F. rewrite c14_stack_after_ops by assumption. reflexivity. Qed.
End S.
