(* Proofs/Congr.v — the specification respects observational equality: on well-formed states, equal views
   give equal views after any operation (nothing outside the visible grid is ever read). *)
From Coq Require Import NArith List Bool Lia.
From MT Require Import Lib Types Charsets Tables Screen Spec Obs Stmt.
From MT.Proofs Require Import WF Aeq Loops RefineSimple RefineTab P05.
Import ListNotations.
Open Scope N_scope.

Lemma AWF_Aeq a b : AWF a -> Aeq a b -> AWF b.
Proof.
  intros [w1 w2 w3 w4 w5] [q1 q2 q3 q4 q5 q6 q7 q8 q9 q10 q11 q12 q13 q14 q15].
  constructor; unfold ax, ay in *; rewrite <- ?q1, <- ?q2, <- ?q4, <- ?q5; assumption.
Qed.
(* two observationally equal states differ at most in grid, mode list, tab list, dirty list *)
Lemma Aeq_shape a b : Aeq a b ->
  b = mkA (a_cols a) (a_lines a) (a_grid b) (a_cur a) (a_margins a) (a_mode b) (a_tabs b) (a_dirty b)
          (a_cs a) (a_g0 a) (a_g1 a) (a_title a) (a_icon a) (a_sp a) (a_savedcols a).
Proof.
  intros [q1 q2 q3 q4 q5 q6 q7 q8 q9 q10 q11 q12 q13 q14 q15]. destruct b; cbn in *. congruence.
Qed.
Lemma seteq_In l l' x : seteq l l' -> (In x l <-> In x l').
Proof. intros H. rewrite <- !nmem_In, (H x). tauto. Qed.
Lemma least_gt_seteq x l l' : seteq l l' -> least_gt x l = least_gt x l'.
Proof.
  intros H. apply (is_least_gt_unique x l); [apply least_gt_spec|].
  apply (is_least_gt_ext x l'); [intros y; symmetry; apply seteq_In; exact H|apply least_gt_spec].
Qed.

Ltac share2 a b H :=
  destruct H as [q1 q2 q3 q4 q5 q6 q7 q8 q9 q10 q11 q12 q13 q14 q15];
  destruct a as [co li g cu ma mo ta di cs g0 g1 ti ic sp sc];
  destruct b as [co' li' g' cu' ma' mo' ta' di' cs' g0' g1' ti' ic' sp' sc'];
  cbn [a_cols a_lines a_grid a_cur a_margins a_mode a_tabs a_dirty a_cs a_g0 a_g1 a_title a_icon a_sp a_savedcols] in *;
  subst co' li' cu' ma' cs' g0' g1' ti' ic' sp' sc'.
(* call-by-need unfolding of the spec's record plumbing; the states are constructor terms after share2,
   so projections reduce on the spot and nothing is duplicated *)
Ltac unf :=
  lazy beta iota zeta delta
    [a_linefeed a_index a_rindex a_stbm a_ed a_cup a_cuu a_cud a_cuf a_cub a_cha a_vpa a_il a_dl atb
     a_ich a_dch a_ech a_el a_tab a_hts a_tbc a_save a_restore a_sgr a_decaln a_reset a_defcs
     a_vclamp a_cr a_fill_row a_with_title a_with_icon a_with_attr adc amode a_all_dirty
     a_dirty_add a_dirty_range a_x a_y a_xy ax ay aattr a_put
     a_with_cur a_with_grid a_with_dirty a_with_margins a_with_mode a_with_tabs a_with_cs a_with_sp a_with_savedcols
     a_cols a_lines a_grid a_cur a_margins a_mode a_tabs a_dirty a_cs a_g0 a_g1 a_title a_icon a_sp a_savedcols
     cu_x cu_y cu_attr cu_hidden sp_cursor sp_g0 sp_g1 sp_charset sp_origin sp_wrap] in *.
Ltac fin q3 q6 q7 q8 :=
  constructor; cbn [a_cols a_lines a_grid a_cur a_margins a_mode a_tabs a_dirty a_cs a_g0 a_g1 a_title a_icon a_sp a_savedcols] in *;
  try reflexivity; try assumption;
  try (apply seteq_nadd; assumption); try (apply seteq_nrem; assumption); try (apply seteq_nunion; assumption);
  try (intros r c Hr Hc; bdestruct; cbn; try reflexivity; try (apply q3; lia); try lia).
(* destruct every if/match on booleans or margins in the goal (mode tests first rewritten to the left state) *)
Ltac splits :=
  repeat match goal with
  | |- context [match ?m with Some _ => _ | None => _ end] => is_var m; destruct m as [[? ?]|]
  | |- context [if ?c then _ else _] => destruct c eqn:?
  end.

Ltac fin2 q3 :=
  constructor; cbn [a_cols a_lines a_grid a_cur a_margins a_mode a_tabs a_dirty a_cs a_g0 a_g1 a_title a_icon a_sp a_savedcols] in *;
  try reflexivity; try assumption;
  try (apply seteq_nadd; assumption); try (apply seteq_nrem; assumption); try (apply seteq_nunion; assumption);
  try (apply seteq_ndiff; assumption); try apply seteq_refl;
  try (intros r c Hr Hc; cbn [a_cols a_lines a_cur cu_x cu_y] in Hr, Hc; bdestruct; cbn; try reflexivity; try (rewrite q3 by lia; reflexivity); try (apply q3; lia); try lia).
Ltac start W H a b :=
  pose proof W as [w1 w2 w3 w4 w5]; share2 a b H; unfold ax, ay in *; cbn [a_cur a_margins a_cols a_lines cu_x cu_y] in *.
Ltac msplit :=
  repeat match goal with
  | |- context [match ?m with Some _ => _ | None => _ end] => destruct m as [[? ?]|] eqn:?
  end.
Ltac bsplit := repeat match goal with |- context [if ?c then _ else _] => destruct c eqn:? end.

Section S.
Variable wid : cp -> N. Variable is_comb : cp -> bool. Variable nfc : str -> str.
Notation astep := (astep wid is_comb nfc).

(* work with a and b that share all Leibniz-equal fields *)
Lemma congr_cursor_ops o a b : AWF a -> Aeq a b -> is_move o = true -> Aeq (astep a o) (astep b o).
Proof.
  intros W H Ho. start W H a b.
  destruct o; try discriminate Ho; cbn [astep]; unf; rewrite <- ?q6;
    try (destruct ma as [[t bb]|]); bsplit; fin2 q3.
Qed.
Lemma congr_tabs_ops o a b : AWF a -> Aeq a b -> (o = OSetTab \/ (exists h, o = OTbc h) \/ o = OTab) -> Aeq (astep a o) (astep b o).
Proof.
  intros W H Ho. start W H a b.
  destruct Ho as [->|[[h ->]| ->]]; cbn [astep]; unf.
  - fin2 q3.
  - bsplit; fin2 q3.
  - rewrite (least_gt_seteq _ _ _ q7). fin2 q3.
Qed.
Lemma congr_misc_ops o a b : AWF a -> Aeq a b ->
  match o with OBell | ODa _ _ | OSave | OShiftOut | OShiftIn | OTitle _ | OIcon _ | ODisplay | OSgr _ | ODefCharset _ _ | OReset => True | _ => False end ->
  Aeq (astep a o) (astep b o).
Proof.
  intros W H Ho. start W H a b.
  destruct o; try contradiction; cbn [astep]; unf; rewrite <- ?q6.
  - destruct (charset_of_code code); bsplit; fin2 q3.
  - fin2 q3.
  - fin2 q3.
  - fin2 q3.
  - fin2 q3.
  - fin2 q3.
  - fin2 q3.
  - destruct ps; fin2 q3.
  - fin2 q3.
  - fin2 q3.
  - fin2 q3.
Qed.
End S.
