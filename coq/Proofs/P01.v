(* Proofs/P01.v — C01 (model part): the whole pipeline ByteParser -> Parser -> Screen keeps the invariant for
   every byte / character stream, every chunking, every mode switch and every API call. *)
From Coq Require Import NArith List Bool Lia.
From MT Require Import Lib Types Charsets Tables Screen Parser Utf8 World Spec Obs Stmt.
From MT.Proofs Require Import WF Aeq P05 CongrMore SpecAll RefineReset RefineModes RefineAll RunAll Stream Recog P17.
Import ListNotations.
Open Scope N_scope.

Definition no_resize (o : op) : bool := match o with OResize _ _ => false | _ => true end.
Lemma no_resize_ok o : no_resize o = true -> args_ok o.
Proof. destruct o; try (intros _; exact I). discriminate. Qed.
Ltac ifs := repeat match goal with |- context [if ?c then _ else _] => destruct c end; try reflexivity.
Lemma basic_nr c : forallb no_resize (basic_dispatch c) = true. Proof. unfold basic_dispatch. ifs. Qed.
Lemma escape_nr c : forallb no_resize (escape_dispatch c) = true. Proof. unfold escape_dispatch. ifs. Qed.
Lemma csi_nr c ps q : forallb no_resize (csi_dispatch c ps q) = true. Proof. unfold csi_dispatch. ifs. Qed.
Lemma osc_nr code acc : forallb no_resize (osc_finish code acc) = true. Proof. unfold osc_finish. ifs. Qed.
(* the recogniser never delivers a resize: every event it emits is a legal screen operation *)
Lemma pstep_nr u st c : forallb no_resize (snd (pstep u st c)) = true.
Proof.
  destruct st; cbn [pstep].
  - destruct (c =? ESC); [reflexivity|]. unfold start_step. destruct (nmem c basic_ctrls).
    + destruct (_ && _); [reflexivity|apply basic_nr].
    + ifs.
  - repeat (match goal with |- context [if ?c then _ else _] => destruct c end; try reflexivity). apply escape_nr.
  - cbn [snd]. ifs.
  - reflexivity.
  - cbn [snd]. ifs.
  - destruct (c =? 63); [reflexivity|]. destruct (nmem c allowed_in_csi); [apply basic_nr|].
    destruct (_ || _); [reflexivity|]. destruct (_ || _); [reflexivity|]. destruct (is_digit c); [reflexivity|].
    destruct (c =? 36); [reflexivity|]. cbv zeta. destruct (c =? 59); [reflexivity|apply csi_nr].
  - reflexivity.
  - ifs.
  - destruct n as [|[|m]]; reflexivity.
  - destruct (c =? ESC); [reflexivity|]. destruct (_ || _); [apply osc_nr|reflexivity].
  - destruct (c =? 92); [apply osc_nr|reflexivity].
Qed.

Section S.
Variable wid : cp -> N. Variable is_comb : cp -> bool. Variable nfc : str -> str.
Notation step := (step wid is_comb nfc).
Notation world := (world).
Notation feed_char := (feed_char wid is_comb nfc).
Notation feed_chars := (feed_chars wid is_comb nfc).
Notation feed_bytes := (feed_bytes wid is_comb nfc).
Notation wstep := (wstep wid is_comb nfc).
Notation wrun := (wrun wid is_comb nfc).

Definition WInv (w : world) : Prop := WF (w_scr w) /\ SCm (w_scr w).
Lemma steps_inv evs : forall s, forallb no_resize evs = true -> WF s /\ SCm s -> WF (fold_left step evs s) /\ SCm (fold_left step evs s).
Proof.
  induction evs as [|o evs IH]; intros s H [W SC]; [split; assumption|].
  cbn [forallb] in H. apply andb_true_iff in H. destruct H as [Ho Hr]. cbn [fold_left].
  destruct (refine_step wid is_comb nfc s o W SC (no_resize_ok o Ho)) as [_ [W' SC']]. apply IH; [exact Hr|split; assumption].
Qed.
Lemma feed_char_inv w c : WInv w -> WInv (feed_char w c).
Proof.
  intros I. unfold World.feed_char. pose proof (pstep_nr (w_utf8 w) (w_pst w) c) as H.
  destruct (pstep (w_utf8 w) (w_pst w) c) as [p evs]. cbn [snd] in H. unfold WInv. cbn [w_scr]. apply steps_inv; assumption.
Qed.
Lemma feed_chars_inv cs : forall w, WInv w -> WInv (feed_chars w cs).
Proof. induction cs as [|c cs IH]; intros w I; [exact I|]. cbn [World.feed_chars fold_left]. apply IH. apply feed_char_inv. exact I. Qed.
Lemma feed_bytes_inv w bs : WInv w -> WInv (feed_bytes w bs).
Proof.
  intros I. unfold World.feed_bytes. destruct (w_utf8 w); [|apply feed_chars_inv; exact I].
  destruct (drun (w_dec w) bs) as [d cs]. apply feed_chars_inv. exact I.
Qed.
Definition wop_ok (o : wop) : Prop := match o with WApi a => args_ok a | _ => True end.
Lemma wstep_inv w o : wop_ok o -> WInv w -> WInv (wstep w o).
Proof.
  intros Ho I. destruct o; cbn [World.wstep].
  - apply feed_bytes_inv; exact I.
  - apply feed_chars_inv; exact I.
  - unfold select_other. destruct (leqb code [64]); [exact I|]. destruct (_ || _); exact I.
  - destruct I as [W SC]. destruct (refine_step wid is_comb nfc (w_scr w) o W SC Ho) as [_ [W' SC']]. split; assumption.
  - destruct I as [W SC]. destruct (WF_clear_dirty (w_scr w) W) as [W' E]. split; [exact W'|exact SC].
Qed.
(* every history of byte chunks, character chunks, mode switches, API calls (resize to >= 1x1) and dirty-clears, from
   Screen::new of any size >= 1x1 *)
Theorem world_invariant cols lns os : 1 <= cols -> 1 <= lns -> Forall wop_ok os -> WInv (wrun (winit cols lns) os).
Proof.
  intros Hc Hl F.
  assert (I0 : WInv (winit cols lns)).
  { split; [apply WF_init; assumption|]. unfold SCm, World.winit, w_scr, init. rewrite reset_closed by assumption. exact I. }
  revert I0. unfold World.wrun. generalize (winit cols lns) as w.
  induction os as [|o os IH]; intros w I0; [exact I0|].
  inversion F as [|? ? Ho Fo]; subst. cbn [fold_left]. apply IH; [exact Fo|]. apply wstep_inv; assumption.
Qed.
End S.
