(* Proofs/Loops.v — get-characterisations of the loops of Screen.v, generic in the map's value type:
   range fill, row copies, and the two in-place shifts (right in reverse order: ICH / IL;
   left in forward order: DCH / DL). *)
From Coq Require Import NArith List Bool Lia.
From MT Require Import Lib Types Screen.
Import ListNotations.
Open Scope N_scope.

Ltac bdestruct :=
  repeat match goal with
  | |- context [?a =? ?b] => destruct (N.eqb_spec a b)
  | |- context [?a <? ?b] => destruct (N.ltb_spec a b)
  | |- context [?a <=? ?b] => destruct (N.leb_spec a b)
  end.

Section Gen.
Context {A : Type}.
Implicit Types m : NMap.t A.

Lemma fill_get (v : A) n : forall lo m c,
  NMap.get c (fold_left (fun l x => NMap.set x v l) (range_nat lo n) m)
  = if (lo <=? c) && (c <? lo + N.of_nat n) then Some v else NMap.get c m.
Proof.
  induction n as [|n IH]; intros lo m c.
  - cbn [range_nat fold_left]. bdestruct; cbn; try reflexivity; lia.
  - cbn [range_nat fold_left]. rewrite IH, NMap.get_set.
    bdestruct; cbn; try reflexivity; lia.
Qed.
Lemma fill_range_get (v : A) lo hi m c :
  NMap.get c (fold_left (fun l x => NMap.set x v l) (range lo hi) m)
  = if (lo <=? c) && (c <? hi) then Some v else NMap.get c m.
Proof.
  unfold range. rewrite fill_get. bdestruct; cbn; try reflexivity; lia.
Qed.
Lemma remove_nat_get n : forall lo m c,
  NMap.get c (fold_left (fun l x => NMap.remove x l) (range_nat lo n) m)
  = if (lo <=? c) && (c <? lo + N.of_nat n) then None else NMap.get c m.
Proof.
  induction n as [|n IH]; intros lo m c.
  - cbn [range_nat fold_left]. bdestruct; cbn; try reflexivity; lia.
  - cbn [range_nat fold_left]. rewrite IH, NMap.get_remove. bdestruct; cbn; try reflexivity; lia.
Qed.
Lemma remove_range_get lo hi m c :
  NMap.get c (fold_left (fun l x => NMap.remove x l) (range lo hi) m)
  = if (lo <=? c) && (c <? hi) then None else NMap.get c m.
Proof. unfold range. rewrite remove_nat_get. bdestruct; cbn; try reflexivity; lia. Qed.

(* ---- right shift, processed from the top down: ICH (cells), IL (rows) ---- *)
Section Shr.
Variables (k L x0 : N) (f : option A -> option A) (g : option A) (orig : NMap.t A).
Hypothesis Hk : 1 <= k.
Definition shr_inv (j : N) m : Prop :=
  forall c, NMap.get c m =
    if (j <=? c) && (c <? L) then (if c <? j + k then g else f (NMap.get (c - k) orig)) else NMap.get c orig.
Lemma shr_step j m : j < L -> shr_inv (j + 1) m -> shr_inv j (shr_body k L f g m j).
Proof.
  intros Hj I c. unfold shr_body.
  rewrite NMap.get_setopt.
  assert (Ej : NMap.get j m = NMap.get j orig).
  { rewrite (I j). bdestruct; cbn; try reflexivity; lia. }
  destruct (N.ltb_spec (j + k) L) as [Hlt|Hge].
  - rewrite NMap.get_setopt, Ej, (I c).
    bdestruct; cbn; try reflexivity; try lia; subst. all: try (f_equal; f_equal; lia).
  - rewrite (I c). bdestruct; cbn; try reflexivity; lia.
Qed.
Lemma shr_fold n : forall m, x0 + N.of_nat n <= L -> shr_inv (x0 + N.of_nat n) m ->
  shr_inv x0 (fold_left (shr_body k L f g) (rev (range_nat x0 n)) m).
Proof.
  induction n as [|n IH]; intros m Hn I.
  - cbn. replace (x0 + N.of_nat 0) with x0 in I by lia. exact I.
  - rewrite range_nat_snoc, rev_app_distr. cbn [rev app fold_left].
    apply IH; [lia|]. apply shr_step; [lia|].
    replace (x0 + N.of_nat n + 1) with (x0 + N.of_nat (S n)) by lia. exact I.
Qed.
End Shr.
Lemma shr_get (k L x0 : N) f g m c : 1 <= k -> x0 <= L ->
  NMap.get c (fold_left (shr_body k L f g) (rev (range x0 L)) m) =
    if (x0 <=? c) && (c <? L) then (if c <? x0 + k then g else f (NMap.get (c - k) m)) else NMap.get c m.
Proof.
  intros Hk Hx. unfold range.
  apply (shr_fold k L x0 f g m Hk (N.to_nat (L - x0)) m); [lia|].
  intros c'. bdestruct; cbn; try reflexivity; lia.
Qed.

(* ---- left shift, processed upwards: DCH (cells), DL (rows) ---- *)
Section Shl.
Variables (k L x0 : N) (f : option A -> option A) (orig : NMap.t A).
Hypothesis Hk : 1 <= k.
Definition shl_inv (j : N) m : Prop :=
  forall c, NMap.get c m =
    if (x0 <=? c) && (c <? j) then (if c + k <? L then f (NMap.get (c + k) orig) else None)
    else if (j <=? c) && (c <? L) && (x0 + k <=? c) && (c <? j + k) then None
    else NMap.get c orig.
Lemma shl_step j m : x0 <= j -> j < L -> shl_inv j m -> shl_inv (j + 1) (shl_body k L f m j).
Proof.
  intros H0 Hj I c. unfold shl_body.
  destruct (N.ltb_spec (j + k) L) as [Hlt|Hge].
  - rewrite NMap.get_setopt, NMap.get_remove.
    assert (Ej : NMap.get (j + k) m = NMap.get (j + k) orig).
    { rewrite (I (j + k)). bdestruct; cbn; try reflexivity; lia. }
    rewrite Ej, (I c).
    bdestruct; cbn; try reflexivity; try lia; subst. all: try reflexivity. all: try (f_equal; f_equal; lia).
  - rewrite NMap.get_remove, (I c). bdestruct; cbn; try reflexivity; lia.
Qed.
Lemma shl_fold n : forall j m, x0 <= j -> j + N.of_nat n <= L -> shl_inv j m ->
  shl_inv (j + N.of_nat n) (fold_left (shl_body k L f) (range_nat j n) m).
Proof.
  induction n as [|n IH]; intros j m H0 Hn I.
  - cbn [range_nat fold_left]. replace (j + N.of_nat 0) with j by lia. exact I.
  - cbn [range_nat fold_left].
    replace (j + N.of_nat (S n)) with (N.succ j + N.of_nat n) by lia.
    apply IH; try lia. replace (N.succ j) with (j + 1) by lia. apply shl_step; try lia. exact I.
Qed.
End Shl.
Lemma shl_get (k L x0 : N) f m c : 1 <= k -> x0 <= L ->
  NMap.get c (fold_left (shl_body k L f) (range x0 L) m) =
    if (x0 <=? c) && (c <? L) then (if c + k <? L then f (NMap.get (c + k) m) else None) else NMap.get c m.
Proof.
  intros Hk Hx. unfold range.
  pose proof (shl_fold k L x0 f m Hk (N.to_nat (L - x0)) x0 m) as G.
  assert (I0 : shl_inv k L x0 f m x0 m).
  { intros c'. bdestruct; cbn; try reflexivity; lia. }
  specialize (G (N.le_refl _)). rewrite (G ltac:(lia) I0 c).
  bdestruct; cbn; try reflexivity; lia.
Qed.
End Gen.

(* ---- row copies used by index / reverse_index ---- *)
Lemma existsb_rev {B} (p : B -> bool) l : existsb p (rev l) = existsb p l.
Proof.
  induction l as [|a l IH]; [reflexivity|]. cbn [rev]. rewrite existsb_app, IH. cbn.
  destruct (existsb p l), (p a); reflexivity.
Qed.
Lemma existsb_range_off off lo hi r :
  existsb (fun y => y + off =? r) (range lo hi) = (lo + off <=? r) && (r <? hi + off) && (lo <? hi).
Proof.
  destruct (existsb (fun y => y + off =? r) (range lo hi)) eqn:E.
  - apply existsb_exists in E. destruct E as [y [Hy Hr]]. apply in_range in Hy. apply N.eqb_eq in Hr.
    symmetry. bdestruct; cbn; try reflexivity; lia.
  - symmetry. destruct ((lo + off <=? r) && (r <? hi + off) && (lo <? hi)) eqn:E2; [|reflexivity].
    exfalso. apply andb_true_iff in E2. destruct E2 as [E2 E3]. apply andb_true_iff in E2. destruct E2 as [E1 E2].
    apply N.leb_le in E1. apply N.ltb_lt in E2. apply N.ltb_lt in E3.
    assert (X : existsb (fun y => y + off =? r) (range lo hi) = true).
    { apply existsb_exists. exists (r - off). split; [apply in_range; lia|apply N.eqb_eq; lia]. }
    congruence.
Qed.
Lemma copy_rows_get (old : NMap.t row) off l : forall nb r,
  NMap.get r (fold_left (copy_row old off) l nb)
  = if existsb (fun y => y + off =? r) l then Some (orow (NMap.get (r - off) old)) else NMap.get r nb.
Proof.
  induction l as [|y l IH]; intros nb r; [reflexivity|].
  cbn [fold_left existsb]. rewrite IH. unfold copy_row. rewrite NMap.get_set.
  destruct (existsb (fun y0 => y0 + off =? r) l); [rewrite orb_true_r; reflexivity|].
  rewrite orb_false_r. rewrite (N.eqb_sym r). destruct (N.eqb_spec (y + off) r); [|reflexivity].
  subst. do 3 f_equal. lia.
Qed.
Lemma pull_rows_get (old : NMap.t row) l : forall nb r,
  NMap.get r (fold_left (fun nb y => NMap.set y (orow (NMap.get (y + 1) old)) nb) l nb)
  = if existsb (fun y => y =? r) l then Some (orow (NMap.get (r + 1) old)) else NMap.get r nb.
Proof.
  induction l as [|y l IH]; intros nb r; [reflexivity|].
  cbn [fold_left existsb]. rewrite IH. rewrite NMap.get_set.
  destruct (existsb (fun y0 => y0 =? r) l); [rewrite orb_true_r; reflexivity|].
  rewrite orb_false_r. rewrite (N.eqb_sym r). destruct (N.eqb_spec y r); [subst; reflexivity|reflexivity].
Qed.
