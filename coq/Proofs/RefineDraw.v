(* Proofs/RefineDraw.v — draw(): per character, the model's wrap / insert / place / advance steps refine the
   specification's; lifted to strings. Parametric in the width / combining / NFC oracles. *)
From Coq Require Import NArith List Bool Lia.
From MT Require Import Lib Types Charsets Tables Screen Spec Obs Stmt.
From MT.Proofs Require Import WF Aeq Loops View RefineSimple RefineErase RefineShift RefineScroll P05 Congr CongrGrid CongrMore.
Import ListNotations.
Open Scope N_scope.

Section S.
Variable wid : cp -> N. Variable is_comb : cp -> bool. Variable nfc : str -> str.
Notation step := (step wid is_comb nfc).
Notation astep := (astep wid is_comb nfc).
Ltac sv := try exact wid; try exact is_comb; try exact nfc.

(* writing one cell inside the grid *)
Lemma put_cell_spec s y x cl : WF s -> y < lines s -> x < columns s ->
  Aeq (abs (put_cell s y x cl)) (a_put (abs s) y x cl) /\ WF (put_cell s y x cl).
Proof.
  intros W Hy Hx. split.
  - constructor; try reflexivity; try apply seteq_refl. intros r c Hr Hc. cbn [abs a_grid a_put a_with_grid].
    rewrite (cellv_set_row s (put_cell s y x cl) y (NMap.set x cl (orow (NMap.get y (buffer s))))); [|reflexivity|reflexivity].
    destruct (N.eqb_spec r y); cbn [andb]; [|reflexivity]. subst r. unfold rowv. rewrite NMap.get_set.
    destruct (N.eqb_spec c x); [reflexivity|]. rewrite cellv_rowv. reflexivity.
  - apply (WF_set_row s _ y (NMap.set x cl (orow (NMap.get y (buffer s))))); try reflexivity; auto.
    + apply (wf_dirty s W).
    + intros c v. rewrite NMap.get_set. destruct (N.eqb_spec c x); [intros _; subst; exact Hx|apply orow_keys; exact W].
Qed.
(* materialising the (possibly absent) cursor row changes nothing visible *)
Lemma touch_row_spec s y : WF s -> y < lines s ->
  let s' := set_buffer s (NMap.set y (orow (NMap.get y (buffer s))) (buffer s)) in
  Aeq (abs s') (abs s) /\ WF s'.
Proof.
  intros W Hy. cbv zeta. split.
  - constructor; try reflexivity; try apply seteq_refl. intros r c Hr Hc. cbn [abs a_grid].
    rewrite (cellv_set_row s _ y (orow (NMap.get y (buffer s)))); [|reflexivity|reflexivity].
    destruct (N.eqb_spec r y); [subst; rewrite cellv_rowv; reflexivity|reflexivity].
  - apply (WF_set_row s _ y (orow (NMap.get y (buffer s)))); try reflexivity; auto.
    + apply (wf_dirty s W).
    + intros c v. apply orow_keys. exact W.
Qed.
Lemma append_mark_spec s y x ch : WF s -> y < lines s -> x < columns s ->
  Aeq (abs (append_mark nfc s y x ch))
      (a_put (abs s) y x (with_data (cellv s y x) (nfc (c_data (cellv s y x)) ++ [ch]))) /\ WF (append_mark nfc s y x ch).
Proof.
  intros W Hy Hx. unfold append_mark.
  assert (E : match NMap.get x (orow (NMap.get y (buffer s))) with Some c => c | None => default_char s end = cellv s y x)
    by (rewrite cellv_rowv; reflexivity).
  rewrite E. apply put_cell_spec; assumption.
Qed.

(* a model state and a specification state in correspondence *)
Definition Ref (s : screen) (a : astate) : Prop := WF s /\ Aeq (abs s) a.
Lemma Ref_AWF s a : Ref s a -> AWF a.
Proof. intros [W H]. apply (AWF_Aeq (abs s)); [apply AWF_abs; exact W|exact H]. Qed.
Lemma Ref_fields s a : Ref s a ->
  a_cols a = columns s /\ a_lines a = lines s /\ a_cur a = cur s /\ a_margins a = margins s /\
  (forall m, amode a m = has_mode s m) /\ a_cs a = charset s /\ a_g0 a = g0 s /\ a_g1 a = g1 s.
Proof.
  intros [W H]. destruct (Aeq_fields (abs s) a H) as [e1 [e2 [e3 [e4 [e5 [_ [_ [e8 [e9 e10]]]]]]]]].
  repeat split; assumption.
Qed.
(* chaining: a model operation that refines a congruent specification operation preserves Ref *)
Lemma Ref_step s a (f : screen -> screen) (F : astate -> astate) :
  Ref s a -> (WF s -> Aeq (abs (f s)) (F (abs s)) /\ WF (f s)) -> (AWF (abs s) -> Aeq (F (abs s)) (F a)) -> Ref (f s) (F a).
Proof.
  intros [W H] Hf HF. destruct (Hf W) as [A W']. split; [exact W'|].
  eapply Aeq_trans; [exact A|]. apply HF. apply AWF_abs. exact W.
Qed.

Lemma Ref_add_dirty s a y : Ref s a -> y < lines s -> Ref (add_dirty s y) (a_dirty_add a y).
Proof.
  intros R Hy. apply (Ref_step s a (fun s => add_dirty s y) (fun a => a_dirty_add a y) R).
  - intros W. split; [apply Aeq_refl|apply add_dirty_WF; assumption].
  - intros _. apply cg_dirty_add. apply R.
Qed.
Lemma Ref_cr s a : Ref s a -> Ref (carriage_return s) (a_cr a).
Proof.
  intros R. apply (Ref_step s a carriage_return a_cr R).
  - intros W. split; [apply Aeq_refl|apply WF_cr; exact W].
  - intros _. apply cg_cr. apply R.
Qed.
Lemma Ref_linefeed s a : Ref s a -> Ref (linefeed s) (a_linefeed a).
Proof.
  intros R. apply (Ref_step s a linefeed a_linefeed R).
  - intros W. split; [apply ref_linefeed_gen; sv; exact W|apply WF_linefeed_gen; exact W].
  - intros AW. apply cg_linefeed; [exact AW|apply R].
Qed.
Lemma Ref_set_x s a x : Ref s a -> x <= columns s -> Ref (set_x s x) (a_x a x).
Proof.
  intros R Hx. apply (Ref_step s a (fun s => set_x s x) (fun a => a_x a x) R).
  - intros W. split; [apply Aeq_refl|]. destruct W as [w1 w2 w3 w4 w5 w6 w7 w8]. constructor; auto.
  - intros _. apply cg_x. apply R.
Qed.
Lemma Ref_ich s a n : Ref s a -> Ref (insert_characters s n) (a_ich a n).
Proof.
  intros R. apply (Ref_step s a (fun s => insert_characters s n) (fun a => a_ich a n) R).
  - intros W. split; [apply ref_ich_gen; sv; exact W|apply WF_ich_gen; exact W].
  - intros AW. apply cg_ich; [exact AW|apply R].
Qed.
Lemma Ref_put s a y x cl : Ref s a -> y < lines s -> x < columns s -> Ref (put_cell s y x cl) (a_put a y x cl).
Proof.
  intros R Hy Hx. apply (Ref_step s a (fun s => put_cell s y x cl) (fun a => a_put a y x cl) R).
  - intros W. apply put_cell_spec; assumption.
  - intros _. apply cg_put. apply R.
Qed.
Lemma Ref_touch s a y : Ref s a -> y < lines s -> Ref (set_buffer s (NMap.set y (orow (NMap.get y (buffer s))) (buffer s))) a.
Proof.
  intros [W H] Hy. destruct (touch_row_spec s y W Hy) as [A W']. split; [exact W'|]. eapply Aeq_trans; [exact A|exact H].
Qed.

(* stage 1: pending wrap *)
Definition m_pre_wrap (s : screen) (w : N) : screen :=
  if cx s =? columns s then
    if has_mode s DECAWM then linefeed (carriage_return (add_dirty s (cy s))) else if 0 <? w then set_x s (cx s - w) else s
  else s.
Lemma Ref_pre_wrap s a w : Ref s a -> Ref (m_pre_wrap s w) (pre_wrap a w).
Proof.
  intros R. destruct (Ref_fields s a R) as [e1 [e2 [e3 [e4 [e5 _]]]]]. pose proof R as [W _].
  unfold m_pre_wrap, pre_wrap, ax, ay. rewrite e1, e3, (e5 DECAWM). fold (cx s) (cy s).
  destruct (cx s =? columns s); [|exact R].
  destruct (has_mode s DECAWM).
  - apply Ref_linefeed. apply Ref_cr. apply Ref_add_dirty; [exact R|apply (wf_y s W)].
  - destruct (0 <? w); [|exact R]. apply Ref_set_x; [exact R|]. pose proof (wf_x s W). lia.
Qed.
Lemma m_pre_wrap_cx s w : WF s -> 0 < w -> cx (m_pre_wrap s w) < columns (m_pre_wrap s w).
Proof.
  intros W Hw. pose proof (wf_x s W) as Hx. pose proof (wf_cols s W) as Hc. unfold m_pre_wrap.
  destruct (N.eqb_spec (cx s) (columns s)) as [E|E]; [|lia].
  destruct (has_mode s DECAWM).
  - (* wrapped: column 0 *)
    assert (C : columns (linefeed (carriage_return (add_dirty s (cy s)))) = columns s /\ cx (linefeed (carriage_return (add_dirty s (cy s)))) = 0).
    { unfold linefeed, index. destruct (margins_or_full (carriage_return (add_dirty s (cy s)))) as [t b].
      destruct (cy (carriage_return (add_dirty s (cy s))) =? b); cbn [add_dirty_range set_buffer set_dirty];
        match goal with |- context [if ?c then _ else _] => destruct c end; split; reflexivity. }
    destruct C as [C1 C2]. rewrite C1, C2. lia.
  - assert (Ew : (0 <? w) = true) by (apply N.ltb_lt; exact Hw). rewrite Ew. unfold cx, set_x. cbn. unfold cx in *. lia.
Qed.

(* stage 3: placing the character *)
Definition m_place (s : screen) (ch : cp) (w : N) : screen :=
  if w =? 1 then put_cell s (cy s) (cx s) (with_data (cu_attr (cur s)) [ch])
  else if w =? 2 then
    let s1 := put_cell s (cy s) (cx s) (with_data (cu_attr (cur s)) [ch]) in
    if cx s1 + 1 <? columns s1 then put_cell s1 (cy s1) (cx s1 + 1) (with_data (cu_attr (cur s1)) []) else s1
  else if (w =? 0) && is_comb ch then
    if 0 <? cx s then append_mark nfc s (cy s) (cx s - 1) ch
    else if 0 <? cy s then add_dirty (append_mark nfc s (cy s - 1) (columns s - 1) ch) (cy s - 1)
    else s
  else s.
Lemma Ref_place s a ch w : Ref s a -> (0 < w -> cx s < columns s) -> Ref (m_place s ch w) (place is_comb nfc a ch w).
Proof.
  intros R Hx. destruct (Ref_fields s a R) as [e1 [e2 [e3 [e4 [e5 _]]]]]. pose proof R as [W H].
  pose proof (wf_y s W) as Hy. pose proof (wf_x s W) as Hxx. pose proof (wf_cols s W) as Hc.
  unfold m_place, place, ax, ay, aattr. cbn [a_cur a_put a_with_grid a_cols]. rewrite e1, e3. fold (cx s) (cy s).
  destruct (N.eqb_spec w 1).
  - apply Ref_put; [exact R|exact Hy|apply Hx; lia].
  - destruct (N.eqb_spec w 2).
    + cbn zeta. change (cx (put_cell s (cy s) (cx s) _)) with (cx s). change (cy (put_cell s (cy s) (cx s) _)) with (cy s).
      change (columns (put_cell s (cy s) (cx s) _)) with (columns s). change (cur (put_cell s (cy s) (cx s) _)) with (cur s).
      destruct (N.ltb_spec (cx s + 1) (columns s)).
      * apply Ref_put; [apply Ref_put; [exact R|exact Hy|apply Hx; lia]|exact Hy|exact H0].
      * apply Ref_put; [exact R|exact Hy|apply Hx; lia].
    + destruct ((w =? 0) && is_comb ch); [|exact R].
      destruct (N.ltb_spec 0 (cx s)).
      * (* previous cell on the same row *)
        assert (G : a_grid a (cy s) (cx s - 1) = cellv s (cy s) (cx s - 1)).
        { symmetry. apply (q_grid _ _ H); cbn [abs a_lines a_cols]; unfold cx, cy in *; lia. }
        rewrite G.
        apply (Ref_step s a (fun s0 => append_mark nfc s0 (cy s) (cx s - 1) ch)
                 (fun a0 => a_put a0 (cy s) (cx s - 1) (with_data (cellv s (cy s) (cx s - 1)) (nfc (c_data (cellv s (cy s) (cx s - 1))) ++ [ch]))) R).
        -- intros _. apply append_mark_spec; [exact W|exact Hy|unfold cx in *; lia].
        -- intros _. apply cg_put. exact H.
      * destruct (N.ltb_spec 0 (cy s)); [|exact R].
        assert (G : a_grid a (cy s - 1) (columns s - 1) = cellv s (cy s - 1) (columns s - 1)).
        { symmetry. apply (q_grid _ _ H); cbn [abs a_lines a_cols]; unfold cy in *; lia. }
        rewrite G.
        assert (R1 : Ref (append_mark nfc s (cy s - 1) (columns s - 1) ch)
                         (a_put a (cy s - 1) (columns s - 1) (with_data (cellv s (cy s - 1) (columns s - 1)) (nfc (c_data (cellv s (cy s - 1) (columns s - 1))) ++ [ch])))).
        { apply (Ref_step s a (fun s0 => append_mark nfc s0 (cy s - 1) (columns s - 1) ch)
                 (fun a0 => a_put a0 (cy s - 1) (columns s - 1) (with_data (cellv s (cy s - 1) (columns s - 1)) (nfc (c_data (cellv s (cy s - 1) (columns s - 1))) ++ [ch]))) R).
          - intros _. apply append_mark_spec; [exact W|unfold cy in *; lia|lia].
          - intros _. apply cg_put. exact H. }
        apply Ref_add_dirty; [exact R1|]. change (lines (append_mark nfc s (cy s - 1) (columns s - 1) ch)) with (lines s). unfold cy in *. lia.
Qed.

(* the model's draw_char as the same four stages *)
Lemma m_draw_char_stages s ch :
  draw_char wid is_comb nfc s ch =
  let w := wid ch in
  let s1 := m_pre_wrap s w in
  let s2 := if has_mode s1 IRM && (0 <? w) then insert_characters s1 (Some w) else s1 in
  let s2' := set_buffer s2 (NMap.set (cy s2) (orow (NMap.get (cy s2) (buffer s2))) (buffer s2)) in
  let s3 := m_place s2' ch w in
  if 0 <? w then set_x s3 (N.min (cx s3 + w) (columns s3)) else s3.
Proof. reflexivity. Qed.

Theorem Ref_draw_char s a ch : Ref s a -> Ref (draw_char wid is_comb nfc s ch) (a_draw_char wid is_comb nfc a ch).
Proof.
  intros R. rewrite m_draw_char_stages, draw_char_stages. cbv zeta.
  pose proof (Ref_pre_wrap s a (wid ch) R) as R1.
  assert (X1 : 0 < wid ch -> cx (m_pre_wrap s (wid ch)) < columns (m_pre_wrap s (wid ch))) by (intros Hw; apply m_pre_wrap_cx; [apply R|exact Hw]).
  revert R1 X1. generalize (m_pre_wrap s (wid ch)) as s1. generalize (pre_wrap a (wid ch)) as a1. intros a1 s1 R1 X1.
  destruct (Ref_fields s1 a1 R1) as [_ [_ [_ [_ [e5 _]]]]]. rewrite (e5 IRM).
  assert (R2 : Ref (if has_mode s1 IRM && (0 <? wid ch) then insert_characters s1 (Some (wid ch)) else s1)
                   (if has_mode s1 IRM && (0 <? wid ch) then a_ich a1 (Some (wid ch)) else a1))
    by (destruct (has_mode s1 IRM && (0 <? wid ch)); [apply Ref_ich|]; exact R1).
  assert (X2 : 0 < wid ch -> cx (if has_mode s1 IRM && (0 <? wid ch) then insert_characters s1 (Some (wid ch)) else s1)
                             < columns (if has_mode s1 IRM && (0 <? wid ch) then insert_characters s1 (Some (wid ch)) else s1))
    by (destruct (has_mode s1 IRM && (0 <? wid ch)); exact X1).
  revert R2 X2. generalize (if has_mode s1 IRM && (0 <? wid ch) then insert_characters s1 (Some (wid ch)) else s1) as s2.
  generalize (if has_mode s1 IRM && (0 <? wid ch) then a_ich a1 (Some (wid ch)) else a1) as a2. intros a2 s2 R2 X2.
  pose proof (Ref_touch s2 a2 (cy s2) R2 (wf_y s2 (proj1 R2))) as R2'.
  pose proof (Ref_place _ a2 ch (wid ch) R2' X2) as R3.
  revert R3. generalize (m_place (set_buffer s2 (NMap.set (cy s2) (orow (NMap.get (cy s2) (buffer s2))) (buffer s2))) ch (wid ch)) as s3.
  generalize (place is_comb nfc a2 ch (wid ch)) as a3. intros a3 s3 R3.
  destruct (0 <? wid ch); [|exact R3].
  destruct (Ref_fields s3 a3 R3) as [e1 [_ [e3 _]]]. unfold ax. rewrite e1, e3. fold (cx s3).
  apply Ref_set_x; [exact R3|lia].
Qed.
Theorem Ref_draw s a t : Ref s a -> Ref (draw wid is_comb nfc s t) (a_draw wid is_comb nfc a t).
Proof.
  intros R. unfold draw, a_draw. destruct (Ref_fields s a R) as [_ [_ [_ [_ [_ [e6 [e7 e8]]]]]]].
  assert (T : map (a_translate a) t = map (translate_char s) t).
  { apply map_ext. intros c. unfold a_translate, translate_char. rewrite e6, e7, e8. reflexivity. }
  rewrite T.
  assert (G : forall cs s0 a0, Ref s0 a0 -> Ref (fold_left (draw_char wid is_comb nfc) cs s0) (fold_left (a_draw_char wid is_comb nfc) cs a0)).
  { induction cs as [|c cs IH]; intros s0 a0 R0; [exact R0|]. cbn [fold_left]. apply IH. apply Ref_draw_char. exact R0. }
  specialize (G (map (translate_char s) t) s a R).
  revert G. generalize (fold_left (draw_char wid is_comb nfc) (map (translate_char s) t) s) as s'.
  generalize (fold_left (a_draw_char wid is_comb nfc) (map (translate_char s) t) a) as a'. intros a' s' G.
  destruct (Ref_fields s' a' G) as [_ [_ [e3 _]]]. unfold ay. rewrite e3. fold (cy s').
  apply Ref_add_dirty; [exact G|apply (wf_y s' (proj1 G))].
Qed.
End S.
