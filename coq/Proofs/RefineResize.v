(* Proofs/RefineResize.v — resize(): the save / home / delete-lines / restore dance plus column truncation
   computes the documented crop-and-pad, stores nothing outside the new grid, and clamps the cursor. *)
From Coq Require Import NArith List Bool Lia.
From MT Require Import Lib Types Charsets Tables Screen Spec Obs Stmt.
From MT.Proofs Require Import WF Aeq Loops View RefineSimple RefineErase RefineShift RefineRestore P05.
Import ListNotations.
Open Scope N_scope.

Lemma nadd_present x l : nmem x l = true -> nadd x l = l.
Proof. intros H. unfold nadd. rewrite H. reflexivity. Qed.

Section S.
Variable wid : cp -> N. Variable is_comb : cp -> bool. Variable nfc : str -> str.
Notation step := (step wid is_comb nfc).
Notation astep := (astep wid is_comb nfc).

Definition shrink_rows (buf : NMap.t row) (lns d : N) : NMap.t row :=
  fold_left (shl_body d (lns - 1 + 1) (fun o => o)) (range 0 (lns - 1 + 1)) buf.
Lemma shrink_rows_get buf lns d r : 1 <= d -> 1 <= lns ->
  NMap.get r (shrink_rows buf lns d) = if r <? lns then (if r + d <? lns then NMap.get (r + d) buf else None) else NMap.get r buf.
Proof.
  intros Hd Hl. unfold shrink_rows. rewrite shl_get by lia. replace (lns - 1 + 1) with lns by lia.
  destruct (N.leb_spec 0 r); [|lia]. cbn [andb]. reflexivity.
Qed.
(* delete_lines from the home position of a region-less screen *)
Lemma dl_home_closed s d : margins s = None -> cy s = 0 -> 1 <= d -> 1 <= lines s ->
  delete_lines s (Some d) =
  set_x (set_buffer (add_dirty_range s 0 (lines s)) (shrink_rows (buffer s) (lines s) d)) 0.
Proof.
  intros Hm Hy Hd Hl. unfold delete_lines, margins_or_full. rewrite Hm, Hy.
  assert (E : nhat (Some d) = d) by (unfold nhat; destruct (N.ltb_spec 0 d); [reflexivity|lia]). rewrite E.
  assert (E2 : (0 <=? 0) && (0 <=? lines s - 1) = true) by (apply andb_true_iff; split; apply N.leb_le; lia). rewrite E2.
  unfold shrink_rows, carriage_return. change (cy (add_dirty_range s 0 (lines s))) with (cy s). rewrite Hy. reflexivity.
Qed.
(* the whole shrink branch *)
Lemma shrink_closed s d : WF s -> 1 <= d ->
  restore_cursor (delete_lines (cursor_position (save_cursor (set_margins_f s None)) (Some 0) (Some 0)) (Some d)) =
  mkScreen (savepoints s) (columns s) (lines s) (nunion (range 0 (lines s)) (dirty s)) None (shrink_rows (buffer s) (lines s) d) (mode s)
           (title s) (icon_name s) (charset s) (g0 s) (g1 s) (tabstops s)
           (mkCursor (N.min (cx s) (columns s - 1)) (cy s) (cu_attr (cur s)) (cu_hidden (cur s))) (saved_columns s).
Proof.
  intros W Hd. pose proof (wf_cols s W) as Hc. pose proof (wf_lines s W) as Hl. pose proof (wf_y s W) as Hy.
  assert (W1 : WF (save_cursor (set_margins_f s None))).
  { destruct W as [w1 w2 w3 w4 w5 w6 w7 w8]. constructor; auto. exact I. }
  destruct s as [sps c l di ma bu mo ti ic cs g0' g1' ts [x y at_ hd] sc].
  unfold cx, cy in *. cbn [columns lines cur cu_x cu_y cu_attr cu_hidden savepoints dirty margins buffer mode title icon_name charset g0 g1 tabstops saved_columns] in *.
  unfold save_cursor, set_margins_f, set_savepoints, has_mode in *.
  cbn [columns lines cur cu_x cu_y cu_attr cu_hidden savepoints dirty margins buffer mode title icon_name charset g0 g1 tabstops saved_columns] in *.
  match goal with |- restore_cursor (delete_lines (cursor_position ?S1 _ _) _) = _ => set (s1 := S1) in * end.
  assert (C1 : cursor_position s1 (Some 0) (Some 0) = set_cur s1 (mkCursor 0 0 at_ hd)).
  { change (cursor_position s1 (Some 0) (Some 0)) with (cursor_position s1 None None). rewrite (home_model s1 W1). reflexivity. }
  rewrite C1. unfold s1, set_cur. clear C1 W1 s1.
  match goal with |- restore_cursor (delete_lines ?S2 _) = _ => rewrite (dl_home_closed S2 d eq_refl eq_refl Hd Hl) end.
  unfold set_x, set_cur, set_buffer, add_dirty_range, set_dirty.
  cbn [columns lines cur cu_x cu_y cu_attr cu_hidden savepoints dirty margins buffer mode title icon_name charset g0 g1 tabstops saved_columns].
  match goal with |- restore_cursor ?S3 = _ =>
    rewrite (restore_pop_closed S3 (mkSave (mkCursor x y at_ hd) g0' g1' cs (nmem DECOM mo) (nmem DECAWM mo)) sps eq_refl) end.
  lazy beta iota zeta delta [pop_modes vclamp_y set_cur set_mode_f set_charset set_g1 set_g0 set_savepoints
    sp_origin sp_wrap sp_cursor sp_g0 sp_g1 sp_charset columns lines cur cu_x cu_y cu_attr cu_hidden savepoints dirty margins buffer mode
    title icon_name charset g0 g1 tabstops saved_columns].
  assert (M : nunion ((if nmem DECOM mo then [DECOM] else []) ++ (if nmem DECAWM mo then [DECAWM] else [])) mo = mo).
  { destruct (nmem DECOM mo) eqn:EO; destruct (nmem DECAWM mo) eqn:EW; unfold nunion; cbn [app fold_left];
      rewrite ?(nadd_present DECOM _ EO), ?(nadd_present DECAWM _ EW); reflexivity. }
  rewrite M. f_equal. f_equal. lia.
Qed.

(* column truncation *)
Lemma trunc_row_get newc oldc line c :
  NMap.get c (trunc_row newc oldc line) = if (newc <=? c) && (c <? oldc) then None else NMap.get c line.
Proof. unfold trunc_row. apply remove_range_get. Qed.

(* the state after the optional shrink step: only dirty, margins, buffer, cursor.x can differ from s *)
Definition after_shrink (s : screen) (L : N) : screen :=
  if L <? lines s then
    mkScreen (savepoints s) (columns s) (lines s) (nunion (range 0 (lines s)) (nunion (range 0 L) (dirty s))) None
             (shrink_rows (buffer s) (lines s) (lines s - L)) (mode s) (title s) (icon_name s) (charset s) (g0 s) (g1 s) (tabstops s)
             (mkCursor (N.min (cx s) (columns s - 1)) (cy s) (cu_attr (cur s)) (cu_hidden (cur s))) (saved_columns s)
  else add_dirty_range s 0 L.
Lemma resize_unfold s l c : WF s ->
  let L := match l with Some v => v | None => lines s end in
  let C := match c with Some v => v | None => columns s end in
  resize s l c =
  if (L =? lines s) && (C =? columns s) then s
  else
    let s2 := after_shrink s L in
    let s3 := if C <? columns s2 then set_buffer s2 (NMap.map_vals (trunc_row C (columns s2)) (buffer s2)) else s2 in
    let s4 := set_size s3 L C in
    let s5 := set_dirty s4 (filter (fun y => y <? L) (dirty s4)) in
    ensure_vbounds (ensure_hbounds (set_margins s5 None None)) false.
Proof.
  intros W. cbv zeta. unfold resize.
  set (L := match l with Some v => v | None => lines s end). set (C := match c with Some v => v | None => columns s end).
  destruct ((L =? lines s) && (C =? columns s)); [reflexivity|].
  assert (E : (if L <? lines (add_dirty_range s 0 L)
               then restore_cursor (delete_lines (cursor_position (save_cursor (set_margins_f (add_dirty_range s 0 L) None)) (Some 0) (Some 0))
                                      (Some (lines (cursor_position (save_cursor (set_margins_f (add_dirty_range s 0 L) None)) (Some 0) (Some 0)) - L)))
               else add_dirty_range s 0 L) = after_shrink s L).
  { unfold after_shrink. change (lines (add_dirty_range s 0 L)) with (lines s).
    destruct (N.ltb_spec L (lines s)); [|reflexivity].
    assert (W0 : WF (add_dirty_range s 0 L)) by (apply add_dirty_range_WF; [exact W|lia]).
    assert (El : lines (cursor_position (save_cursor (set_margins_f (add_dirty_range s 0 L) None)) (Some 0) (Some 0)) = lines s).
    { destruct (cup_frame (save_cursor (set_margins_f (add_dirty_range s 0 L) None)) (Some 0) (Some 0)) as [cu Ecu]. rewrite Ecu. reflexivity. }
    rewrite El. rewrite (shrink_closed (add_dirty_range s 0 L) (lines s - L) W0) by lia. reflexivity. }
  rewrite E. reflexivity.
Qed.

Lemma after_shrink_facts s L : WF s -> 1 <= L ->
  let s2 := after_shrink s L in
  columns s2 = columns s /\ lines s2 = lines s /\ mode s2 = mode s /\ savepoints s2 = savepoints s /\ title s2 = title s /\
  icon_name s2 = icon_name s /\ charset s2 = charset s /\ g0 s2 = g0 s /\ g1 s2 = g1 s /\ tabstops s2 = tabstops s /\
  saved_columns s2 = saved_columns s /\ cu_attr (cur s2) = cu_attr (cur s) /\ cu_hidden (cur s2) = cu_hidden (cur s) /\
  cy s2 = cy s /\ cx s2 = (if L <? lines s then N.min (cx s) (columns s - 1) else cx s) /\
  (forall y, nmem y (range 0 L) = true -> nmem y (dirty s2) = true) /\
  (forall r, NMap.get r (buffer s2) =
     if L <? lines s then (if r <? lines s then (if r + (lines s - L) <? lines s then NMap.get (r + (lines s - L)) (buffer s) else None) else NMap.get r (buffer s))
     else NMap.get r (buffer s)).
Proof.
  intros W HL. cbv zeta. unfold after_shrink. pose proof (wf_lines s W).
  destruct (N.ltb_spec L (lines s)).
  - repeat split; try reflexivity.
    + intros y Hy. cbn [dirty]. rewrite !nmem_nunion, Hy. destruct (nmem y (range 0 (lines s))); reflexivity.
    + intros r. cbn [buffer]. apply shrink_rows_get; lia.
  - repeat split; try reflexivity. intros y Hy. cbn [dirty add_dirty_range set_dirty]. rewrite nmem_nunion, Hy. reflexivity.
Qed.
Lemma rowv_trunc d C oc (o : option row) c : c < C ->
  rowv d (orow (option_map (trunc_row C oc) o)) c = rowv d (orow o) c.
Proof.
  intros Hc. unfold rowv. destruct o as [line|]; cbn [option_map orow]; [|reflexivity].
  rewrite trunc_row_get. destruct (N.leb_spec C c); [lia|]. reflexivity.
Qed.

Theorem resize_spec s l c : WF s ->
  (match l with Some v => 1 <= v | None => True end) -> (match c with Some v => 1 <= v | None => True end) ->
  Aeq (abs (resize s l c)) (a_resize (abs s) l c) /\ WF (resize s l c).
Proof.
  intros W Hl Hc. pose proof (wf_cols s W) as Wc. pose proof (wf_lines s W) as Wl.
  rewrite (resize_unfold s l c W). cbv zeta. unfold a_resize. cbn [abs a_lines a_cols].
  set (L := match l with Some v => v | None => lines s end). set (C := match c with Some v => v | None => columns s end).
  assert (HL : 1 <= L) by (unfold L; destruct l; assumption). assert (HC : 1 <= C) by (unfold C; destruct c; assumption).
  destruct ((L =? lines s) && (C =? columns s)); [split; [apply Aeq_refl|exact W]|].
  destruct (after_shrink_facts s L W HL) as [f1 [f2 [f3 [f4 [f5 [f6 [f7 [f8 [f9 [f10 [f11 [f12 [f13 [f14 [f15 [f16 f17]]]]]]]]]]]]]]]].
  set (s2 := after_shrink s L) in *.
  set (s3 := if C <? columns s2 then set_buffer s2 (NMap.map_vals (trunc_row C (columns s2)) (buffer s2)) else s2).
  set (s5 := set_dirty (set_size s3 L C) (filter (fun y => y <? L) (dirty (set_size s3 L C)))).
  assert (M : set_margins s5 None None = set_margins_f s5 None) by reflexivity. rewrite M. clear M.
  rewrite bounds_closed. cbn [margins set_margins_f].
  (* facts about s3 *)
  assert (B3 : forall r, NMap.get r (buffer s3) = if C <? columns s then option_map (trunc_row C (columns s)) (NMap.get r (buffer s2)) else NMap.get r (buffer s2)).
  { intros r. unfold s3. rewrite f1. destruct (C <? columns s); [cbn [buffer set_buffer]; apply NMap.get_map_vals|reflexivity]. }
  assert (O3 : columns s3 = columns s /\ lines s3 = lines s /\ mode s3 = mode s /\ cur s3 = cur s2 /\ dirty s3 = dirty s2 /\
               savepoints s3 = savepoints s /\ title s3 = title s /\ icon_name s3 = icon_name s /\ charset s3 = charset s /\
               g0 s3 = g0 s /\ g1 s3 = g1 s /\ tabstops s3 = tabstops s /\ saved_columns s3 = saved_columns s).
  { unfold s3. destruct (C <? columns s2); cbn [columns lines mode cur dirty savepoints title icon_name charset g0 g1 tabstops saved_columns set_buffer];
      repeat split; assumption || reflexivity. }
  destruct O3 as [o1 [o2 [o3 [o4 [o5 [o6 [o7 [o8 [o9 [o10 [o11 [o12 o13]]]]]]]]]]]].
  (* the view of a cell of the final screen *)
  assert (V : forall r cc, r < L -> cc < C ->
     rowv (default_char s) (orow (NMap.get r (buffer s3))) cc =
     if (r + (lines s - L) <? lines s) && (cc <? columns s) then cellv s (r + (lines s - L)) cc else default_char s).
  { intros r cc Hr Hcc. rewrite B3.
    assert (T : rowv (default_char s) (orow (if C <? columns s then option_map (trunc_row C (columns s)) (NMap.get r (buffer s2)) else NMap.get r (buffer s2))) cc
                = rowv (default_char s) (orow (NMap.get r (buffer s2))) cc).
    { destruct (C <? columns s); [apply rowv_trunc; exact Hcc|reflexivity]. }
    rewrite T, f17. clear T.
    destruct (N.ltb_spec L (lines s)).
    - destruct (N.ltb_spec r (lines s)); [|lia].
      destruct (N.ltb_spec (r + (lines s - L)) (lines s)); [|lia]. cbn [andb].
      rewrite cellv_rowv. destruct (N.ltb_spec cc (columns s)); [reflexivity|].
      unfold rowv. destruct (NMap.get cc (orow (NMap.get (r + (lines s - L)) (buffer s)))) as [x|] eqn:E; [|reflexivity].
      apply (orow_keys s _ _ _ W) in E. lia.
    - replace (lines s - L) with 0 by lia. replace (r + 0) with r by lia.
      destruct (N.ltb_spec r (lines s)); cbn [andb].
      + rewrite cellv_rowv. destruct (N.ltb_spec cc (columns s)); [reflexivity|].
        unfold rowv. destruct (NMap.get cc (orow (NMap.get r (buffer s)))) as [x|] eqn:E; [|reflexivity].
        apply (orow_keys s _ _ _ W) in E. lia.
      + destruct (NMap.get r (buffer s)) as [line|] eqn:E; [apply (wf_rows s W) in E; lia|reflexivity]. }
  split.
  - constructor; cbn [abs a_cols a_lines a_grid a_cur a_margins a_mode a_tabs a_dirty a_cs a_g0 a_g1 a_title a_icon a_sp a_savedcols
                      columns lines cur margins mode tabstops dirty charset g0 g1 title icon_name savepoints saved_columns set_cur set_margins_f s5 set_dirty set_size];
      try reflexivity; try assumption; try (rewrite ?o3, ?o6, ?o7, ?o8, ?o9, ?o10, ?o11, ?o12, ?o13; reflexivity || apply seteq_refl).
    + intros r cc Hr Hcc. rewrite cellv_rowv.
      match goal with |- rowv (default_char ?F) _ _ = _ => assert (D : default_char F = default_char s) by (apply default_char_mode; cbn [mode set_cur set_margins_f s5 set_dirty set_size]; rewrite o3; reflexivity) end.
      rewrite D. cbn [buffer set_cur set_margins_f s5 set_dirty set_size]. rewrite (V r cc Hr Hcc). reflexivity.
    + (* cursor *)
      unfold cx, cy, ax, ay, aattr. cbn [cur set_margins_f s5 set_dirty set_size columns lines abs a_cur]. rewrite o4.
      unfold cx, cy in *. rewrite f14, f15, f12, f13.
      destruct (L <? lines s); f_equal; lia.
    + (* dirty = all rows of the new screen *)
      intros y. cbn [dirty set_dirty set_size]. rewrite o5, nmem_range.
      destruct (nmem y (filter (fun y0 => y0 <? L) (dirty s2))) eqn:E.
      * apply nmem_In, filter_In in E. destruct E as [_ E]. rewrite E. destruct (N.leb_spec 0 y); [reflexivity|lia].
      * apply nmem_false in E. destruct (N.ltb_spec y L); [|rewrite andb_false_r; reflexivity].
        exfalso. apply E. apply filter_In. split; [|apply N.ltb_lt; assumption]. apply nmem_In. apply f16. rewrite nmem_range.
        apply andb_true_iff. split; [apply N.leb_le; lia|apply N.ltb_lt; assumption].
  - (* WF *)
    constructor; unfold cx, cy, margins_wf;
      cbn [columns lines cur margins dirty buffer set_cur set_margins_f s5 set_dirty set_size cu_x cu_y]; try assumption; try lia; try exact I.
    + intros y Hy. apply nmem_In, filter_In in Hy. destruct Hy as [_ Hy]. apply N.ltb_lt in Hy. exact Hy.
    + intros r line E. rewrite B3 in E.
      assert (E2 : NMap.get r (buffer s2) <> None) by (destruct (C <? columns s); destruct (NMap.get r (buffer s2)); cbn in E; congruence).
      rewrite f17 in E2. destruct (N.ltb_spec L (lines s)).
      * destruct (N.ltb_spec r (lines s)).
        -- destruct (N.ltb_spec (r + (lines s - L)) (lines s)); [lia|congruence].
        -- destruct (NMap.get r (buffer s)) as [ln|] eqn:E3; [apply (wf_rows s W) in E3; lia|congruence].
      * destruct (NMap.get r (buffer s)) as [ln|] eqn:E3; [apply (wf_rows s W) in E3; lia|congruence].
    + intros r line cc x E Ec. rewrite B3 in E.
      assert (K : forall ln, NMap.get r (buffer s2) = Some ln -> forall c0 x0, NMap.get c0 ln = Some x0 -> c0 < columns s).
      { intros ln E2 c0 x0 E3. rewrite f17 in E2.
        destruct (L <? lines s); [destruct (r <? lines s); [destruct (_ <? lines s); [|discriminate]|]|]; apply (wf_cells s W _ _ _ _ E2 E3). }
      destruct (N.ltb_spec C (columns s)).
      * destruct (NMap.get r (buffer s2)) as [ln|] eqn:E2; cbn [option_map] in E; [|discriminate]. inversion E; subst line.
        rewrite trunc_row_get in Ec. destruct (N.leb_spec C cc); [|assumption].
        destruct (N.ltb_spec cc (columns s)); cbn [andb] in Ec; [discriminate|]. specialize (K ln eq_refl cc x Ec). lia.
      * specialize (K line E cc x Ec). lia.
Qed.
End S.
