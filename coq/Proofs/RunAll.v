(* Proofs/RunAll.v — consequences of the refinement theorem for whole histories. *)
From Coq Require Import NArith List Bool Lia.
From MT Require Import Lib Types Charsets Tables Screen Spec Obs Stmt.
From MT.Proofs Require Import WF Aeq RefineSimple RefineReset RefineMisc P05 Congr CongrMore SpecAll RefineModes RefineAll.
Import ListNotations.
Open Scope N_scope.

Section S.
Variable wid : cp -> N. Variable is_comb : cp -> bool. Variable nfc : str -> str.
Notation step := (step wid is_comb nfc).
Notation astep := (astep wid is_comb nfc).
Definition run (s : screen) (os : list op) : screen := fold_left step os s.
Notation arun := (arun wid is_comb nfc).

(* every reachable state: refinement and invariant along any operation sequence *)
Theorem refine_run os : forall s, WF s -> SCm s -> Forall args_ok os ->
  Aeq (abs (run s os)) (arun (abs s) os) /\ WF (run s os) /\ SCm (run s os).
Proof.
  induction os as [|o os IH]; intros s W SC F.
  - split; [apply Aeq_refl|split; assumption].
  - inversion F as [|? ? Ho F']; subst. cbn [run fold_left SpecAll.arun].
    destruct (refine_step wid is_comb nfc s o W SC Ho) as [A [W' SC']].
    destruct (IH (step s o) W' SC' F') as [A2 [W2 SC2]]. split; [|split; assumption].
    eapply Aeq_trans; [exact A2|]. apply cg_arun; try assumption.
    + apply AWF_abs. exact W'.
Qed.
Theorem invariant_from_new c l os : 1 <= c -> 1 <= l -> Forall args_ok os -> WF (run (init c l) os) /\ SCm (run (init c l) os).
Proof.
  intros Hc Hl F. destruct (refine_run os (init c l) (WF_init c l Hc Hl)) as [_ R]; [|exact F|exact R].
  unfold SCm, init. rewrite reset_closed by assumption. exact I.
Qed.

(* view congruence of the MODEL: two well-formed sparse states that look the same keep looking the same *)
Theorem model_congr s1 s2 o : WF s1 -> SCm s1 -> WF s2 -> SCm s2 -> args_ok o -> Aeq (abs s1) (abs s2) ->
  Aeq (abs (step s1 o)) (abs (step s2 o)).
Proof.
  intros W1 S1 W2 S2 Ho H.
  destruct (refine_step wid is_comb nfc s1 o W1 S1 Ho) as [A1 _]. destruct (refine_step wid is_comb nfc s2 o W2 S2 Ho) as [A2 _].
  eapply Aeq_trans; [exact A1|]. eapply Aeq_trans; [|apply Aeq_sym; exact A2].
  apply cg_astep; [apply AWF_abs; exact W1|exact S1|exact H].
Qed.
Theorem model_congr_run os : forall s1 s2, WF s1 -> SCm s1 -> WF s2 -> SCm s2 -> Forall args_ok os -> Aeq (abs s1) (abs s2) ->
  Aeq (abs (run s1 os)) (abs (run s2 os)).
Proof.
  induction os as [|o os IH]; intros s1 s2 W1 S1 W2 S2 F H; [exact H|].
  inversion F as [|? ? Ho F']; subst. cbn [run fold_left].
  destruct (refine_step wid is_comb nfc s1 o W1 S1 Ho) as [_ [W1' S1']]. destruct (refine_step wid is_comb nfc s2 o W2 S2 Ho) as [_ [W2' S2']].
  apply IH; try assumption. apply model_congr; assumption.
Qed.

(* display() is invisible: dropping every display() call from a history does not change the visible outcome *)
Definition is_display (o : op) : bool := match o with ODisplay => true | _ => false end.
Definition strip_display (os : list op) : list op := filter (fun o => negb (is_display o)) os.
Theorem display_is_pure os : forall s1 s2, WF s1 -> SCm s1 -> WF s2 -> SCm s2 -> Forall args_ok os -> Aeq (abs s1) (abs s2) ->
  Aeq (abs (run s1 os)) (abs (run s2 (strip_display os))).
Proof.
  induction os as [|o os IH]; intros s1 s2 W1 S1 W2 S2 F H; [exact H|].
  inversion F as [|? ? Ho F']; subst.
  destruct (refine_step wid is_comb nfc s1 o W1 S1 Ho) as [A1 [W1' S1']].
  destruct o; cbn [strip_display filter is_display negb run fold_left];
    try (destruct (refine_step wid is_comb nfc s2 _ W2 S2 Ho) as [_ [W2' S2']]; apply IH; try assumption; apply model_congr; assumption).
  (* ODisplay on the left only *)
  apply IH; try assumption. eapply Aeq_trans; [|exact H]. apply (ref_display wid is_comb nfc s1 W1).
Qed.
End S.
