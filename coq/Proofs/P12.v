(* Proofs/P12.v — C12: SM / RM. *)
From Coq Require Import NArith List Bool Lia.
From MT Require Import Lib Types Charsets Tables Screen Spec Obs Stmt.
From MT.Proofs Require Import WF Aeq Loops RefineSimple RefineRestore P05 Congr CongrMore SpecAll RefineModes P14 P16.
Import ListNotations.
Open Scope N_scope.

Definition enc (ms : list N) (private : bool) : list N := if private then map (fun m => m * 32) ms else ms.
Definition supported_side_effect (ml : list N) : bool :=
  nmem DECCOLM ml || nmem DECOM ml || nmem DECSCNM ml || nmem DECTCEM ml.

Section S.
Variable wid : cp -> N. Variable is_comb : cp -> bool. Variable nfc : str -> str.
Notation astep := (astep wid is_comb nfc).

(* exactly the listed numbers are added / removed *)
Lemma mode_cup a l c : a_mode (a_cup a l c) = a_mode a.
Proof. change (a_cup a l c) with (astep a (OCup l c)). rewrite (c05_frame wid is_comb nfc a (OCup l c) eq_refl). reflexivity. Qed.
Lemma mode_ed a h : a_mode (a_ed a h) = a_mode a.
Proof.
  unfold a_ed, a_el. destruct (if _ =? 0 then _ else _) as [lo hi].
  destruct ((_ =? 0) || (_ =? 1)); [destruct (_ =? 0); [|destruct (_ =? 1); [|destruct (_ =? 2)]]|]; reflexivity.
Qed.
Lemma mode_resize a l c : a_mode (a_resize a l c) = a_mode a.
Proof. unfold a_resize. destruct (_ && _); reflexivity. Qed.
Lemma c12_mode_set a ms p on : a_mode (a_set_mode a ms p on) = new_modes (a_mode a) (enc ms p) on.
Proof.
  unfold a_set_mode. fold (enc ms p). set (ml := enc ms p).
  set (a1 := if nmem DECSCNM ml then a_all_dirty a else a). assert (E1 : a_mode a1 = a_mode a) by (unfold a1; destruct (nmem DECSCNM ml); reflexivity).
  set (a2 := a_with_mode a1 _).
  assert (E2 : a_mode a2 = new_modes (a_mode a) ml on) by (unfold a2, new_modes; cbn [a_mode a_with_mode]; rewrite E1; reflexivity).
  set (a3 := if nmem DECCOLM ml then _ else a2).
  assert (E3 : a_mode a3 = a_mode a2).
  { unfold a3. destruct (nmem DECCOLM ml); [|reflexivity]. rewrite mode_cup, mode_ed.
    destruct on; [rewrite mode_resize; reflexivity|]. destruct (a_cols a2 =? 132); [|reflexivity].
    destruct (a_savedcols a2); [|reflexivity]. cbn [a_mode a_with_savedcols]. apply mode_resize. }
  set (a4 := if nmem DECOM ml then a_cup a3 None None else a3).
  assert (E4 : a_mode a4 = a_mode a3) by (unfold a4; destruct (nmem DECOM ml); [apply mode_cup|reflexivity]).
  set (a5 := if nmem DECSCNM ml then _ else a4).
  assert (E5 : a_mode a5 = a_mode a4) by (unfold a5; destruct (nmem DECSCNM ml); reflexivity).
  destruct (nmem DECTCEM ml); cbn [a_mode a_with_cur]; congruence.
Qed.
Lemma c12_membership a ms p on x :
  nmem x (a_mode (a_set_mode a ms p on)) = if on then nmem x (enc ms p) || nmem x (a_mode a) else nmem x (a_mode a) && negb (nmem x (enc ms p)).
Proof. rewrite c12_mode_set. unfold new_modes. destruct on; [apply nmem_nunion|apply nmem_ndiff]. Qed.
(* private mode n is stored as 32*n: distinct from ANSI mode n (for n > 0) *)
Lemma c12_private_distinct n : 0 < n -> n * 32 <> n.
Proof. lia. Qed.
(* any list without DECCOLM / DECOM / DECSCNM / DECTCEM (after encoding): recorded, and NOTHING else changes *)
Lemma c12_no_side_effect a ms p on : supported_side_effect (enc ms p) = false ->
  a_set_mode a ms p on = a_with_mode a (new_modes (a_mode a) (enc ms p) on).
Proof.
  unfold supported_side_effect. intros H. apply orb_false_iff in H. destruct H as [H H4]. apply orb_false_iff in H. destruct H as [H H3].
  apply orb_false_iff in H. destruct H as [H1 H2].
  unfold a_set_mode. fold (enc ms p). rewrite H1, H2, H3, H4. reflexivity.
Qed.
(* the four modes with an immediate effect, one at a time *)
Lemma c12_dectcem a p ms on : enc ms p = [DECTCEM] ->
  a_set_mode a ms p on = a_with_cur (a_with_mode a (new_modes (a_mode a) [DECTCEM] on)) (mkCursor (ax a) (ay a) (aattr a) (negb on)).
Proof. intros E. unfold a_set_mode. fold (enc ms p). rewrite E. reflexivity. Qed.
Lemma c12_decom a p ms on : enc ms p = [DECOM] ->
  a_set_mode a ms p on = a_cup (a_with_mode a (new_modes (a_mode a) [DECOM] on)) None None.
Proof. intros E. unfold a_set_mode. fold (enc ms p). rewrite E. reflexivity. Qed.
Lemma c12_decscnm a p ms on : enc ms p = [DECSCNM] ->
  let a' := a_set_mode a ms p on in
  (forall r c, a_grid a' r c = with_reverse (a_grid a r c) on) /\ aattr a' = with_reverse (aattr a) on /\
  adc a' = blank_cell on /\ (forall y, y < a_lines a -> nmem y (a_dirty a') = true) /\
  ax a' = ax a /\ ay a' = ay a /\ a_cols a' = a_cols a /\ a_lines a' = a_lines a /\ a_margins a' = a_margins a /\ a_tabs a' = a_tabs a.
Proof.
  intros E. cbv zeta. unfold a_set_mode. fold (enc ms p). rewrite E.
  change (nmem DECSCNM [DECSCNM]) with true. change (nmem DECCOLM [DECSCNM]) with false. change (nmem DECOM [DECSCNM]) with false. change (nmem DECTCEM [DECSCNM]) with false.
  repeat split.
  - unfold adc, amode. cbn [a_mode a_with_attr a_with_cur a_with_grid a_with_mode a_all_dirty a_dirty_range a_with_dirty].
    destruct on; [rewrite nmem_nunion; reflexivity|rewrite nmem_ndiff; change (nmem DECSCNM [DECSCNM]) with true; rewrite andb_false_r; reflexivity].
  - intros y Hy. cbn [a_dirty a_with_attr a_with_cur a_with_grid a_with_mode a_all_dirty a_dirty_range a_with_dirty]. rewrite nmem_nunion, nmem_range.
    destruct (N.leb_spec 0 y), (N.ltb_spec y (a_lines a)); try lia; reflexivity.
Qed.

(* "erase the screen and home the cursor" *)
Definition home_row a := match a_margins a with Some (t, _) => if amode a DECOM then t else 0 | None => 0 end.
Lemma cup_home a : AWF a -> a_cup a None None = a_xy a 0 (home_row a).
Proof.
  intros W. pose proof (aw_margins a W) as M. pose proof (aw_lines a W). pose proof (aw_cols a W).
  unfold a_cup, home_row. change (hat None - 1) with 0. replace (N.min 0 (a_cols a - 1)) with 0 by lia.
  destruct (a_margins a) as [[t b]|] eqn:EM.
  - destruct (amode a DECOM) eqn:ED.
    + assert (E : (b <? 0 + t) = false) by (apply N.ltb_ge; lia). rewrite E.
      unfold a_vclamp. cbn [a_margins a_xy a_with_cur]. rewrite EM. unfold amode in *. cbn [a_mode a_xy a_with_cur]. rewrite ED, orb_true_r.
      unfold a_y, a_xy, ay, a_with_cur. cbn. do 3 f_equal. lia.
    + unfold a_vclamp. cbn [a_margins a_xy a_with_cur]. rewrite EM. unfold amode in *. cbn [a_mode a_xy a_with_cur]. rewrite ED. cbn [orb].
      unfold a_y, a_xy, ay, a_with_cur. cbn. do 3 f_equal. lia.
  - unfold a_vclamp. cbn [a_margins a_xy a_with_cur]. rewrite EM. unfold a_y, a_xy, ay, a_with_cur. cbn. do 3 f_equal. lia.
Qed.
Definition ed2home a := a_cup (a_ed a (Some 2)) None None.
Lemma ed2home_spec a : AWF a -> let a' := ed2home a in
  a_cols a' = a_cols a /\ a_lines a' = a_lines a /\ a_margins a' = a_margins a /\ a_mode a' = a_mode a /\ a_savedcols a' = a_savedcols a /\
  aattr a' = aattr a /\ a_tabs a' = a_tabs a /\ (forall r c, r < a_lines a -> a_grid a' r c = aattr a) /\ ax a' = 0 /\ ay a' = home_row a /\
  (forall y, y < a_lines a -> nmem y (a_dirty a') = true).
Proof.
  intros W. cbv zeta. unfold ed2home.
  assert (E : a_ed a (Some 2) = a_with_grid (a_dirty_range a 0 (a_lines a)) (fun r c => if (0 <=? r) && (r <? a_lines a) then aattr a else a_grid a r c)) by reflexivity.
  rewrite E. rewrite cup_home by (destruct W; constructor; assumption).
  repeat split.
  - intros r c Hr. cbn [a_grid a_xy a_with_cur a_with_grid]. bdestruct; cbn; try reflexivity; lia.
  - intros y Hy. cbn [a_dirty a_xy a_with_cur a_with_grid a_dirty_range a_with_dirty]. rewrite nmem_nunion, nmem_range. bdestruct; cbn; try reflexivity; lia.
Qed.
(* DECCOLM: SM switches to 132 columns remembering the previous width, RM returns to it; both erase and home *)
Lemma c12_deccolm a p ms on : enc ms p = [DECCOLM] ->
  a_set_mode a ms p on = ed2home
    (let a2 := a_with_mode a (new_modes (a_mode a) [DECCOLM] on) in
     if on then a_resize (a_with_savedcols a2 (Some (a_cols a))) None (Some 132)
     else if a_cols a =? 132 then match a_savedcols a with Some w => a_with_savedcols (a_resize a2 None (Some w)) None | None => a2 end else a2).
Proof. intros E. unfold a_set_mode. fold (enc ms p). rewrite E. reflexivity. Qed.
Lemma c12_deccolm_set a p ms : AWF a -> enc ms p = [DECCOLM] ->
  let a' := a_set_mode a ms p true in
  a_cols a' = 132 /\ a_lines a' = a_lines a /\ a_savedcols a' = Some (a_cols a) /\
  (forall r c, r < a_lines a -> a_grid a' r c = aattr a) /\ aattr a' = aattr a /\ ax a' = 0 /\ ay a' = home_row a' /\
  (forall y, y < a_lines a -> nmem y (a_dirty a') = true).
Proof.
  intros W E. cbv zeta. rewrite (c12_deccolm a p ms true E). cbv zeta. cbn match.
  set (b := a_resize _ None (Some 132)).
  assert (Wb : AWF b).
  { apply AWF_resize; [|exact I|lia]. destruct W; constructor; assumption. }
  assert (X : a_cols b = 132 /\ a_lines b = a_lines a /\ a_savedcols b = Some (a_cols a) /\ aattr b = aattr a).
  { unfold b, a_resize. cbn [a_lines a_cols a_with_savedcols a_with_mode]. rewrite N.eqb_refl. cbn [andb].
    destruct (N.eqb_spec 132 (a_cols a)) as [E1|E1]; repeat split; cbn [a_cols a_with_savedcols a_with_mode]; congruence. }
  destruct X as [X1 [X2 [X3 X4]]].
  pose proof (ed2home_spec b Wb) as S. cbv zeta in S.
  destruct S as [S1 [S2 [S3 [S4 [S5 [S6 [S7 [S8 [S9 [S10 S11]]]]]]]]]].
  repeat split; try congruence.
  - intros r c Hr. rewrite S8 by lia. exact X4.
  - rewrite S10. unfold home_row, amode. rewrite S3, S4. reflexivity.
  - intros y Hy. apply S11. lia.
Qed.
Lemma c12_deccolm_reset a p ms : AWF a -> (match a_savedcols a with Some w => 1 <= w | None => True end) -> enc ms p = [DECCOLM] ->
  let a' := a_set_mode a ms p false in
  a_cols a' = (if a_cols a =? 132 then match a_savedcols a with Some w => w | None => 132 end else a_cols a) /\
  a_savedcols a' = (if a_cols a =? 132 then None else a_savedcols a) /\ a_lines a' = a_lines a /\
  (forall r c, r < a_lines a -> a_grid a' r c = aattr a) /\ aattr a' = aattr a /\ ax a' = 0 /\ ay a' = home_row a' /\
  (forall y, y < a_lines a -> nmem y (a_dirty a') = true).
Proof.
  intros W SCa E. cbv zeta. rewrite (c12_deccolm a p ms false E). cbv zeta. cbn match.
  set (a2 := a_with_mode a _).
  assert (W2 : AWF a2) by (destruct W; constructor; assumption).
  set (b := if a_cols a =? 132 then _ else a2).
  assert (X : AWF b /\ a_cols b = (if a_cols a =? 132 then match a_savedcols a with Some w => w | None => 132 end else a_cols a) /\
              a_savedcols b = (if a_cols a =? 132 then None else a_savedcols a) /\ a_lines b = a_lines a /\ aattr b = aattr a).
  { unfold b. destruct (N.eqb_spec (a_cols a) 132) as [E1|E1]; [|split; [exact W2|repeat split]].
    destruct (a_savedcols a) as [w|] eqn:ES.
    - assert (Wr : AWF (a_resize a2 None (Some w))) by (apply AWF_resize; [exact W2|exact I|exact SCa]).
      split; [destruct Wr; constructor; assumption|].
      unfold a_resize. cbn [a_lines a_cols a_with_savedcols a_with_mode a2]. rewrite N.eqb_refl. cbn [andb].
      destruct (N.eqb_spec w (a_cols a)) as [E2|E2]; repeat split; unfold a2; cbn [a_cols a_with_savedcols a_with_mode]; congruence.
    - split; [exact W2|repeat split; cbn [a_cols a_savedcols a_with_mode a2]; congruence]. }
  destruct X as [Wb [X1 [X2 [X3 X4]]]].
  pose proof (ed2home_spec b Wb) as S. cbv zeta in S.
  destruct S as [S1 [S2 [S3 [S4 [S5 [S6 [S7 [S8 [S9 [S10 S11]]]]]]]]]].
  repeat split; try congruence.
  - intros r c Hr. rewrite S8 by lia. exact X4.
  - rewrite S10. unfold home_row, amode. rewrite S3, S4. reflexivity.
  - intros y Hy. apply S11. lia.
Qed.
(* DECOM: homes the cursor (top of the region when set) and nothing else *)
Lemma c12_decom_home a p ms on : AWF a -> enc ms p = [DECOM] ->
  let a' := a_set_mode a ms p on in
  a' = a_xy (a_with_mode a (new_modes (a_mode a) [DECOM] on)) 0 (match a_margins a with Some (t, _) => if on then t else 0 | None => 0 end).
Proof.
  intros W E. cbv zeta. rewrite (c12_decom a p ms on E). rewrite cup_home by (destruct W; constructor; assumption).
  f_equal. unfold home_row, amode, new_modes. cbn [a_margins a_mode a_with_mode]. destruct (a_margins a) as [[t b]|]; [|reflexivity].
  destruct on; [rewrite nmem_nunion; reflexivity|rewrite nmem_ndiff; change (nmem DECOM [DECOM]) with true; rewrite andb_false_r; reflexivity].
Qed.
End S.

(* DECCOLM round trip: SM ?3 then RM ?3 returns to the previous width (erased, homed), whatever the width was *)
Section RT.
Variable wid : cp -> N. Variable is_comb : cp -> bool. Variable nfc : str -> str.
Lemma c12_deccolm_round_trip a : AWF a -> ASC a ->
  let a2 := a_set_mode (a_set_mode a [3] true true) [3] true false in
  a_cols a2 = a_cols a /\ a_lines a2 = a_lines a /\ a_savedcols a2 = None /\
  (forall r c, r < a_lines a -> a_grid a2 r c = aattr a) /\ aattr a2 = aattr a /\ ax a2 = 0.
Proof.
  intros W SC. cbv zeta.
  assert (E : enc [3] true = [DECCOLM]) by reflexivity.
  destruct (c12_deccolm_set a true [3] W E) as [s1 [s2 [s3 [s4 [s5 [s6 [s7 s8]]]]]]].
  set (a1 := a_set_mode a [3] true true) in *.
  destruct (awf_astep wid is_comb nfc a (OSm [3] true) W SC I) as [W1 SC1]. change (astep wid is_comb nfc a (OSm [3] true)) with a1 in W1, SC1.
  destruct (c12_deccolm_reset a1 true [3] W1 SC1 E) as [r1 [r2 [r3 [r4 [r5 [r6 [r7 r8]]]]]]].
  rewrite s1, s3 in r1. rewrite s1 in r2. cbn [N.eqb Pos.eqb] in r1, r2.
  repeat split; try congruence.
  intros r c Hr. rewrite r4 by (rewrite s2; exact Hr). exact s5.
Qed.
End RT.
