(* Proofs/P18.v — C18: tab stops. *)
From Coq Require Import NArith List Bool Lia.
From MT Require Import Lib Types Charsets Tables Screen Spec Obs Stmt.
From MT.Proofs Require Import WF Aeq RefineSimple RefineTab RefineReset P05.
Import ListNotations.
Open Scope N_scope.

Definition is_tabop (o : op) : bool := match o with OTab | OSetTab | OTbc _ => true | _ => false end.

Section S.
Variable wid : cp -> N. Variable is_comb : cp -> bool. Variable nfc : str -> str.
Notation step := (step wid is_comb nfc).
Notation astep := (astep wid is_comb nfc).

Lemma c18_refines s o : is_tabop o = true -> abs (step s o) = astep (abs s) o.
Proof. intros H. destruct o; try discriminate H; [apply ref_settab|apply ref_tab|apply ref_tbc]. Qed.

(* defaults: every 8th column below `columns`, initially and after reset *)
Lemma default_stops_spec cols t : nmem t (a_tabs_default cols) = (8 <=? t) && (t <? cols) && (t mod 8 =? 0).
Proof.
  unfold a_tabs_default. destruct (nmem t (filter (fun x => x mod 8 =? 0) (range 8 cols))) eqn:E.
  - apply nmem_In, filter_In in E. destruct E as [E1 E2]. apply in_range in E1. rewrite E2.
    symmetry. apply andb_true_iff. split; [apply andb_true_iff; split; [apply N.leb_le|apply N.ltb_lt]; lia|reflexivity].
  - apply nmem_false in E. symmetry. destruct ((8 <=? t) && (t <? cols) && (t mod 8 =? 0)) eqn:E2; [|reflexivity].
    exfalso. apply E. apply andb_true_iff in E2. destruct E2 as [E2 E3]. apply andb_true_iff in E2. destruct E2 as [E1 E2].
    apply filter_In. split; [apply in_range; apply N.leb_le in E1; apply N.ltb_lt in E2; lia|exact E3].
Qed.
Lemma c18_defaults cols lns a :
  a_tabs (a_init cols lns) = a_tabs_default cols /\ a_tabs (astep a OReset) = a_tabs_default (a_cols a).
Proof. split; reflexivity. Qed.
Lemma c18_init_code cols lns : 1 <= cols -> 1 <= lns -> tabstops (init cols lns) = a_tabs_default cols.
Proof. intros Hc Hl. unfold init. rewrite reset_closed by assumption. reflexivity. Qed.

(* HTS / TBC edit the set; nothing else changes *)
Definition sel_h (h : option N) : N := match h with Some v => v | None => 0 end.
Lemma c18_edit a h t :
  nmem t (a_tabs (astep a OSetTab)) = (t =? ax a) || nmem t (a_tabs a) /\
  nmem t (a_tabs (astep a (OTbc h))) =
    (if sel_h h =? 0 then negb (t =? ax a) && nmem t (a_tabs a) else if sel_h h =? 3 then false else nmem t (a_tabs a)).
Proof.
  split.
  - cbn [astep]. unfold a_hts. cbn [a_tabs a_with_tabs]. apply nmem_nadd.
  - cbn [astep]. unfold a_tbc, sel_h. destruct (_ =? 0); [cbn [a_tabs a_with_tabs]; apply nmem_nrem|]. destruct (_ =? 3); reflexivity.
Qed.
Lemma c18_edit_frame a o : o = OSetTab \/ (exists h, o = OTbc h) ->
  exists ts, astep a o = a_with_tabs a ts.
Proof.
  intros [->|[h ->]]; cbn [astep]; [eexists; reflexivity|]. unfold a_tbc.
  destruct (_ =? 0); [eexists; reflexivity|]. destruct (_ =? 3); [eexists; reflexivity|].
  exists (a_tabs a). destruct a; reflexivity.
Qed.

(* HT: to the nearest stop strictly right of the cursor, else the last column; never beyond it; nothing else *)
Lemma c18_ht a : 1 <= a_cols a ->
  let a' := astep a OTab in
  a' = a_x a (ax a') /\ ax a' <= a_cols a - 1 /\
  match least_gt (ax a) (a_tabs a) with
  | Some t => nmem t (a_tabs a) = true /\ ax a < t /\ (forall u, nmem u (a_tabs a) = true -> ax a < u -> t <= u) /\
              ax a' = N.min t (a_cols a - 1)
  | None => (forall u, nmem u (a_tabs a) = true -> u <= ax a) /\ ax a' = a_cols a - 1
  end.
Proof.
  intros Hc. cbn [astep]. unfold a_tab.
  split; [reflexivity|]. split; [unfold ax, a_x, a_xy, a_with_cur; cbn; lia|].
  pose proof (least_gt_spec (ax a) (a_tabs a)) as L.
  destruct (least_gt (ax a) (a_tabs a)) as [t|]; cbn in L.
  - destruct L as [L1 [L2 L3]]. repeat split; auto.
    + apply nmem_In. exact L1.
    + intros u Hu. apply L3. apply nmem_In. exact Hu.
  - split; [intros u Hu; apply L; apply nmem_In; exact Hu|]. unfold ax, a_x, a_xy, a_with_cur; cbn. lia.
Qed.
End S.

(* HTS immediately undone by TBC 0 at the same cursor position: the stop set is what it was without that stop — in
   particular unchanged if there was no stop there (also in the pending-wrap column, where x = columns) *)
Lemma c18_hts_then_tbc a t : nmem t (a_tabs (a_tbc (a_hts a) None)) = negb (t =? ax a) && nmem t (a_tabs a).
Proof.
  unfold a_tbc, a_hts. cbn [N.eqb a_tabs a_with_tabs]. change (ax (a_with_tabs a (nadd (ax a) (a_tabs a)))) with (ax a).
  rewrite nmem_nrem, nmem_nadd. destruct (N.eqb_spec t (ax a)); cbn; reflexivity.
Qed.
