(* World.v — ByteParser / Parser / Screen composed: one emulator instance. *)
From Coq Require Import NArith List Bool.
From MT Require Import Lib Types Charsets Tables Screen Parser Utf8.
Import ListNotations.
Open Scope N_scope.

Section World.
Variable wid : cp -> N.
Variable is_comb : cp -> bool.
Variable nfc : str -> str.
Notation step := (step wid is_comb nfc).

Record world := mkW { w_scr : screen; w_pst : pst; w_utf8 : bool; w_dec : dstate }.
Definition winit (cols lns : N) : world := mkW (init cols lns) PGround true d0.

(* Parser::feed, one character *)
Definition feed_char (w : world) (c : cp) : world :=
  let '(p, evs) := pstep (w_utf8 w) (w_pst w) c in
  mkW (fold_left step evs (w_scr w)) p (w_utf8 w) (w_dec w).
Definition feed_chars (w : world) (cs : list cp) : world := fold_left feed_char cs w.
(* ByteParser::feed *)
Definition feed_bytes (w : world) (bs : list N) : world :=
  if w_utf8 w then
    let '(d, cs) := drun (w_dec w) bs in
    feed_chars (mkW (w_scr w) (w_pst w) (w_utf8 w) d) cs
  else feed_chars w bs.
(* ByteParser::select_other_charset *)
Definition select_other (w : world) (code : str) : world :=
  if leqb code [64] then mkW (w_scr w) (w_pst w) false d0
  else if leqb code [71] || leqb code [56] then mkW (w_scr w) (w_pst w) true (w_dec w)
  else w.

Inductive wop :=
| WBytes (bs : list N) | WChars (cs : list cp) | WSelect (code : str) | WApi (o : op) | WClearDirty.
Definition wstep (w : world) (o : wop) : world :=
  match o with
  | WBytes bs => feed_bytes w bs
  | WChars cs => feed_chars w cs
  | WSelect c => select_other w c
  | WApi o => mkW (step (w_scr w) o) (w_pst w) (w_utf8 w) (w_dec w)
  | WClearDirty => mkW (set_dirty (w_scr w) []) (w_pst w) (w_utf8 w) (w_dec w)
  end.
Definition wrun (w : world) (os : list wop) : world := fold_left wstep os w.

(* event-level view of the same pipeline (what a recording listener sees) *)
Record rec := mkR { r_pst : pst; r_utf8 : bool; r_dec : dstate; r_out : list op }.
Definition rinit : rec := mkR PGround true d0 [].
Definition rec_chars (r : rec) (cs : list cp) : rec :=
  let '(p, evs) := prun (r_utf8 r) (r_pst r) cs in mkR p (r_utf8 r) (r_dec r) (r_out r ++ evs).
Definition rec_step (r : rec) (o : wop) : rec :=
  match o with
  | WBytes bs =>
      if r_utf8 r then let '(d, cs) := drun (r_dec r) bs in rec_chars (mkR (r_pst r) (r_utf8 r) d (r_out r)) cs
      else rec_chars r bs
  | WChars cs => rec_chars r cs
  | WSelect code =>
      if leqb code [64] then mkR (r_pst r) false d0 (r_out r)
      else if leqb code [71] || leqb code [56] then mkR (r_pst r) true (r_dec r) (r_out r)
      else r
  | WApi _ | WClearDirty => r
  end.
Definition rec_run (os : list wop) : rec := fold_left rec_step os rinit.
End World.
