(* TablesOk_C12.v — tie 1: every constant and table of the CURRENT source (dumped from the compiled crate
   into Gen/GenTables.v on every run) equals the documented value in Tables.v / Charsets.v.
   Each lemma is closed by kernel computation; a changed table entry in /repo makes exactly the lemma of
   the properties that depend on it fail. *)
From Coq Require Import NArith List Bool String.
From MT Require Import Lib Types Charsets Tables.
From MT.Gen Require Import GenTables.
Import ListNotations.
Open Scope N_scope.

Definition one (x : N) : list N := [x].
Definition field_name (f : tfield) : str :=
  (match f with FBold => s2n "bold" | FItalics => s2n "italics" | FUnderscore => s2n "underscore"
              | FBlink => s2n "blink" | FReverse => s2n "reverse" | FStrike => s2n "strikethrough" end)%string.
Definition text_strings : list (N * str) :=
  map (fun e : N * (tfield * bool) => (fst e, (if snd (snd e) then 43 else 45) :: field_name (fst (snd e)))) text_table.

(* C12: mode numbers and the power-on mode set *)
Theorem tables_ok_C12 :
  g_modes = [LNM; IRM; DECTCEM; DECSCNM; DECOM; DECAWM; DECCOLM] /\ g_default_modes = [DECAWM; DECTCEM].
Proof. vm_compute. repeat split; reflexivity. Qed.
