(* Screen.v — executable model of src/screen.rs (impl Screen + impl ParserListener for Screen),
   function by function, loop by loop, over the sparse buffer. Numbers are unbounded N; the places
   where the Rust code could panic on checked arithmetic are listed in Safe.v. *)
From Coq Require Import NArith List Bool.
From MT Require Import Lib Types Charsets Tables.
Import ListNotations.
Open Scope N_scope.

Section Model.
Variable wid : cp -> N.            (* unicode_width: c.width().unwrap_or(0), one of 0,1,2 *)
Variable is_comb : cp -> bool.     (* unicode_normalization::char::is_combining_mark *)
Variable nfc : str -> str.         (* s.nfc().collect::<String>() *)

Definition has_mode (s : screen) (m : N) : bool := nmem m (mode s).
Definition default_char (s : screen) : cell :=
  mkCell s_space s_default s_default false false false false (has_mode s DECSCNM) false.
Definition nhat (n : option N) : N :=               (* count.map(|a| if a > 0 {a} else {1}).unwrap_or(1) *)
  match n with Some a => if 0 <? a then a else 1 | None => 1 end.
Definition orow (o : option row) : row := match o with Some r => r | None => NMap.empty end.
Definition add_dirty (s : screen) (y : N) : screen := set_dirty s (nadd y (dirty s)).
Definition add_dirty_range (s : screen) (lo hi : N) : screen := set_dirty s (nunion (range lo hi) (dirty s)).
Definition margins_or_full (s : screen) : N * N :=
  match margins s with Some m => m | None => (0, lines s - 1) end.

Definition ensure_hbounds (s : screen) : screen := set_x s (N.min (N.max 0 (cx s)) (columns s - 1)).
Definition ensure_vbounds (s : screen) (use_margins : bool) : screen :=
  let '(top, bottom) :=
    match margins s with
    | Some (t, b) => if use_margins || has_mode s DECOM then (t, b) else (0, lines s - 1)
    | None => (0, lines s - 1)
    end in
  set_y s (N.min (N.max top (cy s)) bottom).

Definition cursor_position (s : screen) (line column : option N) : screen :=
  let column := match column with Some a => if a =? 0 then 1 else a | None => 1 end - 1 in
  let line := match line with Some a => if a =? 0 then 1 else a | None => 1 end - 1 in
  let go (line : N) := ensure_vbounds (ensure_hbounds (set_y (set_x s column) line)) false in
  match margins s with
  | Some (top, bottom) =>
      if has_mode s DECOM then
        let line := line + top in
        if (line <? top) || (bottom <? line) then s else go line
      else go line
  | None => go line
  end.

Definition set_margins (s : screen) (top bottom : option N) : screen :=
  if (match top with Some t => t | None => 0 end =? 0) && (match bottom with None => true | _ => false end)
  then set_margins_f s None
  else
    let '(mt, mb) := margins_or_full s in
    let top' := match top with None => mt | Some t => N.max 0 (N.min (t - 1) (lines s - 1)) end in
    let bottom' := match bottom with None => mb | Some b => N.max 0 (N.min (b - 1) (lines s - 1)) end in
    if top' + 1 <=? bottom' then cursor_position (set_margins_f s (Some (top', bottom'))) None None
    else s.

(* ---- display(): materialises absent rows/cells, returns the rendered lines ---- *)
Definition is_wide (d : str) : bool := match d with c :: _ => wid c =? 2 | [] => false end.
Definition render_step (dflt : cell) (st : row * str * bool) (x : N) : row * str * bool :=
  let '(line, res, skip) := st in
  if skip then (line, res, false)
  else
    let line' := match NMap.get x line with Some _ => line | None => NMap.set x dflt line end in
    let d := match NMap.get x line' with Some c => c_data c | None => [] end in
    (line', res ++ d, is_wide d).
Definition render_line (dflt : cell) (cols : N) (line : row) : row * str :=
  let '(l, r, _) := fold_left (render_step dflt) (range 0 cols) (line, [], false) in (l, r).
Definition display_step (dflt : cell) (cols : N) (st : NMap.t row * list str) (y : N) : NMap.t row * list str :=
  let '(buf, out) := st in
  let '(line', r) := render_line dflt cols (orow (NMap.get y buf)) in
  (NMap.set y line' buf, out ++ [r]).
Definition display (s : screen) : screen * list str :=
  let '(buf, out) := fold_left (display_step (default_char s) (columns s)) (range 0 (lines s)) (buffer s, []) in
  (set_buffer s buf, out).

(* ---- whole-screen operations ---- *)
Definition align_cell (dflt : cell) (line : row) (x : N) : row :=
  let c := match NMap.get x line with Some c => c | None => dflt end in
  NMap.set x (with_data c [69]) line.
Definition align_row (dflt : cell) (cols : N) (buf : NMap.t row) (y : N) : NMap.t row :=
  NMap.set y (fold_left (align_cell dflt) (range 0 cols) (orow (NMap.get y buf))) buf.
Definition alignment_display (s : screen) : screen :=
  let s1 := add_dirty_range s 0 (lines s) in
  set_buffer s1 (fold_left (align_row (default_char s1) (columns s1)) (range 0 (lines s1)) (buffer s1)).

Definition define_charset (s : screen) (code mode : str) : screen :=
  match charset_of_code code with
  | Some m => if leqb mode [40] then set_g0 s m else if leqb mode [41] then set_g1 s m else s
  | None => s
  end.

Definition default_tabstops (cols : N) : list N := filter (fun x => x mod 8 =? 0) (range 8 cols).
Definition reset (s : screen) : screen :=
  let s := set_dirty s (range 0 (lines s)) in
  let s := set_buffer s NMap.empty in
  let s := set_margins_f s None in
  let s := set_mode_f s default_modes in
  let s := set_title_f s [] in
  let s := set_icon_f s [] in
  let s := set_charset s G0 in
  let s := set_g0 s Lat1 in
  let s := set_g1 s Vt100 in
  let s := set_tabstops s (default_tabstops (columns s)) in
  let s := set_cur s (mkCursor 0 0 (default_char s) false) in
  let s := cursor_position s None None in
  set_saved_columns s None.

Definition carriage_return (s : screen) : screen := set_x s 0.
Definition cursor_up (s : screen) (n : option N) : screen :=
  let top := match margins s with Some (t, _) => t | None => 0 end in
  set_y s (N.max (cy s - nhat n) top).
Definition cursor_down (s : screen) (n : option N) : screen :=
  let bottom := match margins s with Some (_, b) => b | None => lines s - 1 end in
  set_y s (N.min (cy s + nhat n) bottom).
Definition cursor_down1 s n := carriage_return (cursor_down s n).
Definition cursor_up1 s n := carriage_return (cursor_up s n).
Definition cursor_forward (s : screen) (n : option N) : screen := ensure_hbounds (set_x s (cx s + nhat n)).
Definition cursor_back (s : screen) (n : option N) : screen :=
  let s := if cx s =? columns s then set_x s (cx s - 1) else s in
  let k := nhat n in
  let s := if k <=? cx s then set_x s (cx s - k) else set_x s 0 in
  ensure_hbounds s.
Definition cursor_to_column (s : screen) (n : option N) : screen :=
  ensure_hbounds (set_x s (match n with Some a => a | None => 1 end - 1)).
Definition cursor_to_line (s : screen) (n : option N) : screen :=
  let s := set_y s (match n with Some a => a | None => 1 end - 1) in
  let s := if has_mode s DECOM then match margins s with Some (t, _) => set_y s (cy s + t) | None => s end else s in
  ensure_vbounds s false.

Definition copy_row (old : NMap.t row) (off : N) (nb : NMap.t row) (y : N) : NMap.t row :=
  NMap.set (y + off) (orow (NMap.get y old)) nb.
Definition index (s : screen) : screen :=
  let '(top, bottom) := margins_or_full s in
  if cy s =? bottom then
    let s := add_dirty_range s 0 (lines s) in
    let old := buffer s in
    let nb := fold_left (copy_row old 0) (range 0 top) NMap.empty in
    let nb := fold_left (fun nb y => NMap.set y (orow (NMap.get (y + 1) old)) nb) (range top bottom) nb in
    let nb := NMap.set bottom NMap.empty nb in
    let nb := fold_left (copy_row old 0) (range (bottom + 1) (lines s)) nb in
    set_buffer s nb
  else cursor_down s None.
Definition linefeed (s : screen) : screen :=
  let s := index s in if has_mode s LNM then carriage_return s else s.
Definition reverse_index (s : screen) : screen :=
  let '(top, bottom) := margins_or_full s in
  if cy s =? top then
    let s := add_dirty_range s 0 (lines s) in
    let old := buffer s in
    let nb := fold_left (copy_row old 0) (range 0 top) NMap.empty in
    let nb := fold_left (copy_row old 1) (rev (range top bottom)) nb in
    let nb := NMap.set top NMap.empty nb in
    let nb := fold_left (copy_row old 0) (range (bottom + 1) (lines s)) nb in
    set_buffer s nb
  else cursor_up s None.

Definition set_tab_stop (s : screen) : screen := set_tabstops s (nadd (cx s) (tabstops s)).
Definition save_cursor (s : screen) : screen :=
  set_savepoints s (mkSave (cur s) (g0 s) (g1 s) (charset s) (has_mode s DECOM) (has_mode s DECAWM) :: savepoints s).

Fixpoint ninsert (x : N) (l : list N) : list N :=
  match l with [] => [x] | a :: r => if x <=? a then x :: l else a :: ninsert x r end.
Definition nsort (l : list N) : list N := fold_right ninsert [] l.
Definition tab (s : screen) : screen :=
  let column := match find (fun st => cx s <? st) (nsort (tabstops s)) with Some st => st | None => 0 end in
  let column := if column =? 0 then columns s - 1 else column in
  set_x s (N.min column (columns s - 1)).

(* generic in-place shifts used by ICH/IL (right, reverse order) and DCH/DL (left, forward order) *)
Definition shr_body {A} (k lim : N) (f : option A -> option A) (g : option A) (m : NMap.t A) (x : N) : NMap.t A :=
  let m1 := if x + k <? lim then NMap.setopt (x + k) (f (NMap.get x m)) m else m in
  NMap.setopt x g m1.
Definition shl_body {A} (k lim : N) (f : option A -> option A) (m : NMap.t A) (x : N) : NMap.t A :=
  if x + k <? lim then NMap.setopt x (f (NMap.get (x + k) m)) (NMap.remove (x + k) m)
  else NMap.remove x m.

Definition fill (d : cell) (o : option cell) : option cell := match o with Some c => Some c | None => Some d end.
Definition insert_characters (s : screen) (n : option N) : screen :=
  let s := add_dirty s (cy s) in
  let k := nhat n in
  let d := default_char s in
  let line := orow (NMap.get (cy s) (buffer s)) in
  let line := fold_left (shr_body k (columns s) (fill d) (Some d)) (rev (range (cx s) (columns s))) line in
  set_buffer s (NMap.set (cy s) line (buffer s)).
Definition delete_characters (s : screen) (n : option N) : screen :=
  let s := add_dirty s (cy s) in
  let k := nhat n in
  let d := default_char s in
  let line := orow (NMap.get (cy s) (buffer s)) in
  let line := fold_left (shl_body k (columns s) (fill d)) (range (cx s) (columns s)) line in
  set_buffer s (NMap.set (cy s) line (buffer s)).
Definition insert_lines (s : screen) (n : option N) : screen :=
  let k := nhat n in
  let '(top, bottom) := margins_or_full s in
  if (top <=? cy s) && (cy s <=? bottom) then
    let s := add_dirty_range s (cy s) (lines s) in
    let buf := fold_left (shr_body k (bottom + 1) (fun o => o) None) (rev (range (cy s) (bottom + 1))) (buffer s) in
    carriage_return (set_buffer s buf)
  else s.
Definition delete_lines (s : screen) (n : option N) : screen :=
  let k := nhat n in
  let '(top, bottom) := margins_or_full s in
  if (top <=? cy s) && (cy s <=? bottom) then
    let s := add_dirty_range s (cy s) (lines s) in
    let buf := fold_left (shl_body k (bottom + 1) (fun o => o)) (range (cy s) (bottom + 1)) (buffer s) in
    carriage_return (set_buffer s buf)
  else s.

Definition fill_row (a : cell) (lo hi : N) (line : row) : row :=
  fold_left (fun l x => NMap.set x a l) (range lo hi) line.
Definition erase_row_range (s : screen) (lo hi : N) : screen :=    (* on the cursor row, with cursor.attr *)
  let line := orow (NMap.get (cy s) (buffer s)) in
  set_buffer s (NMap.set (cy s) (fill_row (cu_attr (cur s)) lo hi line) (buffer s)).
Definition erase_in_line (s : screen) (how : option N) : screen :=
  let s := add_dirty s (cy s) in
  let how := match how with Some h => h | None => 0 end in
  if how =? 0 then erase_row_range s (cx s) (columns s)
  else if how =? 1 then erase_row_range s 0 (N.min (cx s + 1) (columns s))
  else if how =? 2 then erase_row_range s 0 (columns s)
  else s.
Definition erase_in_display (s : screen) (how : option N) : screen :=
  let how := match how with Some h => h | None => 0 end in
  let '(lo, hi) := if how =? 0 then (cy s + 1, lines s) else if how =? 1 then (0, cy s)
                   else if (how =? 2) || (how =? 3) then (0, lines s) else (0, 0) in
  let s := add_dirty_range s lo hi in
  let buf := fold_left (fun b y => NMap.set y (fill_row (cu_attr (cur s)) 0 (columns s) (orow (NMap.get y b))) b)
                       (range lo hi) (buffer s) in
  let s := set_buffer s buf in
  if (how =? 0) || (how =? 1) then erase_in_line s (Some how) else s.
Definition erase_characters (s : screen) (n : option N) : screen :=
  let s := add_dirty s (cy s) in
  erase_row_range s (cx s) (N.min (cx s + nhat n) (columns s)).

Definition clear_tab_stop (s : screen) (how : option N) : screen :=
  let how := match how with Some h => h | None => 0 end in
  if how =? 0 then set_tabstops s (nrem (cx s) (tabstops s))
  else if how =? 3 then set_tabstops s []
  else s.

(* ---- SGR: `replace` is a HashMap<String,String> keyed by field name ---- *)
Record repl := mkRepl { r_data : option str; r_fg : option str; r_bg : option str;
  r_bold : option bool; r_italics : option bool; r_underscore : option bool;
  r_strike : option bool; r_reverse : option bool; r_blink : option bool }.
Definition repl_empty := mkRepl None None None None None None None None None.
Definition repl_of_cell (c : cell) : repl :=          (* to_map *)
  mkRepl (Some (c_data c)) (Some (c_fg c)) (Some (c_bg c)) (Some (c_bold c)) (Some (c_italics c))
         (Some (c_underscore c)) (Some (c_strike c)) (Some (c_reverse c)) (Some (c_blink c)).
Definition repl_fg (r : repl) v := mkRepl (r_data r) (Some v) (r_bg r) (r_bold r) (r_italics r) (r_underscore r) (r_strike r) (r_reverse r) (r_blink r).
Definition repl_bg (r : repl) v := mkRepl (r_data r) (r_fg r) (Some v) (r_bold r) (r_italics r) (r_underscore r) (r_strike r) (r_reverse r) (r_blink r).
Definition repl_text (r : repl) (f : tfield) (b : bool) : repl :=
  match f with
  | FBold => mkRepl (r_data r) (r_fg r) (r_bg r) (Some b) (r_italics r) (r_underscore r) (r_strike r) (r_reverse r) (r_blink r)
  | FItalics => mkRepl (r_data r) (r_fg r) (r_bg r) (r_bold r) (Some b) (r_underscore r) (r_strike r) (r_reverse r) (r_blink r)
  | FUnderscore => mkRepl (r_data r) (r_fg r) (r_bg r) (r_bold r) (r_italics r) (Some b) (r_strike r) (r_reverse r) (r_blink r)
  | FStrike => mkRepl (r_data r) (r_fg r) (r_bg r) (r_bold r) (r_italics r) (r_underscore r) (Some b) (r_reverse r) (r_blink r)
  | FReverse => mkRepl (r_data r) (r_fg r) (r_bg r) (r_bold r) (r_italics r) (r_underscore r) (r_strike r) (Some b) (r_blink r)
  | FBlink => mkRepl (r_data r) (r_fg r) (r_bg r) (r_bold r) (r_italics r) (r_underscore r) (r_strike r) (r_reverse r) (Some b)
  end.
Definition ov {B} (o : option B) (d : B) : B := match o with Some v => v | None => d end.
Definition apply_repl (c : cell) (r : repl) : cell :=   (* update_from_map *)
  mkCell (ov (r_data r) (c_data c)) (ov (r_fg r) (c_fg c)) (ov (r_bg r) (c_bg c)) (ov (r_bold r) (c_bold c))
         (ov (r_italics r) (c_italics c)) (ov (r_underscore r) (c_underscore c)) (ov (r_strike r) (c_strike c))
         (ov (r_reverse r) (c_reverse c)) (ov (r_blink r) (c_blink c)).

(* one iteration of `while let Some(attr) = attrs_list.pop()`: returns the rest of the list *)
Definition sgr_one (dflt : cell) (r : repl) (attr : N) (rest : list N) : repl * list N :=
  if attr =? 0 then (repl_of_cell dflt, rest)
  else match assoc attr fg_ansi with Some v => (repl_fg r v, rest) | None =>
  match assoc attr bg_ansi with Some v => (repl_bg r v, rest) | None =>
  match assoc attr text_table with Some (f, b) => (repl_text r f b, rest) | None =>
  match assoc attr fg_aixterm with Some v => (repl_fg r v, rest) | None =>
  match assoc attr bg_aixterm with Some v => (repl_bg r v, rest) | None =>
  if (attr =? FG_256) || (attr =? BG_256) then
    let setk := if attr =? FG_256 then repl_fg r else repl_bg r in
    match rest with
    | [] => (r, [])
    | n :: rest1 =>
        if n =? 5 then
          match rest1 with
          | [] => (r, [])
          | m :: rest2 => if m <? palette_size then (setk (palette m), rest2) else (r, rest2)
          end
        else if n =? 2 then
          match rest1 with
          | rr :: gg :: bb :: rest2 =>
              if (rr <=? 255) && (gg <=? 255) && (bb <=? 255) then (setk (rgb rr gg bb), rest2) else (r, rest2)
          | _ => (r, [])                      (* three pops on a shorter list drain it *)
          end
        else (r, rest1)
    end
  else (r, rest) end end end end end.
Fixpoint sgr_loop (fuel : nat) (dflt : cell) (r : repl) (l : list N) : repl :=
  match fuel with
  | O => r
  | S f => match l with [] => r | a :: rest => let '(r', rest') := sgr_one dflt r a rest in sgr_loop f dflt r' rest' end
  end.
Definition select_graphic_rendition (s : screen) (attrs : list N) : screen :=
  match attrs with
  | [] => set_attr s (default_char s)
  | [a] => if a =? 0 then set_attr s (default_char s)
           else set_attr s (apply_repl (cu_attr (cur s)) (sgr_loop 1 (default_char s) repl_empty attrs))
  | _ => set_attr s (apply_repl (cu_attr (cur s)) (sgr_loop (length attrs) (default_char s) repl_empty attrs))
  end.

(* ---- modes ---- *)
Definition enc_modes (ms : list N) (private : bool) : list N := if private then map (fun m => m * 32) ms else ms.
Definition all_cells (f : cell -> cell) (buf : NMap.t row) : NMap.t row := NMap.map_vals (NMap.map_vals f) buf.
Definition sm_pre (s : screen) (ml : list N) : screen :=
  let s := if nmem DECSCNM ml then add_dirty_range s 0 (lines s) else s in
  set_mode_f s (nunion ml (mode s)).
Definition sm_post (s : screen) (ml : list N) : screen :=
  let s := if nmem DECOM ml then cursor_position s None None else s in
  let s := if nmem DECSCNM ml then
             select_graphic_rendition (set_buffer s (all_cells (fun c => with_reverse c true) (buffer s))) [7]
           else s in
  if nmem DECTCEM ml then set_hidden s false else s.
Definition rm_pre (s : screen) (ml : list N) : screen :=
  let s := if nmem DECSCNM ml then add_dirty_range s 0 (lines s) else s in
  set_mode_f s (ndiff (mode s) ml).
Definition rm_post (s : screen) (ml : list N) : screen :=
  let s := if nmem DECOM ml then cursor_position s None None else s in
  let s := if nmem DECSCNM ml then
             select_graphic_rendition (set_buffer s (all_cells (fun c => with_reverse c false) (buffer s))) [27]
           else s in
  if nmem DECTCEM ml then set_hidden s true else s.

Definition restore_cursor (s : screen) : screen :=
  match savepoints s with
  | sp :: rest =>
      let s := set_savepoints s rest in
      let s := set_charset (set_g1 (set_g0 s (sp_g0 sp)) (sp_g1 sp)) (sp_charset sp) in
      let s := if sp_origin sp then sm_post (sm_pre s [DECOM]) [DECOM] else s in     (* set_mode(&[DECOM], false) *)
      let s := if sp_wrap sp then sm_post (sm_pre s [DECAWM]) [DECAWM] else s in
      let s := set_cur s (sp_cursor sp) in
      ensure_vbounds (ensure_hbounds s) true
  | [] =>
      let s := rm_post (rm_pre s [DECOM]) [DECOM] in                                 (* reset_mode(&[DECOM], false) *)
      cursor_position s None None
  end.

Definition trunc_row (newc oldc : N) (line : row) : row :=
  fold_left (fun l x => NMap.remove x l) (range newc oldc) line.
Definition resize (s : screen) (l c : option N) : screen :=
  let l := match l with Some v => v | None => lines s end in
  let c := match c with Some v => v | None => columns s end in
  if (l =? lines s) && (c =? columns s) then s
  else
    let s := add_dirty_range s 0 l in
    let s := if l <? lines s then
               let s := set_margins_f s None in
               let s := save_cursor s in
               let s := cursor_position s (Some 0) (Some 0) in
               let s := delete_lines s (Some (lines s - l)) in
               restore_cursor s
             else s in
    let s := if c <? columns s then set_buffer s (NMap.map_vals (trunc_row c (columns s)) (buffer s)) else s in
    let s := set_size s l c in
    let s := set_dirty s (filter (fun y => y <? l) (dirty s)) in
    let s := set_margins s None None in
    ensure_vbounds (ensure_hbounds s) false.

Definition set_mode (s : screen) (ms : list N) (private : bool) : screen :=
  let ml := enc_modes ms private in
  let s := sm_pre s ml in
  let s := if nmem DECCOLM ml then
             let s := set_saved_columns s (Some (columns s)) in
             let s := resize s None (Some 132) in
             let s := erase_in_display s (Some 2) in
             cursor_position s None None
           else s in
  sm_post s ml.
Definition reset_mode (s : screen) (ms : list N) (private : bool) : screen :=
  let ml := enc_modes ms private in
  let s := rm_pre s ml in
  let s := if nmem DECCOLM ml then
             let s := if columns s =? 132 then
                        match saved_columns s with
                        | Some w => set_saved_columns (resize s None (Some w)) None
                        | None => s
                        end
                      else s in
             let s := erase_in_display s (Some 2) in
             cursor_position s None None
           else s in
  rm_post s ml.

(* ---- draw ---- *)
Definition translate_char (s : screen) (c : cp) : cp :=
  if 255 <? c then c else translate (match charset s with G1 => g1 s | G0 => g0 s end) c.
Definition put_cell (s : screen) (y x : N) (c : cell) : screen :=
  set_buffer s (NMap.set y (NMap.set x c (orow (NMap.get y (buffer s)))) (buffer s)).
Definition append_mark (s : screen) (y x : N) (ch : cp) : screen :=   (* entry(x).or_insert(default).data = nfc(data)+ch *)
  let line := orow (NMap.get y (buffer s)) in
  let last := match NMap.get x line with Some c => c | None => default_char s end in
  put_cell s y x (with_data last (nfc (c_data last) ++ [ch])).
Definition draw_char (s : screen) (ch : cp) : screen :=
  let w := wid ch in
  let s := if cx s =? columns s then
             if has_mode s DECAWM then linefeed (carriage_return (add_dirty s (cy s)))
             else if 0 <? w then set_x s (cx s - w) else s
           else s in
  let s := if has_mode s IRM && (0 <? w) then insert_characters s (Some w) else s in
  (* let line = self.buffer.entry(cursor.y).or_insert_with(HashMap::new) *)
  let s := set_buffer s (NMap.set (cy s) (orow (NMap.get (cy s) (buffer s))) (buffer s)) in
  let s := if w =? 1 then put_cell s (cy s) (cx s) (with_data (cu_attr (cur s)) [ch])
           else if w =? 2 then
             let s := put_cell s (cy s) (cx s) (with_data (cu_attr (cur s)) [ch]) in
             if cx s + 1 <? columns s then put_cell s (cy s) (cx s + 1) (with_data (cu_attr (cur s)) []) else s
           else if (w =? 0) && is_comb ch then
             if 0 <? cx s then append_mark s (cy s) (cx s - 1) ch
             else if 0 <? cy s then add_dirty (append_mark s (cy s - 1) (columns s - 1) ch) (cy s - 1)
             else s
           else s in
  if 0 <? w then set_x s (N.min (cx s + w) (columns s)) else s.
Definition draw (s : screen) (text : str) : screen :=
  let data := map (translate_char s) text in
  let s := fold_left draw_char data s in
  add_dirty s (cy s).

(* ---- dispatcher over the public surface ---- *)
Definition step (s : screen) (o : op) : screen :=
  match o with
  | OAlign => alignment_display s
  | ODefCharset code mode => define_charset s code mode
  | OReset => reset s
  | OIndex => index s
  | OLinefeed => linefeed s
  | ORevIndex => reverse_index s
  | OSetTab => set_tab_stop s
  | OSave => save_cursor s
  | ORestore => restore_cursor s
  | OShiftOut => set_charset s G1
  | OShiftIn => set_charset s G0
  | OBell => s
  | OBackspace => cursor_back s None
  | OTab => tab s
  | OCR => carriage_return s
  | ODraw t => draw s t
  | OIch n => insert_characters s n
  | OCuu n => cursor_up s n
  | OCud n => cursor_down s n
  | OCuf n => cursor_forward s n
  | OCub n => cursor_back s n
  | OCnl n => cursor_down1 s n
  | OCpl n => cursor_up1 s n
  | OCha n => cursor_to_column s n
  | OCup l c => cursor_position s l c
  | OEd how => erase_in_display s how
  | OEl how => erase_in_line s how
  | OIl n => insert_lines s n
  | ODl n => delete_lines s n
  | ODch n => delete_characters s n
  | OEch n => erase_characters s n
  | ODa _ _ => s
  | OVpa n => cursor_to_line s n
  | OTbc how => clear_tab_stop s how
  | OSm ms p => set_mode s ms p
  | ORm ms p => reset_mode s ms p
  | OSgr ps => select_graphic_rendition s ps
  | OTitle t => set_title_f s t
  | OIcon t => set_icon_f s t
  | OMargins t b => set_margins s t b
  | OResize l c => resize s l c
  | ODisplay => fst (display s)
  end.

Definition init (cols lns : N) : screen :=        (* Screen::new(columns, lines) *)
  reset (mkScreen [] cols lns [] None NMap.empty default_modes [] [] G0 Lat1 Vt100 []
                  (mkCursor 0 0 cell_default false) None).

(* what an embedder can see of a cell: absent rows/cells read as default_char *)
Definition cellv (s : screen) (r c : N) : cell :=
  match NMap.get r (buffer s) with
  | Some line => match NMap.get c line with Some x => x | None => default_char s end
  | None => default_char s
  end.
End Model.
