(* TablesOk_C20.v — tie 1: every constant and table of the CURRENT source (dumped from the compiled crate
   into Gen/GenTables.v on every run) equals the documented value in Tables.v / Charsets.v.
   Each lemma is closed by kernel computation; a changed table entry in /repo makes exactly the lemma of
   the properties that depend on it fail. *)
From Coq Require Import NArith List Bool String.
From MT Require Import Lib Types Charsets Tables.
From MT.Gen Require Import GenTables.
Import ListNotations.
Open Scope N_scope.

Definition one (x : N) : list N := [x].
Definition field_name (f : tfield) : str :=
  (match f with FBold => s2n "bold" | FItalics => s2n "italics" | FUnderscore => s2n "underscore"
              | FBlink => s2n "blink" | FReverse => s2n "reverse" | FStrike => s2n "strikethrough" end)%string.
Definition text_strings : list (N * str) :=
  map (fun e : N * (tfield * bool) => (fst e, (if snd (snd e) then 43 else 45) :: field_name (fst (snd e)))) text_table.

(* C20: all 4 x 256 entries and the designator keys *)
Theorem tables_ok_C20 :
  g_lat1 = map (translate Lat1) (range 0 256) /\ g_vt100 = map (translate Vt100) (range 0 256) /\
  g_ibmpc = map (translate Ibmpc) (range 0 256) /\ g_vax42 = map (translate Vax42) (range 0 256) /\
  g_maps = [([48], 1); ([66], 0); ([85], 2); ([86], 3)].
Proof. vm_compute. repeat split; reflexivity. Qed.
