(* Utf8.v — the streaming UTF-8 decoder used by ByteParser after the repair (encoding_rs' UTF-8
   decoder = the WHATWG decoder state machine, with BOM removal at stream start). *)
From Coq Require Import NArith List Bool.
From MT Require Import Lib Types.
Import ListNotations.
Open Scope N_scope.

Record dstate := mkD { d_rem : N;      (* continuation bytes still needed, 0..3 *)
                       d_cp : N;       (* code point bits accumulated so far *)
                       d_lo : N; d_hi : N;   (* admissible range of the next continuation byte *)
                       d_first : bool  (* nothing has been emitted yet (BOM sniffing still active) *) }.
Definition d0 : dstate := mkD 0 0 128 191 true.
Definition REPL : cp := 65533.
Definition BOM : cp := 65279.

(* one byte with the decoder between characters (d_rem = 0); returns new (rem, cp, lo, hi) and output *)
Definition lead (b : N) : (N * N * N * N) * list cp :=
  if b <=? 127 then ((0, 0, 128, 191), [b])
  else if (194 <=? b) && (b <=? 223) then ((1, b - 192, 128, 191), [])
  else if (224 <=? b) && (b <=? 239) then
    ((2, b - 224, (if b =? 224 then 160 else 128), (if b =? 237 then 159 else 191)), [])
  else if (240 <=? b) && (b <=? 244) then
    ((3, b - 240, (if b =? 240 then 144 else 128), (if b =? 244 then 143 else 191)), [])
  else ((0, 0, 128, 191), [REPL]).
Definition raw_step (d : dstate) (b : N) : (N * N * N * N) * list cp :=
  if d_rem d =? 0 then lead b
  else if (d_lo d <=? b) && (b <=? d_hi d) then
    let c := d_cp d * 64 + (b - 128) in
    if d_rem d =? 1 then ((0, 0, 128, 191), [c]) else ((d_rem d - 1, c, 128, 191), [])
  else (* ill-formed: U+FFFD for the maximal subpart, then the byte is processed again *)
    let '(st, out) := lead b in (st, REPL :: out).
Definition dstep (d : dstate) (b : N) : dstate * list cp :=
  let '((r, c, lo, hi), out) := raw_step d b in
  match out with
  | [] => (mkD r c lo hi (d_first d), [])
  | x :: rest => (mkD r c lo hi false, if d_first d && (x =? BOM) then rest else out)
  end.
Fixpoint drun (d : dstate) (bs : list N) : dstate * list cp :=
  match bs with
  | [] => (d, [])
  | b :: r => let '(d1, o1) := dstep d b in let '(d2, o2) := drun d1 r in (d2, o1 ++ o2)
  end.
(* what a final flush would add: one U+FFFD for an incomplete tail (used only in statements) *)
Definition dflush (d : dstate) : list cp := if d_rem d =? 0 then [] else [REPL].
