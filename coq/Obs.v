(* Obs.v — observable equality of two screens (views, not raw maps) and the boolean well-formedness
   predicates (C09's statement and the internal no-hidden-cells invariant). *)
From Coq Require Import NArith List Bool.
From MT Require Import Lib Types Charsets Tables Screen.
Import ListNotations.
Open Scope N_scope.

Definition optN_eqb (a b : option N) : bool :=
  match a, b with Some x, Some y => x =? y | None, None => true | _, _ => false end.
Definition margins_eqb (a b : option (N * N)) : bool :=
  match a, b with Some (t, u), Some (t', u') => (t =? t') && (u =? u') | None, None => true | _, _ => false end.
Definition cursor_eqb (a b : cursor) : bool :=
  (cu_x a =? cu_x b) && (cu_y a =? cu_y b) && cell_eqb (cu_attr a) (cu_attr b) && Bool.eqb (cu_hidden a) (cu_hidden b).
Definition save_eqb (a b : savepoint) : bool :=
  cursor_eqb (sp_cursor a) (sp_cursor b) && csid_eqb (sp_g0 a) (sp_g0 b) && csid_eqb (sp_g1 a) (sp_g1 b) &&
  gsel_eqb (sp_charset a) (sp_charset b) && Bool.eqb (sp_origin a) (sp_origin b) && Bool.eqb (sp_wrap a) (sp_wrap b).
Fixpoint saves_eqb (a b : list savepoint) : bool :=
  match a, b with [], [] => true | x :: r, y :: r' => save_eqb x y && saves_eqb r r' | _, _ => false end.

Definition grid_eqb (s1 s2 : screen) : bool :=
  forallb (fun r => forallb (fun c => cell_eqb (cellv s1 r c) (cellv s2 r c)) (range 0 (columns s1))) (range 0 (lines s1)).
(* everything but the grid and the dirty set *)
Definition rest_eqb (s1 s2 : screen) : bool :=
  (columns s1 =? columns s2) && (lines s1 =? lines s2) && cursor_eqb (cur s1) (cur s2) &&
  margins_eqb (margins s1) (margins s2) && nseteq (mode s1) (mode s2) && nseteq (tabstops s1) (tabstops s2) &&
  leqb (title s1) (title s2) && leqb (icon_name s1) (icon_name s2) && gsel_eqb (charset s1) (charset s2) &&
  csid_eqb (g0 s1) (g0 s2) && csid_eqb (g1 s1) (g1 s2) && saves_eqb (savepoints s1) (savepoints s2) &&
  optN_eqb (saved_columns s1) (saved_columns s2).
Definition obs_eqb (s1 s2 : screen) : bool :=
  rest_eqb s1 s2 && nseteq (dirty s1) (dirty s2) && grid_eqb s1 s2.
(* raw representation equality of the buffers (informational: representation drift) *)
Definition row_raw_eqb (a b : row) : bool :=
  forallb (fun k => match NMap.get k a, NMap.get k b with Some x, Some y => cell_eqb x y | _, _ => false end) (NMap.keys a) &&
  forallb (fun k => NMap.mem k a) (NMap.keys b).
Definition raw_eqb (s1 s2 : screen) : bool :=
  forallb (fun k => match NMap.get k (buffer s1), NMap.get k (buffer s2) with Some x, Some y => row_raw_eqb x y | _, _ => false end)
          (NMap.keys (buffer s1)) &&
  forallb (fun k => NMap.mem k (buffer s1)) (NMap.keys (buffer s2)).

(* ---- colours ---- *)
Definition colour_name_list : list str :=
  s_default :: map s2n colour_names ++ map (fun n => bright (s2n n)) colour_names.
Definition is_hex (c : cp) : bool := ((48 <=? c) && (c <=? 57)) || ((97 <=? c) && (c <=? 102)).
Definition colour_ok (c : str) : bool :=
  existsb (leqb c) colour_name_list || ((N.of_nat (length c) =? 6) && forallb is_hex c).
Definition cell_colours_ok (c : cell) : bool := colour_ok (c_fg c) && colour_ok (c_bg c).

(* ---- C09: the statement ---- *)
Definition margins_ok (s : screen) : bool :=
  match margins s with None => true | Some (t, b) => (t <? b) && (b <=? lines s - 1) end.
Definition c09b (s : screen) : bool :=
  (1 <=? columns s) && (1 <=? lines s) &&
  (cu_y (cur s) <? lines s) && (cu_x (cur s) <=? columns s) &&
  margins_ok s &&
  forallb (fun y => y <? lines s) (dirty s) &&
  forallb (fun r => forallb (fun c => cell_colours_ok (cellv s r c)) (range 0 (columns s))) (range 0 (lines s)).
(* ---- internal part of WF: nothing stored outside the visible grid, rendition sane everywhere ---- *)
Definition no_hidden (s : screen) : bool :=
  forallb (fun kr => (fst kr <? lines s) && forallb (fun kc => fst kc <? columns s) (snd kr)) (buffer s).
Definition attr_ok (c : cell) : bool := leqb (c_data c) s_space && cell_colours_ok c.
Definition wf_internal (s : screen) : bool :=
  no_hidden s && attr_ok (cu_attr (cur s)) &&
  forallb (fun sp => attr_ok (cu_attr (sp_cursor sp))) (savepoints s) &&
  forallb (fun kr => forallb (fun kc => cell_colours_ok (snd kc)) (snd kr)) (buffer s).
Definition wfb (s : screen) : bool := c09b s && wf_internal s.
