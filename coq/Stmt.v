(* Stmt.v — abstraction function from the sparse model to the dense specification, and the boolean
   statement predicates that are both (a) the conclusions of the theorems and (b) extracted and
   evaluated on snapshots of the real implementation. *)
From Coq Require Import NArith List Bool.
From MT Require Import Lib Types Charsets Tables Screen Spec Obs.
Import ListNotations.
Open Scope N_scope.

Definition abs (s : screen) : astate :=
  mkA (columns s) (lines s) (cellv s) (cur s) (margins s) (mode s) (tabstops s) (dirty s)
      (charset s) (g0 s) (g1 s) (title s) (icon_name s) (savepoints s) (saved_columns s).

Definition a_rest_eqb (a1 a2 : astate) : bool :=
  (a_cols a1 =? a_cols a2) && (a_lines a1 =? a_lines a2) && cursor_eqb (a_cur a1) (a_cur a2) &&
  margins_eqb (a_margins a1) (a_margins a2) && nseteq (a_mode a1) (a_mode a2) && nseteq (a_tabs a1) (a_tabs a2) &&
  leqb (a_title a1) (a_title a2) && leqb (a_icon a1) (a_icon a2) && gsel_eqb (a_cs a1) (a_cs a2) &&
  csid_eqb (a_g0 a1) (a_g0 a2) && csid_eqb (a_g1 a1) (a_g1 a2) && saves_eqb (a_sp a1) (a_sp a2) &&
  optN_eqb (a_savedcols a1) (a_savedcols a2).
Definition aeqb (a1 a2 : astate) : bool :=
  a_rest_eqb a1 a2 && nseteq (a_dirty a1) (a_dirty a2) && a_grid_eqb a1 a2.

Section Stmt.
Variable wid : cp -> N.
Variable is_comb : cp -> bool.
Variable nfc : str -> str.

(* the one-step statement: the observable post-state is the documented closed form of the pre-state.
   [spec_ok_nd] leaves the dirty set out (most properties do not constrain it); [spec_ok] is the exact
   form; [dirty_ok] is what C17 (and the "marks every row" clauses of C12/C15/C16) demand: no index outside
   the screen, every row the documentation marks is marked, every changed row is marked —
   over-approximation allowed. *)
Definition spec_ok_nd (pre : screen) (o : op) (post : screen) : bool :=
  let a := astep wid is_comb nfc (abs pre) o in
  a_rest_eqb (abs post) a && a_grid_eqb (abs post) a.
Definition spec_ok (pre : screen) (o : op) (post : screen) : bool :=
  aeqb (abs post) (astep wid is_comb nfc (abs pre) o).
(* C10a: display() output *)
Fixpoint strs_eqb (a b : list str) : bool :=
  match a, b with [], [] => true | x :: r, y :: r' => leqb x y && strs_eqb r r' | _, _ => false end.
Definition display_ok (s : screen) (out : list str) : bool := strs_eqb out (a_display wid (abs s)).

(* C17: rows whose appearance differs between two snapshots of the same geometry *)
Definition row_same (s1 s2 : screen) (r : N) : bool :=
  forallb (fun c => cell_eqb (cellv s1 r c) (cellv s2 r c)) (range 0 (columns s2)).
Definition dirty_covers (pre post : screen) : bool :=
  forallb (fun y => y <? lines post) (dirty post) &&
  if (columns pre =? columns post) && (lines pre =? lines post)
  then forallb (fun r => row_same pre post r || nmem r (dirty post)) (range 0 (lines post))
  else forallb (fun r => nmem r (dirty post)) (range 0 (lines post)).
Definition dirty_ok (pre : screen) (o : op) (post : screen) : bool :=
  dirty_covers pre post && nsubset (a_dirty (astep wid is_comb nfc (abs pre) o)) (dirty post).
End Stmt.
