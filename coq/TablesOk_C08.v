(* TablesOk_C08.v — tie 1: every constant and table of the CURRENT source (dumped from the compiled crate
   into Gen/GenTables.v on every run) equals the documented value in Tables.v / Charsets.v.
   Each lemma is closed by kernel computation; a changed table entry in /repo makes exactly the lemma of
   the properties that depend on it fail. *)
From Coq Require Import NArith List Bool String.
From MT Require Import Lib Types Charsets Tables.
From MT.Gen Require Import GenTables.
Import ListNotations.
Open Scope N_scope.

Definition one (x : N) : list N := [x].
Definition field_name (f : tfield) : str :=
  (match f with FBold => s2n "bold" | FItalics => s2n "italics" | FUnderscore => s2n "underscore"
              | FBlink => s2n "blink" | FReverse => s2n "reverse" | FStrike => s2n "strikethrough" end)%string.
Definition text_strings : list (N * str) :=
  map (fun e : N * (tfield * bool) => (fst e, (if snd (snd e) then 43 else 45) :: field_name (fst (snd e)))) text_table.

(* C08: SGR tables, palette, default rendition *)
Theorem tables_ok_C08 :
  g_text = text_strings /\ g_fg_ansi = fg_ansi /\ g_bg_ansi = bg_ansi /\
  g_fg_aixterm = fg_aixterm /\ g_bg_aixterm = bg_aixterm /\ g_fg256 = FG_256 /\ g_bg256 = BG_256 /\
  g_palette = map palette (range 0 256) /\
  g_default_cell = ([s_space; s_default; s_default], 0).
Proof. vm_compute. repeat split; reflexivity. Qed.
