(* Lib.v — finite maps keyed by N (association lists), ranges, list-as-set helpers.
   Only get-based specifications are exported; set/remove are made Opaque for clients. *)
From Coq Require Import NArith List Bool Lia.
Import ListNotations.
Open Scope N_scope.

Module NMap.
Section M.
Context {A : Type}.
Definition t := list (N * A).
Definition empty : t := [].
Fixpoint get (k : N) (m : t) : option A :=
  match m with [] => None | (k', v) :: r => if k =? k' then Some v else get k r end.
Fixpoint remove (k : N) (m : t) : t :=
  match m with [] => [] | (k', v) :: r => if k =? k' then remove k r else (k', v) :: remove k r end.
Definition set (k : N) (v : A) (m : t) : t := (k, v) :: remove k m.
(* Rust: match opt { Some(v) => insert(k, v), None => remove(k) } *)
Definition setopt (k : N) (o : option A) (m : t) : t :=
  match o with Some v => set k v m | None => remove k m end.
Definition keys (m : t) : list N := map fst m.
Definition map_vals (f : A -> A) (m : t) : t := map (fun kv => (fst kv, f (snd kv))) m.
Definition mem (k : N) (m : t) : bool := match get k m with Some _ => true | None => false end.

Lemma get_empty k : get k empty = None. Proof. reflexivity. Qed.
Lemma get_remove k k' m : get k (remove k' m) = if k =? k' then None else get k m.
Proof.
  induction m as [|[a v] m IH]; simpl.
  - destruct (k =? k'); reflexivity.
  - destruct (k' =? a) eqn:E1.
    + rewrite IH. apply N.eqb_eq in E1; subst a.
      destruct (k =? k') eqn:E2; reflexivity.
    + simpl. destruct (k =? a) eqn:E2.
      * apply N.eqb_eq in E2; subst a. rewrite N.eqb_sym, E1. reflexivity.
      * exact IH.
Qed.
Lemma get_set k k' v m : get k (set k' v m) = if k =? k' then Some v else get k m.
Proof. unfold set; simpl. destruct (k =? k') eqn:E; [reflexivity|]. rewrite get_remove, E. reflexivity. Qed.
Lemma get_setopt k k' o m : get k (setopt k' o m) = if k =? k' then o else get k m.
Proof. destruct o; simpl; [apply get_set|]. rewrite get_remove. reflexivity. Qed.
Lemma get_map_vals f k m : get k (map_vals f m) = option_map f (get k m).
Proof. induction m as [|[a v] m IH]; simpl; [reflexivity|]. destruct (k =? a); [reflexivity|exact IH]. Qed.
Lemma in_keys_get k m : In k (keys m) <-> get k m <> None.
Proof.
  induction m as [|[a v] m IH]; simpl; [tauto|].
  destruct (k =? a) eqn:E.
  - apply N.eqb_eq in E. split; [discriminate|auto].
  - apply N.eqb_neq in E. rewrite <- IH. split; [intros [H|H]; [congruence|exact H]|auto].
Qed.
End M.
Arguments t : clear implicits.
End NMap.
Global Opaque NMap.set NMap.remove NMap.setopt NMap.map_vals.

(* ---------- ranges ---------- *)
Fixpoint range_nat (lo : N) (n : nat) : list N :=
  match n with O => [] | S n' => lo :: range_nat (N.succ lo) n' end.
(* [lo, hi) ; empty when hi <= lo *)
Definition range (lo hi : N) : list N := range_nat lo (N.to_nat (hi - lo)).

Lemma in_range_nat x lo n : In x (range_nat lo n) <-> lo <= x < lo + N.of_nat n.
Proof.
  revert lo; induction n as [|n IH]; intros lo; simpl.
  - lia.
  - rewrite IH. lia.
Qed.
Lemma in_range x lo hi : In x (range lo hi) <-> lo <= x < hi.
Proof. unfold range. rewrite in_range_nat. lia. Qed.
Lemma range_nat_length lo n : length (range_nat lo n) = n.
Proof. revert lo; induction n; intros; simpl; auto. Qed.
Lemma range_length lo hi : length (range lo hi) = N.to_nat (hi - lo).
Proof. apply range_nat_length. Qed.
Lemma range_nat_snoc lo n : range_nat lo (S n) = range_nat lo n ++ [lo + N.of_nat n].
Proof.
  revert lo; induction n as [|n IH]; intros lo.
  - simpl. f_equal. lia.
  - change (range_nat lo (S (S n))) with (lo :: range_nat (N.succ lo) (S n)).
    rewrite IH. simpl. f_equal. f_equal. f_equal. lia.
Qed.
Lemma range_empty lo hi : hi <= lo -> range lo hi = [].
Proof. intros H. unfold range. replace (hi - lo) with 0 by lia. reflexivity. Qed.
Lemma range_cons lo hi : lo < hi -> range lo hi = lo :: range (lo + 1) hi.
Proof.
  intros H. unfold range. replace (N.to_nat (hi - lo)) with (S (N.to_nat (hi - (lo + 1)))) by lia.
  simpl. f_equal. f_equal. lia.
Qed.
Lemma range_snoc lo hi : lo < hi -> range lo hi = range lo (hi - 1) ++ [hi - 1].
Proof.
  intros H. unfold range. replace (N.to_nat (hi - lo)) with (S (N.to_nat (hi - 1 - lo))) by lia.
  rewrite range_nat_snoc. f_equal. f_equal. lia.
Qed.
Lemma rev_range_cons lo hi : lo < hi -> rev (range lo hi) = (hi - 1) :: rev (range lo (hi - 1)).
Proof. intros H. rewrite (range_snoc lo hi H), rev_app_distr. reflexivity. Qed.
Lemma NoDup_range_nat lo n : NoDup (range_nat lo n).
Proof.
  revert lo; induction n as [|n IH]; intros lo; simpl; constructor.
  - rewrite in_range_nat. lia.
  - apply IH.
Qed.
Lemma NoDup_range lo hi : NoDup (range lo hi). Proof. apply NoDup_range_nat. Qed.

(* ---------- lists of N used as sets (Rust HashSet<u32>) ---------- *)
Definition nmem (x : N) (l : list N) : bool := existsb (N.eqb x) l.
Definition nadd (x : N) (l : list N) : list N := if nmem x l then l else x :: l.
Definition nrem (x : N) (l : list N) : list N := filter (fun y => negb (y =? x)) l.
Definition nunion (l1 l2 : list N) : list N := fold_left (fun acc x => nadd x acc) l1 l2. (* l2 ∪ l1 *)
Definition ndiff (l1 l2 : list N) : list N := filter (fun y => negb (nmem y l2)) l1.
Definition nsubset (l1 l2 : list N) : bool := forallb (fun x => nmem x l2) l1.
Definition nseteq (l1 l2 : list N) : bool := nsubset l1 l2 && nsubset l2 l1.

Lemma nmem_In x l : nmem x l = true <-> In x l.
Proof.
  unfold nmem. rewrite existsb_exists. split.
  - intros [y [Hy E]]. apply N.eqb_eq in E. subst; auto.
  - intros H. exists x. split; auto. apply N.eqb_refl.
Qed.
Lemma nmem_false x l : nmem x l = false <-> ~ In x l.
Proof. rewrite <- nmem_In. destruct (nmem x l); split; congruence. Qed.
Lemma nmem_nadd x y l : nmem x (nadd y l) = (x =? y) || nmem x l.
Proof.
  unfold nadd. destruct (nmem y l) eqn:E.
  - destruct (x =? y) eqn:E2; simpl; auto. apply N.eqb_eq in E2. subst. auto.
  - simpl. reflexivity.
Qed.
Lemma nmem_nrem x y l : nmem x (nrem y l) = negb (x =? y) && nmem x l.
Proof.
  unfold nrem. induction l as [|a l IH]; simpl.
  - rewrite andb_false_r. reflexivity.
  - destruct (a =? y) eqn:E; simpl.
    + rewrite IH. apply N.eqb_eq in E. subst a.
      destruct (x =? y) eqn:E2; simpl; auto.
    + rewrite IH. destruct (x =? a) eqn:E2; simpl.
      * apply N.eqb_eq in E2. subst a. rewrite E. simpl. reflexivity.
      * reflexivity.
Qed.
Lemma nmem_nunion x l1 l2 : nmem x (nunion l1 l2) = nmem x l1 || nmem x l2.
Proof.
  unfold nunion. revert l2. induction l1 as [|a l1 IH]; intros l2; simpl.
  - reflexivity.
  - rewrite IH, nmem_nadd. destruct (x =? a); destruct (nmem x l1); destruct (nmem x l2); reflexivity.
Qed.
Lemma nmem_ndiff x l1 l2 : nmem x (ndiff l1 l2) = nmem x l1 && negb (nmem x l2).
Proof.
  unfold ndiff. induction l1 as [|a l1 IH]; simpl; [reflexivity|].
  destruct (nmem a l2) eqn:E; simpl.
  - rewrite IH. destruct (x =? a) eqn:E2; simpl; auto.
    apply N.eqb_eq in E2. subst a. rewrite E. simpl. rewrite andb_false_r. reflexivity.
  - rewrite IH. destruct (x =? a) eqn:E2; simpl; auto.
    apply N.eqb_eq in E2. subst a. rewrite E. reflexivity.
Qed.
Lemma nmem_range x lo hi : nmem x (range lo hi) = (lo <=? x) && (x <? hi).
Proof.
  destruct (nmem x (range lo hi)) eqn:E.
  - apply nmem_In, in_range in E. symmetry. apply andb_true_iff. split; [apply N.leb_le|apply N.ltb_lt]; lia.
  - apply nmem_false in E. rewrite in_range in E. symmetry. apply andb_false_iff.
    destruct (lo <=? x) eqn:E1; [right|left; reflexivity]. apply N.leb_le in E1. apply N.ltb_ge. lia.
Qed.
Lemma nsubset_spec l1 l2 : nsubset l1 l2 = true <-> (forall x, nmem x l1 = true -> nmem x l2 = true).
Proof.
  unfold nsubset. rewrite forallb_forall. split.
  - intros H x Hx. apply H. apply nmem_In. exact Hx.
  - intros H x Hx. apply H. apply nmem_In. exact Hx.
Qed.
Lemma nseteq_spec l1 l2 : nseteq l1 l2 = true <-> (forall x, nmem x l1 = nmem x l2).
Proof.
  unfold nseteq. rewrite andb_true_iff, !nsubset_spec. split.
  - intros [H1 H2] x. destruct (nmem x l1) eqn:E1; destruct (nmem x l2) eqn:E2; auto.
    + apply H1 in E1. congruence.
    + apply H2 in E2. congruence.
  - intros H. split; intros x Hx; [rewrite <- H|rewrite H]; exact Hx.
Qed.

(* list equality on N *)
Fixpoint leqb (l1 l2 : list N) : bool :=
  match l1, l2 with
  | [], [] => true
  | a :: r1, b :: r2 => (a =? b) && leqb r1 r2
  | _, _ => false
  end.
Lemma leqb_eq l1 l2 : leqb l1 l2 = true <-> l1 = l2.
Proof.
  revert l2; induction l1 as [|a l1 IH]; intros [|b l2]; simpl; split; try congruence; auto.
  - intros H. apply andb_true_iff in H. destruct H as [H1 H2]. apply N.eqb_eq in H1. apply IH in H2. congruence.
  - intros H. inversion H; subst. rewrite N.eqb_refl. simpl. apply IH. reflexivity.
Qed.
Lemma leqb_refl l : leqb l l = true. Proof. apply leqb_eq. reflexivity. Qed.
