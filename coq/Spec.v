(* Spec.v — the abstract specification: a dense terminal (total grid function, no sparse storage),
   every operation in closed form as the documentation states it (DESIGN.md Appendix A). It is
   written independently of Screen.v's loops; Refine*.v prove that the sparse model refines it, the
   per-property theorems are read off it, and the extracted [spec_ok] is evaluated on snapshots of the
   real implementation on every run (the statement oracle). *)
From Coq Require Import NArith List Bool.
From MT Require Import Lib Types Charsets Tables.
Import ListNotations.
Open Scope N_scope.

Section Spec.
Variable wid : cp -> N.
Variable is_comb : cp -> bool.
Variable nfc : str -> str.

Record astate := mkA {
  a_cols : N; a_lines : N; a_grid : N -> N -> cell; a_cur : cursor; a_margins : option (N * N);
  a_mode : list N; a_tabs : list N; a_dirty : list N; a_cs : gsel; a_g0 : csid; a_g1 : csid;
  a_title : str; a_icon : str; a_sp : list savepoint; a_savedcols : option N }.

Definition ax a := cu_x (a_cur a).
Definition ay a := cu_y (a_cur a).
Definition aattr a := cu_attr (a_cur a).
Definition amode a m := nmem m (a_mode a).
Definition blank_cell (rev : bool) : cell := mkCell s_space s_default s_default false false false false rev false.
Definition adc a : cell := blank_cell (amode a DECSCNM).
Definition hat (n : option N) : N := match n with None => 1 | Some 0 => 1 | Some k => k end.
Definition atb a : N * N := match a_margins a with Some m => m | None => (0, a_lines a - 1) end.

Definition a_with_cur a c := mkA (a_cols a) (a_lines a) (a_grid a) c (a_margins a) (a_mode a) (a_tabs a) (a_dirty a) (a_cs a) (a_g0 a) (a_g1 a) (a_title a) (a_icon a) (a_sp a) (a_savedcols a).
Definition a_xy a x y := a_with_cur a (mkCursor x y (aattr a) (cu_hidden (a_cur a))).
Definition a_x a x := a_xy a x (ay a).
Definition a_y a y := a_xy a (ax a) y.
Definition a_with_grid a g := mkA (a_cols a) (a_lines a) g (a_cur a) (a_margins a) (a_mode a) (a_tabs a) (a_dirty a) (a_cs a) (a_g0 a) (a_g1 a) (a_title a) (a_icon a) (a_sp a) (a_savedcols a).
Definition a_with_dirty a d := mkA (a_cols a) (a_lines a) (a_grid a) (a_cur a) (a_margins a) (a_mode a) (a_tabs a) d (a_cs a) (a_g0 a) (a_g1 a) (a_title a) (a_icon a) (a_sp a) (a_savedcols a).
Definition a_with_margins a m := mkA (a_cols a) (a_lines a) (a_grid a) (a_cur a) m (a_mode a) (a_tabs a) (a_dirty a) (a_cs a) (a_g0 a) (a_g1 a) (a_title a) (a_icon a) (a_sp a) (a_savedcols a).
Definition a_with_mode a m := mkA (a_cols a) (a_lines a) (a_grid a) (a_cur a) (a_margins a) m (a_tabs a) (a_dirty a) (a_cs a) (a_g0 a) (a_g1 a) (a_title a) (a_icon a) (a_sp a) (a_savedcols a).
Definition a_with_tabs a t := mkA (a_cols a) (a_lines a) (a_grid a) (a_cur a) (a_margins a) (a_mode a) t (a_dirty a) (a_cs a) (a_g0 a) (a_g1 a) (a_title a) (a_icon a) (a_sp a) (a_savedcols a).
Definition a_with_cs a cs g0 g1 := mkA (a_cols a) (a_lines a) (a_grid a) (a_cur a) (a_margins a) (a_mode a) (a_tabs a) (a_dirty a) cs g0 g1 (a_title a) (a_icon a) (a_sp a) (a_savedcols a).
Definition a_with_sp a sp := mkA (a_cols a) (a_lines a) (a_grid a) (a_cur a) (a_margins a) (a_mode a) (a_tabs a) (a_dirty a) (a_cs a) (a_g0 a) (a_g1 a) (a_title a) (a_icon a) sp (a_savedcols a).
Definition a_with_savedcols a v := mkA (a_cols a) (a_lines a) (a_grid a) (a_cur a) (a_margins a) (a_mode a) (a_tabs a) (a_dirty a) (a_cs a) (a_g0 a) (a_g1 a) (a_title a) (a_icon a) (a_sp a) v.
Definition a_dirty_add a y := a_with_dirty a (nadd y (a_dirty a)).
Definition a_dirty_range a lo hi := a_with_dirty a (nunion (range lo hi) (a_dirty a)).
Definition a_all_dirty a := a_dirty_range a 0 (a_lines a).

(* ---- cursor ---- *)
Definition a_vclamp a (use_m : bool) :=
  let '(t, b) := match a_margins a with
                 | Some m => if use_m || amode a DECOM then m else (0, a_lines a - 1)
                 | None => (0, a_lines a - 1) end in
  a_y a (N.min (N.max (ay a) t) b).
Definition a_cup a (l c : option N) :=
  let col := hat c - 1 in
  let line := hat l - 1 in
  let go line := a_vclamp (a_xy a (N.min col (a_cols a - 1)) line) false in
  match a_margins a with
  | Some (t, b) => if amode a DECOM then (if b <? line + t then a else go (line + t)) else go line
  | None => go line
  end.
Definition a_cuu a n := a_y a (N.max (ay a - hat n) (match a_margins a with Some (t, _) => t | None => 0 end)).
Definition a_cud a n := a_y a (N.min (ay a + hat n) (match a_margins a with Some (_, b) => b | None => a_lines a - 1 end)).
Definition a_cuf a n := a_x a (N.min (ax a + hat n) (a_cols a - 1)).
Definition a_cub a n := a_x a (N.min (ax a) (a_cols a - 1) - hat n).
Definition a_cr a := a_x a 0.
Definition a_cha a (n : option N) := a_x a (N.min (match n with Some v => v | None => 1 end - 1) (a_cols a - 1)).
Definition a_vpa a (n : option N) :=
  let y := match n with Some v => v | None => 1 end - 1 in
  let y := if amode a DECOM then match a_margins a with Some (t, _) => y + t | None => y end else y in
  a_vclamp (a_y a y) false.

(* ---- scrolling ---- *)
Definition a_index a :=
  let '(t, b) := atb a in
  if ay a =? b then
    let g := a_grid a in let d := adc a in
    a_with_grid (a_all_dirty a)
      (fun r c => if (t <=? r) && (r <? b) then g (r + 1) c else if r =? b then d else g r c)
  else a_cud a None.
Definition a_rindex a :=
  let '(t, b) := atb a in
  if ay a =? t then
    let g := a_grid a in let d := adc a in
    a_with_grid (a_all_dirty a)
      (fun r c => if (t <? r) && (r <=? b) then g (r - 1) c else if r =? t then d else g r c)
  else a_cuu a None.
Definition a_linefeed a := let a := a_index a in if amode a LNM then a_cr a else a.
Definition a_il a n :=
  let '(t, b) := atb a in let y := ay a in let k := hat n in
  if (t <=? y) && (y <=? b) then
    let g := a_grid a in let d := adc a in
    a_cr (a_with_grid (a_dirty_range a y (a_lines a))
      (fun r c => if (y <=? r) && (r <=? b) then (if r <? y + k then d else g (r - k) c) else g r c))
  else a.
Definition a_dl a n :=
  let '(t, b) := atb a in let y := ay a in let k := hat n in
  if (t <=? y) && (y <=? b) then
    let g := a_grid a in let d := adc a in
    a_cr (a_with_grid (a_dirty_range a y (a_lines a))
      (fun r c => if (y <=? r) && (r <=? b) then (if r + k <=? b then g (r + k) c else d) else g r c))
  else a.
Definition a_stbm a (top bottom : option N) :=
  if (match top with Some t => t | None => 0 end =? 0) && (match bottom with None => true | _ => false end)
  then a_with_margins a None
  else
    let '(mt, mb) := atb a in
    let cl v := N.min (v - 1) (a_lines a - 1) in
    let t := match top with Some v => cl v | None => mt end in
    let b := match bottom with Some v => cl v | None => mb end in
    if t <? b then a_cup (a_with_margins a (Some (t, b))) None None else a.

(* ---- in-row editing and erasing ---- *)
Definition a_ich a n :=
  let x := ax a in let y := ay a in let k := hat n in let g := a_grid a in let d := adc a in
  a_with_grid (a_dirty_add a y)
    (fun r c => if (r =? y) && (x <=? c) then (if c <? x + k then d else g y (c - k)) else g r c).
Definition a_dch a n :=
  let x := ax a in let y := ay a in let k := hat n in let g := a_grid a in let d := adc a in let cols := a_cols a in
  a_with_grid (a_dirty_add a y)
    (fun r c => if (r =? y) && (x <=? c) then (if c + k <? cols then g y (c + k) else d) else g r c).
Definition a_fill_row a (y lo hi : N) :=          (* cells [lo,hi) of row y := current rendition *)
  let g := a_grid a in let at_ := aattr a in
  a_with_grid a (fun r c => if (r =? y) && (lo <=? c) && (c <? hi) then at_ else g r c).
Definition a_ech a n := a_fill_row (a_dirty_add a (ay a)) (ay a) (ax a) (ax a + hat n).
Definition a_el a (how : option N) :=
  let a := a_dirty_add a (ay a) in
  let h := match how with Some v => v | None => 0 end in
  if h =? 0 then a_fill_row a (ay a) (ax a) (a_cols a)
  else if h =? 1 then a_fill_row a (ay a) 0 (ax a + 1)
  else if h =? 2 then a_fill_row a (ay a) 0 (a_cols a)
  else a.
Definition a_ed a (how : option N) :=
  let h := match how with Some v => v | None => 0 end in
  let y := ay a in
  let '(lo, hi) := if h =? 0 then (y + 1, a_lines a) else if h =? 1 then (0, y)
                   else if (h =? 2) || (h =? 3) then (0, a_lines a) else (0, 0) in
  let g := a_grid a in let at_ := aattr a in
  let a := a_with_grid (a_dirty_range a lo hi) (fun r c => if (lo <=? r) && (r <? hi) then at_ else g r c) in
  if (h =? 0) || (h =? 1) then a_el a (Some h) else a.

(* ---- tab stops ---- *)
Definition least_gt (x : N) (l : list N) : option N :=
  fold_left (fun acc t => if x <? t then match acc with Some m => Some (N.min m t) | None => Some t end else acc) l None.
Definition a_tab a :=
  a_x a (N.min (match least_gt (ax a) (a_tabs a) with Some t => t | None => a_cols a - 1 end) (a_cols a - 1)).
Definition a_hts a := a_with_tabs a (nadd (ax a) (a_tabs a)).
Definition a_tbc a (how : option N) :=
  let h := match how with Some v => v | None => 0 end in
  if h =? 0 then a_with_tabs a (nrem (ax a) (a_tabs a)) else if h =? 3 then a_with_tabs a [] else a.

(* ---- save / restore ---- *)
Definition a_save a :=
  a_with_sp a (mkSave (a_cur a) (a_g0 a) (a_g1 a) (a_cs a) (amode a DECOM) (amode a DECAWM) :: a_sp a).
Definition a_restore a :=
  match a_sp a with
  | sp :: rest =>
      let a := a_with_sp a rest in
      let a := a_with_cs a (sp_charset sp) (sp_g0 sp) (sp_g1 sp) in
      let a := a_with_mode a (nunion ((if sp_origin sp then [DECOM] else []) ++ (if sp_wrap sp then [DECAWM] else [])) (a_mode a)) in
      let c := sp_cursor sp in
      let a := a_with_cur a (mkCursor (N.min (cu_x c) (a_cols a - 1)) (cu_y c) (cu_attr c) (cu_hidden c)) in
      a_vclamp a true
  | [] => a_cup (a_with_mode a (nrem DECOM (a_mode a))) None None
  end.

(* ---- SGR: left-to-right fold over the documented table ---- *)
Definition set_fg (a : cell) v := mkCell (c_data a) v (c_bg a) (c_bold a) (c_italics a) (c_underscore a) (c_strike a) (c_reverse a) (c_blink a).
Definition set_bg (a : cell) v := mkCell (c_data a) (c_fg a) v (c_bold a) (c_italics a) (c_underscore a) (c_strike a) (c_reverse a) (c_blink a).
Definition set_text (a : cell) (f : tfield) (b : bool) : cell :=
  match f with
  | FBold => mkCell (c_data a) (c_fg a) (c_bg a) b (c_italics a) (c_underscore a) (c_strike a) (c_reverse a) (c_blink a)
  | FItalics => mkCell (c_data a) (c_fg a) (c_bg a) (c_bold a) b (c_underscore a) (c_strike a) (c_reverse a) (c_blink a)
  | FUnderscore => mkCell (c_data a) (c_fg a) (c_bg a) (c_bold a) (c_italics a) b (c_strike a) (c_reverse a) (c_blink a)
  | FStrike => mkCell (c_data a) (c_fg a) (c_bg a) (c_bold a) (c_italics a) (c_underscore a) b (c_reverse a) (c_blink a)
  | FReverse => mkCell (c_data a) (c_fg a) (c_bg a) (c_bold a) (c_italics a) (c_underscore a) (c_strike a) b (c_blink a)
  | FBlink => mkCell (c_data a) (c_fg a) (c_bg a) (c_bold a) (c_italics a) (c_underscore a) (c_strike a) (c_reverse a) b
  end.
Definition nth_name (i : N) : str := nth (N.to_nat i) (map s2n colour_names) [].
Definition sgr_simple (dc a : cell) (p : N) : cell :=
  if p =? 0 then dc
  else if p =? 1 then set_text a FBold true else if p =? 3 then set_text a FItalics true
  else if p =? 4 then set_text a FUnderscore true else if p =? 5 then set_text a FBlink true
  else if p =? 7 then set_text a FReverse true else if p =? 9 then set_text a FStrike true
  else if p =? 22 then set_text a FBold false else if p =? 23 then set_text a FItalics false
  else if p =? 24 then set_text a FUnderscore false else if p =? 25 then set_text a FBlink false
  else if p =? 27 then set_text a FReverse false else if p =? 29 then set_text a FStrike false
  else if (30 <=? p) && (p <=? 37) then set_fg a (nth_name (p - 30))
  else if p =? 39 then set_fg a s_default
  else if (40 <=? p) && (p <=? 47) then set_bg a (nth_name (p - 40))
  else if p =? 49 then set_bg a s_default
  else if (90 <=? p) && (p <=? 97) then set_fg a (bright (nth_name (p - 90)))
  else if (100 <=? p) && (p <=? 107) then set_bg a (bright (nth_name (p - 100)))
  else a.
Fixpoint sgr_spec (dc a : cell) (ps : list N) : cell :=
  match ps with
  | [] => a
  | p :: r =>
      if (p =? 38) || (p =? 48) then
        let setc := if p =? 38 then set_fg a else set_bg a in
        match r with
        | [] => a
        | n :: r1 =>
            if n =? 5 then
              match r1 with
              | [] => a
              | m :: r2 => sgr_spec dc (if m <? 256 then setc (palette m) else a) r2
              end
            else if n =? 2 then
              match r1 with
              | rr :: gg :: bb :: r2 =>
                  sgr_spec dc (if (rr <? 256) && (gg <? 256) && (bb <? 256) then setc (rgb rr gg bb) else a) r2
              | _ => a
              end
            else sgr_spec dc a r1
        end
      else sgr_spec dc (sgr_simple dc a p) r
  end.
Definition a_with_attr a at_ := a_with_cur a (mkCursor (ax a) (ay a) at_ (cu_hidden (a_cur a))).
Definition a_sgr a (ps : list N) :=
  a_with_attr a (match ps with [] => adc a | _ => sgr_spec (adc a) (aattr a) ps end).

(* ---- resize, modes ---- *)
Definition a_resize a (l c : option N) :=
  let l := match l with Some v => v | None => a_lines a end in
  let c := match c with Some v => v | None => a_cols a end in
  if (l =? a_lines a) && (c =? a_cols a) then a
  else
    let d := a_lines a - l in
    let g := a_grid a in let dc := adc a in let ol := a_lines a in let oc := a_cols a in
    let x := if l <? ol then N.min (ax a) (oc - 1) else ax a in
    mkA c l (fun r cc => if (r + d <? ol) && (cc <? oc) then g (r + d) cc else dc)
        (mkCursor (N.min x (c - 1)) (N.min (ay a) (l - 1)) (aattr a) (cu_hidden (a_cur a)))
        None (a_mode a) (a_tabs a) (range 0 l) (a_cs a) (a_g0 a) (a_g1 a) (a_title a) (a_icon a) (a_sp a) (a_savedcols a).
Definition a_set_mode a (ms : list N) (private on : bool) :=
  let ml := if private then map (fun m => m * 32) ms else ms in
  let has k := nmem k ml in
  let a := if has DECSCNM then a_all_dirty a else a in
  let a := a_with_mode a (if on then nunion ml (a_mode a) else ndiff (a_mode a) ml) in
  let a := if has DECCOLM then
             let a := if on then a_resize (a_with_savedcols a (Some (a_cols a))) None (Some 132)
                      else if a_cols a =? 132 then
                             match a_savedcols a with
                             | Some w => a_with_savedcols (a_resize a None (Some w)) None
                             | None => a end
                           else a in
             a_cup (a_ed a (Some 2)) None None
           else a in
  let a := if has DECOM then a_cup a None None else a in
  let a := if has DECSCNM then
             let g := a_grid a in
             a_with_attr (a_with_grid a (fun r c => with_reverse (g r c) on)) (with_reverse (aattr a) on)
           else a in
  if has DECTCEM then a_with_cur a (mkCursor (ax a) (ay a) (aattr a) (negb on)) else a.

(* ---- drawing ---- *)
Definition a_put a (y x : N) (cl : cell) :=
  let g := a_grid a in a_with_grid a (fun r c => if (r =? y) && (c =? x) then cl else g r c).
Definition a_draw_char a (ch : cp) :=
  let w := wid ch in
  let a := if ax a =? a_cols a then
             if amode a DECAWM then a_linefeed (a_cr (a_dirty_add a (ay a)))
             else if 0 <? w then a_x a (ax a - w) else a
           else a in
  let a := if amode a IRM && (0 <? w) then a_ich a (Some w) else a in
  let a := if w =? 1 then a_put a (ay a) (ax a) (with_data (aattr a) [ch])
           else if w =? 2 then
             let a := a_put a (ay a) (ax a) (with_data (aattr a) [ch]) in
             if ax a + 1 <? a_cols a then a_put a (ay a) (ax a + 1) (with_data (aattr a) []) else a
           else if (w =? 0) && is_comb ch then
             if 0 <? ax a then
               let old := a_grid a (ay a) (ax a - 1) in a_put a (ay a) (ax a - 1) (with_data old (nfc (c_data old) ++ [ch]))
             else if 0 <? ay a then
               let old := a_grid a (ay a - 1) (a_cols a - 1) in
               a_dirty_add (a_put a (ay a - 1) (a_cols a - 1) (with_data old (nfc (c_data old) ++ [ch]))) (ay a - 1)
             else a
           else a in
  if 0 <? w then a_x a (N.min (ax a + w) (a_cols a)) else a.
Definition a_translate a (c : cp) : cp :=
  if 255 <? c then c else translate (match a_cs a with G1 => a_g1 a | G0 => a_g0 a end) c.
Definition a_draw a (text : str) :=
  let a' := fold_left a_draw_char (map (a_translate a) text) a in
  a_dirty_add a' (ay a').

Definition a_decaln a :=
  let g := a_grid a in a_with_grid (a_all_dirty a) (fun r c => with_data (g r c) [69]).
Definition a_tabs_default (cols : N) : list N := filter (fun x => x mod 8 =? 0) (range 8 cols).
Definition a_reset a :=
  mkA (a_cols a) (a_lines a) (fun _ _ => blank_cell false) (mkCursor 0 0 (blank_cell false) false) None
      default_modes (a_tabs_default (a_cols a)) (range 0 (a_lines a)) G0 Lat1 Vt100 [] [] (a_sp a) None.
Definition a_init (cols lns : N) : astate :=
  mkA cols lns (fun _ _ => blank_cell false) (mkCursor 0 0 (blank_cell false) false) None
      default_modes (a_tabs_default cols) (range 0 lns) G0 Lat1 Vt100 [] [] [] None.
Definition a_defcs a (code mode : str) :=
  match charset_of_code code with
  | Some m => if leqb mode [40] then a_with_cs a (a_cs a) m (a_g1 a)
              else if leqb mode [41] then a_with_cs a (a_cs a) (a_g0 a) m else a
  | None => a
  end.
Definition a_with_title a t := mkA (a_cols a) (a_lines a) (a_grid a) (a_cur a) (a_margins a) (a_mode a) (a_tabs a) (a_dirty a) (a_cs a) (a_g0 a) (a_g1 a) t (a_icon a) (a_sp a) (a_savedcols a).
Definition a_with_icon a t := mkA (a_cols a) (a_lines a) (a_grid a) (a_cur a) (a_margins a) (a_mode a) (a_tabs a) (a_dirty a) (a_cs a) (a_g0 a) (a_g1 a) (a_title a) t (a_sp a) (a_savedcols a).

Definition astep (a : astate) (o : op) : astate :=
  match o with
  | OAlign => a_decaln a
  | ODefCharset code mode => a_defcs a code mode
  | OReset => a_reset a
  | OIndex => a_index a
  | OLinefeed => a_linefeed a
  | ORevIndex => a_rindex a
  | OSetTab => a_hts a
  | OSave => a_save a
  | ORestore => a_restore a
  | OShiftOut => a_with_cs a G1 (a_g0 a) (a_g1 a)
  | OShiftIn => a_with_cs a G0 (a_g0 a) (a_g1 a)
  | OBell => a
  | OBackspace => a_cub a None
  | OTab => a_tab a
  | OCR => a_cr a
  | ODraw t => a_draw a t
  | OIch n => a_ich a n
  | OCuu n => a_cuu a n
  | OCud n => a_cud a n
  | OCuf n => a_cuf a n
  | OCub n => a_cub a n
  | OCnl n => a_cr (a_cud a n)
  | OCpl n => a_cr (a_cuu a n)
  | OCha n => a_cha a n
  | OCup l c => a_cup a l c
  | OEd how => a_ed a how
  | OEl how => a_el a how
  | OIl n => a_il a n
  | ODl n => a_dl a n
  | ODch n => a_dch a n
  | OEch n => a_ech a n
  | ODa _ _ => a
  | OVpa n => a_vpa a n
  | OTbc how => a_tbc a how
  | OSm ms p => a_set_mode a ms p true
  | ORm ms p => a_set_mode a ms p false
  | OSgr ps => a_sgr a ps
  | OTitle t => a_with_title a t
  | OIcon t => a_with_icon a t
  | OMargins t b => a_stbm a t b
  | OResize l c => a_resize a l c
  | ODisplay => a
  end.

(* rendering of one row as display() documents it *)
Definition cell_wide (c : cell) : bool := match c_data c with x :: _ => wid x =? 2 | [] => false end.
Fixpoint render_cells (cs : list cell) : str :=
  match cs with
  | [] => []
  | c :: rest =>
      c_data c ++ (if cell_wide c then match rest with [] => [] | _ :: rest' => render_cells rest' end
                   else render_cells rest)
  end.
Definition a_display a : list str :=
  map (fun r => render_cells (map (a_grid a r) (range 0 (a_cols a)))) (range 0 (a_lines a)).

(* observational equality of abstract states *)
Definition a_grid_eqb (a1 a2 : astate) : bool :=
  forallb (fun r => forallb (fun c => cell_eqb (a_grid a1 r c) (a_grid a2 r c)) (range 0 (a_cols a1))) (range 0 (a_lines a1)).
End Spec.
