(* Parser.v — the shipping recogniser of src/parser.rs (the #[cfg(not(test))] coroutine) as an
   explicit-state machine, one input character per step, together with Parser::feed's plain-text
   fast path and the three dispatch tables of src/parser_listener.rs. Events are screen operations. *)
From Coq Require Import NArith List Bool.
From MT Require Import Lib Types Charsets Tables.
Import ListNotations.
Open Scope N_scope.

Inductive pst :=
| PGround                                   (* parked at `co.yield_(Some(true))` *)
| PEsc | PEscHash | PEscPct | PEscParen (m : cp)
| PCsi (params : list N) (cur : list cp) (priv : bool)
| PCsiDollar
| POscCode | POscSkip (n : nat) | POscParam (code : cp) (acc : str) | POscParamEsc (code : cp) (acc : str).

Definition is_digit (c : cp) : bool := (48 <=? c) && (c <=? 57).
Fixpoint dec_val (acc : N) (ds : list cp) : N :=
  match ds with [] => acc | d :: r => dec_val (acc * 10 + (d - 48)) r end.
(* match current.parse::<u64>() { Ok(v) => v, Err(_) if !current.is_empty() => 9999, _ => 0 }; min(.., 9999) *)
Definition param_of (ds : list cp) : N :=
  match ds with
  | [] => 0
  | _ => let v := dec_val 0 ds in if v <? 18446744073709551616 then N.min v 9999 else 9999
  end.

Definition basic_dispatch (c : cp) : list op :=
  if c =? BEL then [OBell] else if c =? BS then [OBackspace] else if c =? HT then [OTab]
  else if (c =? LF) || (c =? VT) || (c =? FF) then [OLinefeed]
  else if c =? CR then [OCR] else if c =? SO then [OShiftOut] else if c =? SI then [OShiftIn] else [].
Definition escape_dispatch (c : cp) : list op :=
  if c =? f_RIS then [OReset] else if c =? f_IND then [OIndex] else if c =? f_NEL then [OLinefeed]
  else if c =? f_RI then [ORevIndex] else if c =? f_HTS then [OSetTab] else if c =? f_DECSC then [OSave]
  else if c =? f_DECRC then [ORestore] else [].
Definition csi_dispatch (c : cp) (ps : list N) (priv : bool) : list op :=
  let p0 := nth_error ps 0 in let p1 := nth_error ps 1 in
  if c =? f_ICH then [OIch p0] else if c =? f_CUD then [OCud p0] else if c =? f_CUU then [OCuu p0]
  else if c =? f_CUF then [OCuf p0] else if c =? f_CUB then [OCub p0] else if c =? f_CNL then [OCnl p0]
  else if c =? f_CPL then [OCpl p0] else if c =? f_CHA then [OCha p0]
  else if c =? f_CUP then [OCup p0 p1]
  else if c =? f_ED then [OEd p0] else if c =? f_EL then [OEl p0] else if c =? f_IL then [OIl p0]
  else if c =? f_DL then [ODl p0] else if c =? f_DCH then [ODch p0] else if c =? f_ECH then [OEch p0]
  else if c =? f_HPR then [OCuf p0] else if c =? f_DA then [ODa p0 None] else if c =? f_VPA then [OVpa p0]
  else if c =? f_VPR then [OCud p0] else if c =? f_HVP then [OCup p0 p1] else if c =? f_TBC then [OTbc p0]
  else if c =? f_SM then [OSm ps priv] else if c =? f_RM then [ORm ps priv] else if c =? f_SGR then [OSgr ps]
  else if c =? f_DECSTBM then [OMargins p0 p1] else [].

Definition osc_finish (code : cp) (acc : str) : list op :=
  let param := tl acc in
  (if (code =? 48) || (code =? 49) then [OIcon param] else []) ++
  (if (code =? 48) || (code =? 50) then [OTitle param] else []).

(* what happens to `char` after the ESC-prefix handling: the `if BASIC … else if CSI … else if OSC` chain;
   the final else is Parser::feed's plain-text path (the coroutine never sees such a character) *)
Definition start_step (utf8 : bool) (c : cp) : pst * list op :=
  if nmem c basic_ctrls then
    if ((c =? SI) || (c =? SO)) && utf8 then (PGround, []) else (PGround, basic_dispatch c)
  else if c =? CSI_C1 then (PCsi [] [] false, [])
  else if c =? OSC_C1 then (POscCode, [])
  else (PGround, [ODraw [c]]).

Definition pstep (utf8 : bool) (st : pst) (c : cp) : pst * list op :=
  match st with
  | PGround => if c =? ESC then (PEsc, []) else start_step utf8 c
  | PEsc =>
      if c =? 91 then (PCsi [] [] false, [])
      else if c =? 93 then (POscCode, [])
      else if c =? 35 then (PEscHash, [])
      else if c =? 37 then (PEscPct, [])
      else if (c =? 40) || (c =? 41) then (PEscParen c, [])
      else (PGround, escape_dispatch c)
  | PEscHash => (PGround, if c =? f_DECALN then [OAlign] else [])
  | PEscPct => (PGround, [])
  | PEscParen m => (PGround, if utf8 then [] else [ODefCharset [c] [m]])
  | PCsi params cur priv =>
      if c =? 63 then (PCsi params cur true, [])
      else if nmem c allowed_in_csi then (PCsi params cur priv, basic_dispatch c)
      else if (c =? SP) || (c =? GREATER) then (PCsi params cur priv, [])
      else if (c =? CAN) || (c =? SUB) then (PGround, [ODraw [c]])
      else if is_digit c then (PCsi params (cur ++ [c]) priv, [])
      else if c =? 36 then (PCsiDollar, [])
      else
        let params' := params ++ [param_of cur] in
        if c =? 59 then (PCsi params' [] priv, [])
        else (PGround, csi_dispatch c params' priv)
  | PCsiDollar => (PGround, [])
  | POscCode =>
      if c =? 82 then (PGround, [])
      else if c =? 80 then (POscSkip 7, [])
      else (POscParam c [], [])
  | POscSkip n => match n with S (S m) => (POscSkip (S m), []) | _ => (PGround, []) end
  | POscParam code acc =>
      if c =? ESC then (POscParamEsc code acc, [])
      else if (c =? BEL) || (c =? ST_C1) then (PGround, osc_finish code acc)
      else (POscParam code (acc ++ [c]), [])
  | POscParamEsc code acc =>
      if c =? 92 then (PGround, osc_finish code acc)
      else (POscParam code (acc ++ [ESC; c]), [])
  end.

(* run over a chunk: state and concatenated events *)
Fixpoint prun (utf8 : bool) (st : pst) (cs : list cp) : pst * list op :=
  match cs with
  | [] => (st, [])
  | c :: r => let '(st1, e1) := pstep utf8 st c in let '(st2, e2) := prun utf8 st1 r in (st2, e1 ++ e2)
  end.
