(* Safe.v — the checked-arithmetic reading of src/screen.rs.

   Screen.v computes over unbounded N with truncated subtraction, so it cannot panic. The Rust text can: `a - b` and
   `a + b` on u32 / i32 panic on overflow in an overflow-checked build, `x as i32 - 1` panics for x = 2^31, and
   `self.columns - 1` panics for columns = 0. This file lists, function by function and in the order of the Rust text,
   the condition under which none of the *checked* operations on the executed path fails; saturating operations
   (`saturating_sub`, `min`, `max`), guarded subtractions (`if x >= count { x -= count }`, `if x > 0 { x - 1 }`), casts and
   shifts (`m << 5`) never panic and contribute nothing. [step_ok s o = true] reads "Screen method o, called in state s,
   performs no failing checked arithmetic"; Proofs/PSafe.v proves it for every reachable state, and the harness compares
   it with what the real crate does on out-of-contract arguments (where panics do occur). Where exactness would need
   the i32 wrap-around semantics of out-of-range casts the condition is conservative (false although Rust survives). *)
From Coq Require Import NArith List Bool.
From MT Require Import Lib Types Charsets Tables Screen Parser Utf8 World.
Import ListNotations.
Open Scope N_scope.

Definition U32 : N := 4294967296.          (* 2^32 *)
Definition I32 : N := 2147483648.          (* 2^31 *)
Definition fits (a : N) : bool := a <? U32.

Section Safe.
Variable wid : cp -> N.
Variable is_comb : cp -> bool.
Variable nfc : str -> str.
Notation step := (step wid is_comb nfc).
Notation draw_char := (draw_char wid is_comb nfc).

(* ensure_hbounds: `self.columns - 1` *)
Definition hb_ok (s : screen) : bool := 1 <=? columns s.
(* ensure_vbounds: `self.lines - 1` only in the else branch *)
Definition vb_ok (s : screen) (um : bool) : bool :=
  match margins s with
  | Some _ => if um || has_mode s DECOM then true else 1 <=? lines s
  | None => 1 <=? lines s
  end.
Definition one_based (v : option N) : N := match v with Some a => if a =? 0 then 1 else a | None => 1 end.
(* cursor_position: `.. as i32 - 1` twice; `line += margins.top as i32`; then the two clamps unless it returned early *)
Definition cursor_position_ok (s : screen) (line column : option N) : bool :=
  let cv := one_based column in
  let lv := one_based line in
  negb (cv =? I32) && negb (lv =? I32) &&
  match margins s with
  | Some (top, bottom) =>
      if has_mode s DECOM then
        (top <? I32) && (bottom <? I32) &&
        (if lv <? I32 then lv - 1 + top <? I32 else true) &&
        (if (I32 <? lv) || (bottom <? lv - 1 + top) then true else hb_ok s && vb_ok s false)
      else hb_ok s && vb_ok s false
  | None => hb_ok s && vb_ok s false
  end.
(* set_margins: eager `self.lines - 1`; `top as i32 - 1` (fails for 2^31, wraps negative above it), `self.lines as i32 - 1` *)
Definition set_margins_ok (s : screen) (top bottom : option N) : bool :=
  if (match top with Some t => t | None => 0 end =? 0) && (match bottom with None => true | _ => false end) then true
  else
    (1 <=? lines s) && (lines s <? I32) &&
    (match top with Some t => negb (t =? I32) | None => true end) &&
    (match bottom with Some b => negb (b =? I32) | None => true end) &&
    (let '(mt, mb) := margins_or_full s in
     let cl v := if I32 <? v then 0 else N.min (v - 1) (lines s - 1) in     (* max(0, min(v as i32 - 1, lines as i32 - 1)) *)
     let top' := match top with None => mt | Some t => cl t end in
     let bottom' := match bottom with None => mb | Some b => cl b end in
     if top' + 1 <=? bottom' then cursor_position_ok (set_margins_f s (Some (top', bottom'))) None None else true).

(* cursor_down: `self.lines - 1` when there are no margins; `self.cursor.y + count` *)
Definition cursor_down_ok (s : screen) (n : option N) : bool :=
  (match margins s with Some _ => true | None => 1 <=? lines s end) && fits (cy s + nhat n).
(* cursor_forward: `saturating_add`; ensure_hbounds *)
Definition cursor_forward_ok (s : screen) (n : option N) : bool := hb_ok s.
(* cursor_back: `self.cursor.x -= 1` under `x == columns`; guarded `x -= count`; ensure_hbounds *)
Definition cursor_back_ok (s : screen) (n : option N) : bool :=
  (if cx s =? columns s then 1 <=? cx s else true) && hb_ok s.
(* cursor_to_line: `self.cursor.y += margins.top`; ensure_vbounds *)
Definition cursor_to_line_ok (s : screen) (n : option N) : bool :=
  (if has_mode s DECOM then
     match margins s with Some (t, _) => fits (match n with Some a => a | None => 1 end - 1 + t) | None => true end
   else true) && vb_ok s false.
(* index: eager `self.lines - 1`; `bottom + 1` when scrolling, else cursor_down(None) *)
Definition index_ok (s : screen) : bool :=
  (1 <=? lines s) &&
  (let '(top, bottom) := margins_or_full s in
   if cy s =? bottom then fits (bottom + 1) else cursor_down_ok s None).
(* reverse_index: `self.lines - 1` when there are no margins; `bottom + 1` when scrolling (cursor_up saturates) *)
Definition reverse_index_ok (s : screen) : bool :=
  (match margins s with Some _ => true | None => 1 <=? lines s end) &&
  (let '(top, bottom) := margins_or_full s in if cy s =? top then fits (bottom + 1) else true).
(* insert_characters / delete_characters: `x.saturating_add(count) < columns`; the unchecked `x + count` sits under that test *)
Definition shift_chars_ok (s : screen) (n : option N) : bool := true.
(* insert_lines / delete_lines: eager `self.lines - 1`; `y + count` for y in cursor.y ..= bottom *)
Definition shift_lines_ok (s : screen) (n : option N) : bool :=
  (1 <=? lines s) &&
  (let '(top, bottom) := margins_or_full s in
   if (top <=? cy s) && (cy s <=? bottom) then fits (bottom + nhat n) else true).
(* erase_in_line: `self.cursor.x.saturating_add(1)` for how = 1 *)
Definition erase_in_line_ok (s : screen) (how : option N) : bool := true.
(* erase_in_display: `self.cursor.y + 1` for how = 0; then erase_in_line for how = 0, 1 *)
Definition erase_in_display_ok (s : screen) (how : option N) : bool :=
  let h := match how with Some h => h | None => 0 end in
  (if h =? 0 then fits (cy s + 1) else true) && (if (h =? 0) || (h =? 1) then erase_in_line_ok s (Some h) else true).
(* erase_characters: `self.cursor.x.saturating_add(count)` *)
Definition erase_characters_ok (s : screen) (n : option N) : bool := true.
(* tab: `column.min(self.columns - 1)` *)
Definition tab_ok (s : screen) : bool := 1 <=? columns s.
(* reset: cursor_position(None, None) on the cleared state *)
Definition reset_ok (s : screen) : bool :=
  cursor_position_ok (set_mode_f (set_margins_f s None) default_modes) None None.

(* restore_cursor: set_mode(&[DECOM]) homes the cursor; then the two clamps. With an empty stack: reset_mode(&[DECOM])
   homes the cursor, then cursor_position(None, None) *)
Definition restore_cursor_ok (s : screen) : bool :=
  match savepoints s with
  | sp :: rest =>
      let s := set_savepoints s rest in
      let s := set_charset (set_g1 (set_g0 s (sp_g0 sp)) (sp_g1 sp)) (sp_charset sp) in
      let ok1 := if sp_origin sp then cursor_position_ok (sm_pre s [DECOM]) None None else true in
      let s := if sp_origin sp then sm_post (sm_pre s [DECOM]) [DECOM] else s in
      let s := if sp_wrap sp then sm_post (sm_pre s [DECAWM]) [DECAWM] else s in
      let s := set_cur s (sp_cursor sp) in
      ok1 && hb_ok s && vb_ok s true
  | [] =>
      cursor_position_ok (rm_pre s [DECOM]) None None &&
      cursor_position_ok (rm_post (rm_pre s [DECOM]) [DECOM]) None None
  end.

(* resize: `self.lines - lines` is guarded; the shrink path runs cursor_position(Some(0), Some(0)), delete_lines and
   restore_cursor; set_margins(None, None) returns early; the final clamps see the new size *)
Definition resize_ok (s : screen) (l c : option N) : bool :=
  let l := match l with Some v => v | None => lines s end in
  let c := match c with Some v => v | None => columns s end in
  if (l =? lines s) && (c =? columns s) then true
  else
    let s1 := add_dirty_range s 0 l in
    (if l <? lines s1 then
       let s2 := save_cursor (set_margins_f s1 None) in
       cursor_position_ok s2 (Some 0) (Some 0) &&
       (let s3 := cursor_position s2 (Some 0) (Some 0) in
        shift_lines_ok s3 (Some (lines s3 - l)) && restore_cursor_ok (delete_lines s3 (Some (lines s3 - l))))
     else true) && (1 <=? c) && (1 <=? l).

(* set_mode / reset_mode: DECCOLM resizes, erases (how = 2: nothing to check) and homes; DECOM homes *)
Definition set_mode_ok (s : screen) (ms : list N) (private : bool) : bool :=
  let ml := enc_modes ms private in
  let s := sm_pre s ml in
  let okc := if nmem DECCOLM ml then
               let s0 := set_saved_columns s (Some (columns s)) in
               resize_ok s0 None (Some 132) &&
               cursor_position_ok (erase_in_display (resize s0 None (Some 132)) (Some 2)) None None
             else true in
  let s := if nmem DECCOLM ml then
             cursor_position (erase_in_display (resize (set_saved_columns s (Some (columns s))) None (Some 132)) (Some 2)) None None
           else s in
  okc && (if nmem DECOM ml then cursor_position_ok s None None else true).
Definition reset_mode_ok (s : screen) (ms : list N) (private : bool) : bool :=
  let ml := enc_modes ms private in
  let s := rm_pre s ml in
  let s1 := if columns s =? 132 then
              match saved_columns s with Some w => set_saved_columns (resize s None (Some w)) None | None => s end
            else s in
  let okc := if nmem DECCOLM ml then
               (if columns s =? 132 then match saved_columns s with Some w => resize_ok s None (Some w) | None => true end else true) &&
               cursor_position_ok (erase_in_display s1 (Some 2)) None None
             else true in
  let s := if nmem DECCOLM ml then cursor_position (erase_in_display s1 (Some 2)) None None else s in
  okc && (if nmem DECOM ml then cursor_position_ok s None None else true).

(* draw, one character: the wrap runs linefeed (index); IRM runs insert_characters; `self.columns - 1` for a combining
   mark at column 0 of a row > 0 (`cursor.x - 1`, `cursor.y - 1` are guarded, the no-wrap step back and both advances
   saturate) *)
Definition draw_char_ok (s : screen) (ch : cp) : bool :=
  let w := wid ch in
  let ok1 := if cx s =? columns s then
               if has_mode s DECAWM then index_ok (carriage_return (add_dirty s (cy s))) else true
             else true in
  let s1 := if cx s =? columns s then
              if has_mode s DECAWM then linefeed (carriage_return (add_dirty s (cy s)))
              else if 0 <? w then set_x s (cx s - w) else s
            else s in
  let ok2 := if has_mode s1 IRM && (0 <? w) then shift_chars_ok s1 (Some w) else true in
  let s2 := if has_mode s1 IRM && (0 <? w) then insert_characters s1 (Some w) else s1 in
  let ok3 := if w =? 1 then true
             else if w =? 2 then true                     (* `cursor.x.saturating_add(1) < columns` guards `cursor.x + 1` *)
             else if (w =? 0) && is_comb ch then
               if 0 <? cx s2 then true else if 0 <? cy s2 then 1 <=? columns s2 else true
             else true in
  ok1 && ok2 && ok3.                                   (* the final advance is `saturating_add` *)
Fixpoint draw_chars_ok (s : screen) (cs : list cp) : bool :=
  match cs with [] => true | c :: r => draw_char_ok s c && draw_chars_ok (draw_char s c) r end.
Definition draw_ok (s : screen) (text : str) : bool := draw_chars_ok s (map (translate_char s) text).

Definition step_ok (s : screen) (o : op) : bool :=
  match o with
  | OAlign | ODefCharset _ _ | OSetTab | OSave | OShiftOut | OShiftIn | OBell | OCR | ODa _ _ | OTbc _ | OSgr _
  | OTitle _ | OIcon _ | ODisplay | OCuu _ | OCpl _ => true
  | OReset => reset_ok s
  | OIndex | OLinefeed => index_ok s
  | ORevIndex => reverse_index_ok s
  | ORestore => restore_cursor_ok s
  | OBackspace => cursor_back_ok s None
  | OTab => tab_ok s
  | ODraw t => draw_ok s t
  | OIch n | ODch n => shift_chars_ok s n
  | OCud n | OCnl n => cursor_down_ok s n
  | OCuf n => cursor_forward_ok s n
  | OCub n => cursor_back_ok s n
  | OCha _ => hb_ok s
  | OCup l c => cursor_position_ok s l c
  | OEd how => erase_in_display_ok s how
  | OEl how => erase_in_line_ok s how
  | OIl n | ODl n => shift_lines_ok s n
  | OEch n => erase_characters_ok s n
  | OVpa n => cursor_to_line_ok s n
  | OSm ms p => set_mode_ok s ms p
  | ORm ms p => reset_mode_ok s ms p
  | OMargins t b => set_margins_ok s t b
  | OResize l c => resize_ok s l c
  end.

(* Screen::new(columns, lines) = the struct literal followed by reset() *)
Definition init_ok (cols lns : N) : bool :=
  reset_ok (mkScreen [] cols lns [] None NMap.empty default_modes [] [] G0 Lat1 Vt100 [] (mkCursor 0 0 cell_default false) None).

(* histories: every operation of the history is safe in the state it is applied to *)
Fixpoint all_ok (s : screen) (os : list op) : bool :=
  match os with [] => true | o :: r => step_ok s o && all_ok (step s o) r end.

(* the same through the recogniser and the decoder: Parser::feed / ByteParser::feed *)
Notation feed_char := (feed_char wid is_comb nfc).
Fixpoint chars_ok (w : world) (cs : list cp) : bool :=
  match cs with
  | [] => true
  | c :: r => all_ok (w_scr w) (snd (pstep (w_utf8 w) (w_pst w) c)) && chars_ok (feed_char w c) r
  end.
Definition bytes_ok (w : world) (bs : list N) : bool :=
  if w_utf8 w then
    let '(d, cs) := drun (w_dec w) bs in chars_ok (mkW (w_scr w) (w_pst w) (w_utf8 w) d) cs
  else chars_ok w bs.
Definition wstep_ok (w : world) (o : wop) : bool :=
  match o with
  | WBytes bs => bytes_ok w bs
  | WChars cs => chars_ok w cs
  | WSelect _ | WClearDirty => true
  | WApi o => step_ok (w_scr w) o
  end.
Fixpoint wrun_ok (w : world) (os : list wop) : bool :=
  match os with [] => true | o :: r => wstep_ok w o && wrun_ok (wstep wid is_comb nfc w o) r end.
End Safe.
