(* C12 — SM/RM switch exactly the named modes with their documented side effects. *)
From Coq Require Import NArith List Bool.
From MT Require Import Lib Types Tables Screen Spec Stmt.
From MT.Proofs Require Import WF Aeq P05 P06 CongrMore SpecAll RefineModes RefineAll P12.
Import ListNotations.
Open Scope N_scope.

(* the code model of set_mode / reset_mode (mode-list shifting, the per-mode side-effect blocks with their loops
   over every cell) refines the closed-form spec, for every well-formed state and every list of mode numbers *)
Theorem C12_code_refines_spec : forall wid is_comb nfc (s : screen) (ms : list N) (p : bool), WF s -> SCm s ->
  (Aeq (abs (step wid is_comb nfc s (OSm ms p))) (a_set_mode (abs s) ms p true) /\ WF (step wid is_comb nfc s (OSm ms p))) /\
  (Aeq (abs (step wid is_comb nfc s (ORm ms p))) (a_set_mode (abs s) ms p false) /\ WF (step wid is_comb nfc s (ORm ms p))).
Proof.
  intros wid is_comb nfc s ms p W SC. split.
  - destruct (refine_step wid is_comb nfc s (OSm ms p) W SC I) as [A [W' _]]. split; assumption.
  - destruct (refine_step wid is_comb nfc s (ORm ms p) W SC I) as [A [W' _]]. split; assumption.
Qed.
(* exactly the listed numbers are added (SM) / removed (RM); a private number n is recorded as 32*n *)
Theorem C12_exactly_the_listed_modes : forall (a : astate) (ms : list N) (p on : bool) (x : N),
  nmem x (a_mode (a_set_mode a ms p on)) =
  if on then nmem x (enc ms p) || nmem x (a_mode a) else nmem x (a_mode a) && negb (nmem x (enc ms p)).
Proof. exact (c12_membership (fun _ => 0) (fun _ => false) (fun x => x)). Qed.
Theorem C12_private_n_is_not_ansi_n : forall n, 0 < n -> n * 32 <> n.
Proof. exact c12_private_distinct. Qed.
(* a list that names none of DECCOLM, DECOM, DECSCNM, DECTCEM: the new mode set is recorded and NOTHING else
   changes — the whole state is the old one with the new mode set (IRM, LNM, DECAWM act only through later
   drawing / linefeed, see C04 and C06) *)
Theorem C12_other_numbers_only_recorded : forall (a : astate) (ms : list N) (p on : bool),
  supported_side_effect (enc ms p) = false ->
  a_set_mode a ms p on = a_with_mode a (new_modes (a_mode a) (enc ms p) on).
Proof. exact c12_no_side_effect. Qed.
Theorem C12_LNM_governs_newline : forall wid is_comb nfc (a : astate),
  astep wid is_comb nfc a OLinefeed =
  (if amode (astep wid is_comb nfc a OIndex) LNM then a_cr (astep wid is_comb nfc a OIndex) else astep wid is_comb nfc a OIndex).
Proof. exact c06_linefeed. Qed.
Theorem C12_DECTCEM : forall (a : astate) p ms on, enc ms p = [DECTCEM] ->
  a_set_mode a ms p on = a_with_cur (a_with_mode a (new_modes (a_mode a) [DECTCEM] on)) (mkCursor (ax a) (ay a) (aattr a) (negb on)).
Proof. exact c12_dectcem. Qed.
Theorem C12_DECOM_homes : forall (a : astate) p ms on, AWF a -> enc ms p = [DECOM] ->
  a_set_mode a ms p on =
  a_xy (a_with_mode a (new_modes (a_mode a) [DECOM] on)) 0 (match a_margins a with Some (t, _) => if on then t else 0 | None => 0 end).
Proof. exact c12_decom_home. Qed.
Theorem C12_DECSCNM : forall (a : astate) p ms on, enc ms p = [DECSCNM] ->
  let a' := a_set_mode a ms p on in
  (forall r c, a_grid a' r c = with_reverse (a_grid a r c) on) /\ aattr a' = with_reverse (aattr a) on /\
  adc a' = blank_cell on /\ (forall y, y < a_lines a -> nmem y (a_dirty a') = true) /\
  ax a' = ax a /\ ay a' = ay a /\ a_cols a' = a_cols a /\ a_lines a' = a_lines a /\ a_margins a' = a_margins a /\ a_tabs a' = a_tabs a.
Proof. exact c12_decscnm. Qed.
Theorem C12_DECCOLM_set : forall (a : astate) p ms, AWF a -> enc ms p = [DECCOLM] ->
  let a' := a_set_mode a ms p true in
  a_cols a' = 132 /\ a_lines a' = a_lines a /\ a_savedcols a' = Some (a_cols a) /\
  (forall r c, r < a_lines a -> a_grid a' r c = aattr a) /\ aattr a' = aattr a /\ ax a' = 0 /\ ay a' = home_row a' /\
  (forall y, y < a_lines a -> nmem y (a_dirty a') = true).
Proof. exact c12_deccolm_set. Qed.
Theorem C12_DECCOLM_reset : forall (a : astate) p ms, AWF a -> ASC a -> enc ms p = [DECCOLM] ->
  let a' := a_set_mode a ms p false in
  a_cols a' = (if a_cols a =? 132 then match a_savedcols a with Some w => w | None => 132 end else a_cols a) /\
  a_savedcols a' = (if a_cols a =? 132 then None else a_savedcols a) /\ a_lines a' = a_lines a /\
  (forall r c, r < a_lines a -> a_grid a' r c = aattr a) /\ aattr a' = aattr a /\ ax a' = 0 /\ ay a' = home_row a' /\
  (forall y, y < a_lines a -> nmem y (a_dirty a') = true).
Proof. exact c12_deccolm_reset. Qed.
(* DECCOLM round trip: SM ?3 then RM ?3 returns to the previous width — erased, cursor home, nothing remembered *)
Theorem C12_DECCOLM_round_trip : forall (a : astate), AWF a -> ASC a ->
  let a2 := a_set_mode (a_set_mode a [3] true true) [3] true false in
  a_cols a2 = a_cols a /\ a_lines a2 = a_lines a /\ a_savedcols a2 = None /\
  (forall r c, r < a_lines a -> a_grid a2 r c = aattr a) /\ aattr a2 = aattr a /\ ax a2 = 0.
Proof. exact (c12_deccolm_round_trip (fun _ => 0) (fun _ => false) (fun x => x)). Qed.
(* non-vacuity: the encodings used by the parser *)
Example enc_private_25 : enc [25] true = [DECTCEM] /\ enc [3] true = [DECCOLM] /\ enc [5] true = [DECSCNM] /\ enc [6] true = [DECOM]
  /\ supported_side_effect (enc [4; 20; 7; 1049; 2004] true) = false /\ supported_side_effect (enc [4; 20; 25; 3; 5; 6] false) = false.
Proof. repeat split. Qed.

Print Assumptions C12_code_refines_spec.
Print Assumptions C12_exactly_the_listed_modes.
Print Assumptions C12_other_numbers_only_recorded.
Print Assumptions C12_DECSCNM.
Print Assumptions C12_DECCOLM_set.
Print Assumptions C12_DECCOLM_reset.
Print Assumptions C12_DECOM_homes.
Print Assumptions C12_DECCOLM_round_trip.
