(* C19 — OSC 0/1/2 set title and icon name to exactly the payload. *)
From Coq Require Import NArith List Bool.
From MT Require Import Lib Types Tables Screen Parser World.
From MT.Proofs Require Import Stream Recog.
From MT Require TablesOk_C19.
Import ListNotations.
Open Scope N_scope.

(* payload = any characters except BEL, U+009C and ESC, or pairs ESC x with x <> '\' (so `;`, backslashes, `]`,
   spaces, non-ASCII, C0 controls other than BEL, and the empty payload are all included) *)
Theorem C19_recognised : forall u intro code p term rest,
  In intro osc_intros -> code <> 82 -> code <> 80 -> payload p -> In term osc_terms ->
  prun u PGround (intro ++ code :: 59 :: p ++ term ++ rest) =
  (fst (prun u PGround rest),
   ((if (code =? 48) || (code =? 49) then [OIcon p] else []) ++ (if (code =? 48) || (code =? 50) then [OTitle p] else []))
   ++ snd (prun u PGround rest)).
Proof. exact osc_sequence. Qed.
(* the only events are set_icon_name / set_title with exactly the payload: on the screen they set those two
   strings and nothing else (no cell, no cursor movement) *)
Theorem C19_effect_on_screen : forall wid is_comb nfc (s : screen) (p : str),
  step wid is_comb nfc s (OTitle p) = set_title_f s p /\ step wid is_comb nfc s (OIcon p) = set_icon_f s p.
Proof. intros. split; reflexivity. Qed.
Theorem C19_codes : forall p,
  osc_finish 48 (59 :: p) = [OIcon p; OTitle p] /\ osc_finish 49 (59 :: p) = [OIcon p] /\ osc_finish 50 (59 :: p) = [OTitle p] /\
  (forall code, code <> 48 -> code <> 49 -> code <> 50 -> osc_finish code (59 :: p) = []).
Proof.
  intros p. repeat split. intros code H0 H1 H2. unfold osc_finish.
  destruct (N.eqb_spec code 48); [contradiction|]. destruct (N.eqb_spec code 49); [contradiction|]. destruct (N.eqb_spec code 50); [contradiction|].
  reflexivity.
Qed.
Theorem C19_terminators_of_the_source : GenTables.g_osc_terminators = [[BEL]; [ESC; 92]; [ST_C1]].
Proof. exact TablesOk_C19.tables_ok_C19. Qed.

Example C19_example : snd (prun true PGround ([27; 93; 48; 59] ++ [67; 58; 92; 100; 59; 233] ++ [27; 92] ++ [33])) =
  [OIcon [67; 58; 92; 100; 59; 233]; OTitle [67; 58; 92; 100; 59; 233]; ODraw [33]].
Proof. vm_compute. reflexivity. Qed.

Print Assumptions C19_recognised.
Print Assumptions C19_effect_on_screen.
Print Assumptions C19_codes.
Print Assumptions C19_terminators_of_the_source.
