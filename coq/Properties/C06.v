(* C06 — Scrolling and line insertion/deletion stay inside the scrolling region. *)
From Coq Require Import NArith List Bool.
From MT Require Import Lib Types Tables Screen Spec Stmt.
From MT.Proofs Require Import WF Aeq P05 P06 RefineReset.
Open Scope N_scope.

(* the row-map rebuild of index/reverse_index and the in-place row shifts of IL/DL (incl. never-written rows)
   refine the closed forms and keep WF, for every state, region, cursor row and count *)
Theorem C06_code_refines_spec : forall wid is_comb nfc (s : screen) (o : op),
  WF s -> is_c06 o = true ->
  Aeq (abs (step wid is_comb nfc s o)) (astep wid is_comb nfc (abs s) o) /\ WF (step wid is_comb nfc s o).
Proof. exact c06_refines. Qed.

(* index at the bottom margin scrolls the region up by exactly one line: every line inside moves by one with
   text and attributes, the vacated line is blank, the line pushed out is gone, the cursor is unchanged,
   no line outside the region changes, every row is marked dirty *)
Theorem C06_index_at_bottom_margin : forall wid is_comb nfc (a : astate) (t b : N),
  reg a = (t, b) -> t <= b -> ay a = b ->
  let a' := astep wid is_comb nfc a OIndex in
  (forall r c, t <= r < b -> a_grid a' r c = a_grid a (r + 1) c) /\
  (forall c, a_grid a' b c = adc a) /\
  (forall r c, (r < t \/ b < r) -> a_grid a' r c = a_grid a r c) /\
  a_cur a' = a_cur a /\ (forall r, r < a_lines a -> nmem r (a_dirty a') = true).
Proof. exact c06_index_scroll. Qed.
Theorem C06_index_elsewhere_only_moves_cursor : forall wid is_comb nfc (a : astate) (t b : N),
  reg a = (t, b) -> ay a <> b -> astep wid is_comb nfc a OIndex = astep wid is_comb nfc a (OCud None).
Proof. exact c06_index_move. Qed.
Theorem C06_reverse_index_at_top_margin : forall wid is_comb nfc (a : astate) (t b : N),
  reg a = (t, b) -> t <= b -> ay a = t ->
  let a' := astep wid is_comb nfc a ORevIndex in
  (forall r c, t < r <= b -> a_grid a' r c = a_grid a (r - 1) c) /\
  (forall c, a_grid a' t c = adc a) /\
  (forall r c, (r < t \/ b < r) -> a_grid a' r c = a_grid a r c) /\
  a_cur a' = a_cur a /\ (forall r, r < a_lines a -> nmem r (a_dirty a') = true).
Proof. exact c06_rindex_scroll. Qed.
Theorem C06_reverse_index_elsewhere_only_moves_cursor : forall wid is_comb nfc (a : astate) (t b : N),
  reg a = (t, b) -> ay a <> t -> astep wid is_comb nfc a ORevIndex = astep wid is_comb nfc a (OCuu None).
Proof. exact c06_rindex_move. Qed.
Theorem C06_linefeed_is_index_plus_CR_under_LNM : forall wid is_comb nfc (a : astate),
  astep wid is_comb nfc a OLinefeed =
  (if amode (astep wid is_comb nfc a OIndex) LNM then a_cr (astep wid is_comb nfc a OIndex) else astep wid is_comb nfc a OIndex).
Proof. exact c06_linefeed. Qed.

(* IL/DL act only with the cursor inside the region, shift only rows y..bottom by min(n̂, rows available) — rows
   that would come from beyond are blank —, leave every other row alone and put the cursor in column 0 *)
Theorem C06_IL : forall wid is_comb nfc (a : astate) (n : option N) (t b : N), reg a = (t, b) ->
  let a' := astep wid is_comb nfc a (OIl n) in let y := ay a in let k := hat n in
  if (t <=? y) && (y <=? b) then
    (forall r c, y <= r <= b -> a_grid a' r c = if r <? y + k then adc a else a_grid a (r - k) c) /\
    (forall r c, (r < y \/ b < r) -> a_grid a' r c = a_grid a r c) /\ ax a' = 0 /\ ay a' = y
  else a' = a.
Proof. exact c06_il. Qed.
Theorem C06_DL : forall wid is_comb nfc (a : astate) (n : option N) (t b : N), reg a = (t, b) ->
  let a' := astep wid is_comb nfc a (ODl n) in let y := ay a in let k := hat n in
  if (t <=? y) && (y <=? b) then
    (forall r c, y <= r <= b -> a_grid a' r c = if r + k <=? b then a_grid a (r + k) c else adc a) /\
    (forall r c, (r < y \/ b < r) -> a_grid a' r c = a_grid a r c) /\ ax a' = 0 /\ ay a' = y
  else a' = a.
Proof. exact c06_dl. Qed.

(* DECSTBM accepts a region only if it spans at least two rows after clamping to the screen, then homes the
   cursor (DECOM-aware CUP); `CSI r` alone removes the region; the result satisfies C09's margin clause *)
Theorem C06_DECSTBM : forall wid is_comb nfc (a : astate) (top bottom : option N), AWF a ->
  let a' := astep wid is_comb nfc a (OMargins top bottom) in
  if (match top with Some t => t | None => 0 end =? 0) && (match bottom with None => true | _ => false end)
  then a' = a_with_margins a None
  else
    let t := match top with Some v => clampm a v | None => fst (reg a) end in
    let b := match bottom with Some v => clampm a v | None => snd (reg a) end in
    if t <? b then a_margins a' = Some (t, b) /\ t < b <= a_lines a - 1 /\ a' = a_cup (a_with_margins a (Some (t, b))) None None
    else a' = a.
Proof. exact c06_stbm. Qed.

Example C06_nonvacuous : WF (init 4 5) /\ reg (abs (init 4 5)) = (0, 4).
Proof. split; [apply WF_init; discriminate|reflexivity]. Qed.

(* IL n then DL n on the same line: the region is what it was, except that the lines pushed past the bottom margin are lost *)
Theorem C06_IL_then_DL : forall (a : astate) n t b r c, reg a = (t, b) -> t <= ay a <= b ->
  a_grid (a_dl (a_il a n) n) r c = if (ay a <=? r) && (r <=? b) && (b <? r + hat n) then adc a else a_grid a r c.
Proof. exact c06_il_then_dl. Qed.

Print Assumptions C06_code_refines_spec.
Print Assumptions C06_index_at_bottom_margin.
Print Assumptions C06_reverse_index_at_top_margin.
Print Assumptions C06_IL.
Print Assumptions C06_DL.
Print Assumptions C06_DECSTBM.
Print Assumptions C06_IL_then_DL.
