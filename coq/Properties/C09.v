(* C09 — Screen state is always well-formed.
   WF (Proofs/WF.v) is: 1 <= columns, 1 <= lines, cursor y < lines, cursor x <= columns, margins absent or
   0 <= top < bottom <= lines-1, every dirty index < lines, and — the internal half — no row or cell stored
   outside [0,lines) x [0,columns). SCm: a remembered DECCOLM width is >= 1. *)
From Coq Require Import NArith List Bool.
From MT Require Import Lib Types Tables Screen Spec Stmt Obs.
From MT.Proofs Require Import WF Aeq RefineReset RefineMisc SpecAll RefineModes RefineAll RunAll P09 OracleSound.
From MT Require TablesOk_C08.
Import ListNotations.
Open Scope N_scope.

(* after construction *)
Theorem C09_new_screen_is_well_formed : forall c l, 1 <= c -> 1 <= l -> WF (init c l).
Proof. exact WF_init. Qed.
(* after every operation, with any arguments (resize to >= 1x1), from every well-formed state *)
Theorem C09_every_operation_preserves : forall wid is_comb nfc (s : screen) (o : op),
  WF s -> SCm s -> args_ok o -> WF (step wid is_comb nfc s o) /\ SCm (step wid is_comb nfc s o).
Proof. intros wid is_comb nfc s o W SC Ho. destruct (refine_step wid is_comb nfc s o W SC Ho) as [_ R]. exact R. Qed.
(* hence in every reachable state: any interleaving of API calls, draws, resizes, display() *)
Theorem C09_every_reachable_state : forall wid is_comb nfc c l (os : list op),
  1 <= c -> 1 <= l -> Forall args_ok os -> WF (run wid is_comb nfc (init c l) os) /\ SCm (run wid is_comb nfc (init c l) os).
Proof. exact invariant_from_new. Qed.
(* the clauses of the property, read off WF *)
Theorem C09_clauses : forall s, WF s ->
  cy s < lines s /\ cx s <= columns s /\
  (match margins s with None => True | Some (t, b) => t < b /\ b <= lines s - 1 end) /\
  (forall y, nmem y (dirty s) = true -> y < lines s).
Proof. intros s [w1 w2 w3 w4 w5 w6 w7 w8]. repeat split; assumption. Qed.
(* display() returns exactly `lines` strings *)
Theorem C09_display_length : forall wid (s : screen), WF s -> length (snd (display wid s)) = N.to_nat (lines s).
Proof.
  intros wid s W. destruct (display_spec wid s W) as [_ [_ E]]. rewrite E. unfold a_display.
  rewrite map_length, range_length. cbn [abs a_lines]. f_equal. apply N.sub_0_r.
Qed.
(* the boolean form evaluated on implementation snapshots agrees with WF on the geometric clauses *)
Theorem C09_boolean_statement_sound : forall s, c09b s = true ->
  1 <= columns s /\ 1 <= lines s /\ cy s < lines s /\ cx s <= columns s.
Proof.
  intros s H. unfold c09b in H. repeat (apply andb_true_iff in H; destruct H as [H ?]).
  repeat split; try (apply N.leb_le; assumption); try (apply N.ltb_lt; assumption).
Qed.

(* colours: in every state reachable from Screen::new by any operations (SGR with any parameter list, DECSCNM, erase,
   scroll, draw, DECRC, resize ...) every visible cell and the current rendition have fg and bg in
   {default, 8 names, 8 bright names} or a 6-digit lowercase hexadecimal string *)
Theorem C09_colours_always_documented : forall wid is_comb nfc c l (os : list op), 1 <= c -> 1 <= l -> Forall args_ok os ->
  let s := run wid is_comb nfc (init c l) os in
  (forall r cc, r < lines s -> cc < columns s -> cell_colours_ok (cellv s r cc) = true) /\ cell_colours_ok (cu_attr (cur s)) = true.
Proof. exact c09_colours. Qed.
Theorem C09_SGR_only_produces_documented_colours : forall dc a ps, cell_colours_ok dc = true -> cell_colours_ok a = true ->
  cell_colours_ok (sgr_spec dc a ps) = true.
Proof. intros dc a ps Hd Ha. apply (P_sgr_spec dc Hd (length ps) ps a (le_n _) Ha). Qed.

(* the full boolean predicate evaluated on every implementation snapshot (geometric clauses + nothing stored outside the grid +
   colours) implies the invariant of the theorems: a snapshot that passes it is a state from which every theorem above applies *)
Theorem C09_oracle_implies_invariant : forall s, wfb s = true -> WF s.
Proof. exact wfb_sound. Qed.

Example C09_nonvacuous : WF (init 80 24) /\ SCm (init 80 24).
Proof. split; [apply WF_init; discriminate|exact I]. Qed.

Print Assumptions C09_new_screen_is_well_formed.
Print Assumptions C09_every_operation_preserves.
Print Assumptions C09_every_reachable_state.
Print Assumptions C09_display_length.
Print Assumptions C09_colours_always_documented.
Print Assumptions C09_SGR_only_produces_documented_colours.
Print Assumptions C09_oracle_implies_invariant.
