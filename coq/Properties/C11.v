(* C11 — Byte input is decoded as streaming UTF-8 (or 1:1 in 8-bit mode). *)
From Coq Require Import NArith List Bool.
From MT Require Import Lib Types Tables Screen Parser Utf8 World.
From MT.Proofs Require Import Stream Utf8Dec EndToEnd.
Import ListNotations.
Open Scope N_scope.

(* each well-formed sequence (Unicode Table 3-7) yields its code point exactly once and leaves the decoder between
   characters; [out1 f c] drops only a U+FEFF that is the very first thing a fresh decoder produces *)
Theorem C11_well_formed_sequence_decodes : forall bs c, wf bs c -> forall f rest,
  drun (mkD 0 0 128 191 f) (bs ++ rest) =
  (fst (drun (mkD 0 0 128 191 false) rest), out1 f c ++ snd (drun (mkD 0 0 128 191 false) rest)).
Proof. exact decode_wf. Qed.
(* the grammar is exactly "encodings of scalar values" *)
Theorem C11_well_formed_iff_encoding : forall bs c, wf bs c -> scalar c /\ bs = encode c.
Proof. exact wf_scalar. Qed.
Theorem C11_every_scalar_has_a_well_formed_encoding : forall c, scalar c -> wf (encode c) c.
Proof. exact encode_wf. Qed.
(* round trip over arbitrary strings of scalar values: nothing dropped, duplicated or reordered *)
Theorem C11_round_trip : forall cs, Forall scalar cs ->
  drun (mkD 0 0 128 191 false) (concat (map encode cs)) = (mkD 0 0 128 191 false, cs).
Proof. exact round_trip. Qed.
Theorem C11_round_trip_fresh_decoder : forall c cs, scalar c -> Forall scalar cs ->
  drun d0 (concat (map encode (c :: cs))) = (mkD 0 0 128 191 false, (if c =? BOM then [] else [c]) ++ cs).
Proof. exact round_trip_fresh. Qed.
(* ill-formed input: a byte that cannot start a sequence gives U+FFFD; an incomplete sequence followed by a byte
   that cannot continue it gives ONE U+FFFD (maximal subpart) and that byte is decoded afresh *)
Theorem C11_invalid_lead_byte : forall f b rest, (128 <= b <= 193) \/ 245 <= b ->
  drun (mkD 0 0 128 191 f) (b :: rest) =
  (fst (drun (mkD 0 0 128 191 false) rest), REPL :: snd (drun (mkD 0 0 128 191 false) rest)).
Proof. exact bad_lead_byte. Qed.
Theorem C11_maximal_subpart : forall r c lo hi f b rest, 1 <= r -> (b < lo \/ hi < b) ->
  drun (mkD r c lo hi f) (b :: rest) = let '(d2, o2) := drun (mkD 0 0 128 191 false) (b :: rest) in (d2, REPL :: o2).
Proof. exact truncated_then_other. Qed.
(* an incomplete trailing sequence is held (no output, decoder not between characters) *)
Theorem C11_incomplete_tail_is_held : forall bs c b rest f, wf (bs ++ b :: rest) c -> bs <> [] ->
  snd (drun (mkD 0 0 128 191 f) bs) = [] /\ d_rem (fst (drun (mkD 0 0 128 191 f) bs)) <> 0.
Proof. exact incomplete_tail_held. Qed.
(* streaming: decoding a concatenation = decoding the pieces with the state carried over *)
Theorem C11_streaming : forall d a b,
  drun d (a ++ b) = let '(d1, o1) := drun d a in let '(d2, o2) := drun d1 b in (d2, o1 ++ o2).
Proof. exact drun_app. Qed.
(* 8-bit mode: each byte is the code point of equal value; "@" switches to it (fresh decoder), "G"/"8" back *)
Theorem C11_eight_bit_mode : forall wid is_comb nfc (w : world) (bs : list N), w_utf8 w = false ->
  feed_bytes wid is_comb nfc w bs = feed_chars wid is_comb nfc w bs.
Proof. intros wid is_comb nfc w bs H. unfold feed_bytes. rewrite H. reflexivity. Qed.
Theorem C11_mode_switch : forall (w : world),
  w_utf8 (select_other w [64]) = false /\ w_dec (select_other w [64]) = d0 /\
  w_utf8 (select_other w [71]) = true /\ w_utf8 (select_other w [56]) = true /\ select_other w [65] = w.
Proof. intros w. repeat split. Qed.

Example C11_example : drun d0 [0xE3; 0x81; 0x82; 0xFF; 0x41; 0xE3; 0x81] = (mkD 1 193 128 191 false, [0x3042; REPL; 0x41]).
Proof. vm_compute. reflexivity. Qed.

(* end to end: on the UTF-8 encoding of any string of scalar values, cut into feed() calls anywhere (also inside a
   character), the byte parser drives recogniser and screen exactly as the character parser does on the string itself *)
Theorem C11_bytes_behave_as_the_characters : forall wid is_comb nfc w cs chunks,
  w_utf8 w = true -> w_dec w = mkD 0 0 128 191 false -> Forall scalar cs -> concat chunks = concat (map encode cs) ->
  fold_left (feed_bytes wid is_comb nfc) chunks w = feed_chars wid is_comb nfc w cs.
Proof. exact e2e_bytes_chunked. Qed.
Theorem C11_eight_bit_bytes_are_the_characters : forall wid is_comb nfc w bs, w_utf8 w = false ->
  feed_bytes wid is_comb nfc w bs = feed_chars wid is_comb nfc w bs.
Proof. exact e2e_bytes_8bit. Qed.

Print Assumptions C11_well_formed_sequence_decodes.
Print Assumptions C11_well_formed_iff_encoding.
Print Assumptions C11_every_scalar_has_a_well_formed_encoding.
Print Assumptions C11_round_trip.
Print Assumptions C11_invalid_lead_byte.
Print Assumptions C11_maximal_subpart.
Print Assumptions C11_incomplete_tail_is_held.
Print Assumptions C11_streaming.
Print Assumptions C11_eight_bit_mode.
Print Assumptions C11_bytes_behave_as_the_characters.
