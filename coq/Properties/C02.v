(* C02 — Streaming: the result is independent of how input is chunked.
   Model level: ByteParser/Parser/Screen compose per-symbol machines (decoder state incl. its undecoded tail
   and BOM flag, recogniser state, screen). The implementation is compared with these folds under arbitrary
   chunkings on every run (correspondence) and with itself (whole vs. chunked, model-free statement oracle). *)
From Coq Require Import NArith List Bool.
From MT Require Import Lib Types Tables Screen Parser Utf8 World.
From MT.Proofs Require Import Stream.
Import ListNotations.
Open Scope N_scope.

(* any partition of a byte stream into consecutive chunks (any offsets, incl. inside a multi-byte character or
   an escape sequence; empty chunks allowed) gives the same world: screen, recogniser state, decoder state *)
Theorem C02_bytes_any_chunking : forall wid is_comb nfc (w : world) (chunks : list (list N)),
  fold_left (feed_bytes wid is_comb nfc) chunks w = feed_bytes wid is_comb nfc w (concat chunks).
Proof. exact feed_bytes_chunks. Qed.
Theorem C02_chars_any_chunking : forall wid is_comb nfc (w : world) (chunks : list (list cp)),
  fold_left (feed_chars wid is_comb nfc) chunks w = feed_chars wid is_comb nfc w (concat chunks).
Proof. exact feed_chars_chunks. Qed.
Theorem C02_empty_chunk_is_noop : forall wid is_comb nfc (w : world),
  feed_bytes wid is_comb nfc w [] = w /\ feed_chars wid is_comb nfc w [] = w.
Proof. intros. split; [apply feed_bytes_nil|apply feed_chars_nil]. Qed.
(* the two machines underneath *)
Theorem C02_recogniser_is_per_symbol : forall u st a b,
  prun u st (a ++ b) = let '(st1, e1) := prun u st a in let '(st2, e2) := prun u st1 b in (st2, e1 ++ e2).
Proof. exact prun_app. Qed.
Theorem C02_decoder_is_per_symbol : forall d a b,
  drun d (a ++ b) = let '(d1, o1) := drun d a in let '(d2, o2) := drun d1 b in (d2, o1 ++ o2).
Proof. exact drun_app. Qed.
(* Parser::feed's fast path (draw the character directly while `taking_plain_text`) coincides with the ground
   state of the recogniser on non-special characters, so it is part of the per-symbol step *)
Theorem C02_plain_text_fast_path : forall u c, nmem c special_ctrls = false -> pstep u PGround c = (PGround, [ODraw [c]]).
Proof. exact plain_text_path. Qed.

Print Assumptions C02_bytes_any_chunking.
Print Assumptions C02_chars_any_chunking.
Print Assumptions C02_recogniser_is_per_symbol.
Print Assumptions C02_decoder_is_per_symbol.
Print Assumptions C02_plain_text_fast_path.
