(* C18 — Tab stops: defaults, HTS/TBC editing and HT movement. *)
From Coq Require Import NArith List Bool.
From MT Require Import Lib Types Tables Screen Spec Stmt.
From MT.Proofs Require Import WF Aeq RefineTab RefineReset P18.
Open Scope N_scope.

(* the code's sort-then-scan (and the set edits) equal the specification for every stop set (any order of the
   underlying hash set), every width and every cursor column incl. the pending-wrap column *)
Theorem C18_code_refines_spec : forall wid is_comb nfc (s : screen) (o : op),
  is_tabop o = true -> abs (step wid is_comb nfc s o) = astep wid is_comb nfc (abs s) o.
Proof. exact c18_refines. Qed.
Theorem C18_sorted_scan_finds_least_stop : forall x l, find (fun st => x <? st) (nsort l) = least_gt x l.
Proof. exact find_nsort_least. Qed.

(* defaults: 8, 16, ... < columns — for a new screen (model of Screen::new and the spec) and after reset *)
Theorem C18_default_stops : forall cols t, nmem t (a_tabs_default cols) = (8 <=? t) && (t <? cols) && (t mod 8 =? 0).
Proof. exact default_stops_spec. Qed.
Theorem C18_defaults_initially_and_after_reset : forall wid is_comb nfc cols lns (a : astate),
  a_tabs (a_init cols lns) = a_tabs_default cols /\ a_tabs (astep wid is_comb nfc a OReset) = a_tabs_default (a_cols a).
Proof. exact c18_defaults. Qed.
Theorem C18_new_screen_of_the_code : forall cols lns, 1 <= cols -> 1 <= lns -> tabstops (init cols lns) = a_tabs_default cols.
Proof. exact c18_init_code. Qed.

(* HTS adds the cursor column; TBC 0/absent removes it, TBC 3 removes all, other selectors do nothing *)
Theorem C18_HTS_TBC : forall wid is_comb nfc (a : astate) (h : option N) (t : N),
  nmem t (a_tabs (astep wid is_comb nfc a OSetTab)) = (t =? ax a) || nmem t (a_tabs a) /\
  nmem t (a_tabs (astep wid is_comb nfc a (OTbc h))) =
    (if sel_h h =? 0 then negb (t =? ax a) && nmem t (a_tabs a) else if sel_h h =? 3 then false else nmem t (a_tabs a)).
Proof. exact c18_edit. Qed.
Theorem C18_HTS_TBC_change_nothing_else : forall wid is_comb nfc (a : astate) (o : op),
  o = OSetTab \/ (exists h, o = OTbc h) -> exists ts, astep wid is_comb nfc a o = a_with_tabs a ts.
Proof. exact c18_edit_frame. Qed.

(* HT: nearest stop strictly to the right, or the last column; never beyond the last column; nothing else changes *)
Theorem C18_HT : forall wid is_comb nfc (a : astate), 1 <= a_cols a ->
  let a' := astep wid is_comb nfc a OTab in
  a' = a_x a (ax a') /\ ax a' <= a_cols a - 1 /\
  match least_gt (ax a) (a_tabs a) with
  | Some t => nmem t (a_tabs a) = true /\ ax a < t /\ (forall u, nmem u (a_tabs a) = true -> ax a < u -> t <= u) /\
              ax a' = N.min t (a_cols a - 1)
  | None => (forall u, nmem u (a_tabs a) = true -> u <= ax a) /\ ax a' = a_cols a - 1
  end.
Proof. exact c18_ht. Qed.

Example C18_example : tabstops (init 20 2) = (8 :: 16 :: nil)%list.
Proof. vm_compute. reflexivity. Qed.

(* HTS immediately undone by TBC at the same cursor position (also the pending-wrap column): the stop set is what it was
   without a stop at that column *)
Theorem C18_HTS_then_TBC : forall (a : astate) t, nmem t (a_tabs (a_tbc (a_hts a) None)) = negb (t =? ax a) && nmem t (a_tabs a).
Proof. exact c18_hts_then_tbc. Qed.

Print Assumptions C18_code_refines_spec.
Print Assumptions C18_sorted_scan_finds_least_stop.
Print Assumptions C18_default_stops.
Print Assumptions C18_new_screen_of_the_code.
Print Assumptions C18_HTS_TBC.
Print Assumptions C18_HT.
Print Assumptions C18_HTS_then_TBC.
