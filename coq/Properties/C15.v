(* C15 — RIS returns the terminal to its power-on state. *)
From Coq Require Import NArith List Bool.
From MT Require Import Lib Types Tables Screen Spec Stmt.
From MT.Proofs Require Import WF Aeq P05 CongrMore SpecAll RefineReset RefineModes RefineAll RunAll P14 P15.
Import ListNotations.
Open Scope N_scope.

(* the code model of reset() refines the spec in every well-formed state *)
Theorem C15_code_refines_spec : forall wid is_comb nfc (s : screen), WF s -> SCm s ->
  Aeq (abs (step wid is_comb nfc s OReset)) (astep wid is_comb nfc (abs s) OReset) /\ WF (step wid is_comb nfc s OReset).
Proof. intros wid is_comb nfc s W SC. destruct (refine_step wid is_comb nfc s OReset W SC I) as [A [W' _]]. split; assumption. Qed.
(* after RIS the state IS a new screen of the current dimensions (grid, cursor, rendition, modes, margins, tab stops,
   charsets, title, icon name, dirty = every row), with the old saved-cursor stack — whatever `a` was *)
Theorem C15_RIS_is_a_new_screen : forall wid is_comb nfc (a : astate),
  astep wid is_comb nfc a OReset = a_with_sp (a_init (a_cols a) (a_lines a)) (a_sp a).
Proof. exact c15_reset. Qed.
Theorem C15_every_row_dirty : forall wid is_comb nfc (a : astate) r, r < a_lines a -> nmem r (a_dirty (astep wid is_comb nfc a OReset)) = true.
Proof. exact c15_all_dirty. Qed.
Theorem C15_new_screen_is_the_model_constructor : forall c l, 1 <= c -> 1 <= l -> Aeq (abs (init c l)) (a_init c l).
Proof. exact init_abs. Qed.
(* no operation other than DECSC / DECRC can see the stack: it commutes with replacing the stack *)
Theorem C15_stack_is_invisible : forall wid is_comb nfc (a : astate) (s : list savepoint) (o : op), no_save_restore o ->
  astep wid is_comb nfc (a_with_sp a s) o = a_with_sp (astep wid is_comb nfc a o) s.
Proof. exact w_astep. Qed.
(* from then on the same input produces the same state as on a new screen (continuations without DECRC), specification *)
Theorem C15_continuation : forall wid is_comb nfc (a : astate) (t : list op), Forall not_restore t ->
  exists s', arun wid is_comb nfc (astep wid is_comb nfc a OReset) t = a_with_sp (arun wid is_comb nfc (a_init (a_cols a) (a_lines a)) t) s'.
Proof. exact c15_continuation. Qed.
(* ... and for the code model, after ANY reachable/well-formed state s (= any history): everything observable except the
   stack coincides with the run of the same continuation from Screen::new(columns, lines) *)
Theorem C15_history_RIS_continuation : forall wid is_comb nfc (s : screen) (t : list op),
  WF s -> SCm s -> Forall args_ok t -> Forall not_restore t ->
  Aeq (a_with_sp (abs (run wid is_comb nfc s (OReset :: t))) []) (a_with_sp (abs (run wid is_comb nfc (init (columns s) (lines s)) t)) []).
Proof. exact c15_model. Qed.

Print Assumptions C15_code_refines_spec.
Print Assumptions C15_RIS_is_a_new_screen.
Print Assumptions C15_stack_is_invisible.
Print Assumptions C15_continuation.
Print Assumptions C15_history_RIS_continuation.
