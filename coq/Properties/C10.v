(* C10 — display() is a faithful and side-effect-free rendering of the grid. *)
From Coq Require Import NArith List Bool.
From MT Require Import Lib Types Tables Screen Spec Stmt Obs.
From MT.Proofs Require Import WF Aeq RefineMisc SpecAll RefineModes RefineAll RunAll.
Import ListNotations.
Open Scope N_scope.

(* faithful: the strings are, row by row, the concatenation of the cells' texts, skipping the cell after a
   double-width character, never-written cells rendered as blanks (a_display / render_cells, Spec.v) *)
Theorem C10_display_output : forall wid (s : screen), WF s -> snd (display wid s) = a_display wid (abs s).
Proof. intros wid s W. apply (display_spec wid s W). Qed.
Theorem C10_rendering_rule : forall wid (c : cell) (rest : list cell),
  render_cells wid (c :: rest) =
  c_data c ++ (if cell_wide wid c then match rest with [] => [] | _ :: rest' => render_cells wid rest' end else render_cells wid rest).
Proof. reflexivity. Qed.
(* side-effect-free, one call: the state after display() looks exactly like the state before, and is well-formed
   (display() does materialise absent rows and cells — invisibly) *)
Theorem C10_display_changes_nothing_visible : forall wid (s : screen), WF s ->
  Aeq (abs (fst (display wid s))) (abs s) /\ WF (fst (display wid s)).
Proof. intros wid s W. destruct (display_spec wid s W) as [A [W' _]]. split; assumption. Qed.
(* side-effect-free, whole histories: two runs of the same history that differ only in where display() was
   called end in the same observable state — for every history, every subset of positions *)
Theorem C10_display_never_changes_later_behaviour : forall wid is_comb nfc (os : list op) (s1 s2 : screen),
  WF s1 -> SCm s1 -> WF s2 -> SCm s2 -> Forall args_ok os -> Aeq (abs s1) (abs s2) ->
  Aeq (abs (run wid is_comb nfc s1 os)) (abs (run wid is_comb nfc s2 (strip_display os))).
Proof. exact display_is_pure. Qed.
(* the general fact behind it: on well-formed states the visible effect of any operation depends on the visible
   state only (the sparse representation is unobservable) *)
Theorem C10_view_congruence : forall wid is_comb nfc (s1 s2 : screen) (o : op),
  WF s1 -> SCm s1 -> WF s2 -> SCm s2 -> args_ok o -> Aeq (abs s1) (abs s2) ->
  Aeq (abs (step wid is_comb nfc s1 o)) (abs (step wid is_comb nfc s2 o)).
Proof. exact model_congr. Qed.

Print Assumptions C10_display_output.
Print Assumptions C10_display_changes_nothing_visible.
Print Assumptions C10_display_never_changes_later_behaviour.
Print Assumptions C10_view_congruence.
