(* C08 — SGR sets exactly the documented rendition attributes. *)
From Coq Require Import NArith List Bool String.
From MT Require Import Lib Types Charsets Tables Screen Spec Stmt.
From MT.Proofs Require Import WF Aeq RefineSgr P08.
From MT Require TablesOk_C08.
Import ListNotations.
Open Scope N_scope.

(* the code's pop-loop over a reversed stack with a table-driven `replace` map equals, for EVERY parameter list
   (any length, any codes), the left-to-right fold of the documented table; nothing but the rendition changes *)
Theorem C08_code_refines_spec : forall wid is_comb nfc (s : screen) (ps : list N),
  abs (step wid is_comb nfc s (OSgr ps)) = astep wid is_comb nfc (abs s) (OSgr ps).
Proof. exact c08_refines. Qed.
Theorem C08_rendition_is_the_fold : forall wid is_comb nfc (a : astate) (ps : list N),
  astep wid is_comb nfc a (OSgr ps) = a_with_attr a (match ps with [] => adc a | _ => sgr_spec (adc a) (aattr a) ps end).
Proof. exact c08_fold. Qed.
(* the lemma behind it, on the model's own data structures *)
Theorem C08_loop_is_fold : forall d fuel (l : list N) r a, (List.length l <= fuel)%nat ->
  apply_repl a (sgr_loop fuel d r l) = sgr_spec d (apply_repl a r) l.
Proof. exact sgr_loop_spec. Qed.

Theorem C08_fold_step_ordinary_code : forall d a p rest, p <> 38 -> p <> 48 ->
  sgr_spec d a (p :: rest) = sgr_spec d (sgr_simple d a p) rest.
Proof. exact c08_fold_simple. Qed.
Theorem C08_fold_step_palette : forall d a m rest,
  sgr_spec d a (38 :: 5 :: m :: rest) = sgr_spec d (if m <? 256 then set_fg a (palette m) else a) rest /\
  sgr_spec d a (48 :: 5 :: m :: rest) = sgr_spec d (if m <? 256 then set_bg a (palette m) else a) rest.
Proof. exact c08_fold_256. Qed.
Theorem C08_fold_step_truecolour : forall d a r g b rest,
  sgr_spec d a (38 :: 2 :: r :: g :: b :: rest) = sgr_spec d (if (r <? 256) && (g <? 256) && (b <? 256) then set_fg a (rgb r g b) else a) rest /\
  sgr_spec d a (48 :: 2 :: r :: g :: b :: rest) = sgr_spec d (if (r <? 256) && (g <? 256) && (b <? 256) then set_bg a (rgb r g b) else a) rest.
Proof. exact c08_fold_rgb. Qed.
Theorem C08_fold_step_malformed : forall d a n rest, n <> 5 -> n <> 2 ->
  sgr_spec d a [38] = a /\ sgr_spec d a [48] = a /\ sgr_spec d a [38; 5] = a /\ sgr_spec d a [48; 5] = a /\
  sgr_spec d a (38 :: n :: rest) = sgr_spec d a rest /\ sgr_spec d a (48 :: n :: rest) = sgr_spec d a rest.
Proof. exact c08_fold_malformed. Qed.

Theorem C08_documented_codes : forall d a,
  sgr_simple d a 0 = d /\
  sgr_simple d a 1 = set_text a FBold true /\ sgr_simple d a 22 = set_text a FBold false /\
  sgr_simple d a 3 = set_text a FItalics true /\ sgr_simple d a 23 = set_text a FItalics false /\
  sgr_simple d a 4 = set_text a FUnderscore true /\ sgr_simple d a 24 = set_text a FUnderscore false /\
  sgr_simple d a 5 = set_text a FBlink true /\ sgr_simple d a 25 = set_text a FBlink false /\
  sgr_simple d a 7 = set_text a FReverse true /\ sgr_simple d a 27 = set_text a FReverse false /\
  sgr_simple d a 9 = set_text a FStrike true /\ sgr_simple d a 29 = set_text a FStrike false /\
  sgr_simple d a 39 = set_fg a s_default /\ sgr_simple d a 49 = set_bg a s_default /\
  (forall i, i < 8 -> sgr_simple d a (30 + i) = set_fg a (nth_name i) /\ sgr_simple d a (40 + i) = set_bg a (nth_name i) /\
                      sgr_simple d a (90 + i) = set_fg a (bright (nth_name i)) /\ sgr_simple d a (100 + i) = set_bg a (bright (nth_name i))).
Proof. exact c08_codes. Qed.
Theorem C08_unknown_codes_ignored : forall d a p, known_code p = false -> sgr_simple d a p = a.
Proof. exact c08_unknown. Qed.
Theorem C08_cells_on_screen_never_change : forall wid is_comb nfc (a : astate) (ps : list N),
  let a' := astep wid is_comb nfc a (OSgr ps) in
  a_grid a' = a_grid a /\ ax a' = ax a /\ ay a' = ay a /\ cu_hidden (a_cur a') = cu_hidden (a_cur a) /\
  a_mode a' = a_mode a /\ a_margins a' = a_margins a /\ a_tabs a' = a_tabs a /\ a_dirty a' = a_dirty a /\ a_sp a' = a_sp a.
Proof. exact c08_frame. Qed.
(* the current source's tables ARE the documented ones (regenerated and re-checked by the kernel on every run) *)
(* several ordinary codes in one sequence = the same codes one sequence at a time *)
Theorem C08_list_equals_one_at_a_time : forall d l1 a l2, Forall (fun p => p <> 38 /\ p <> 48) l1 ->
  sgr_spec d a (l1 ++ l2) = sgr_spec d (sgr_spec d a l1) l2.
Proof. exact sgr_app_ordinary. Qed.
Theorem C08_tables_of_the_source : GenTables.g_palette = map palette (range 0 256) /\ GenTables.g_fg_ansi = fg_ansi /\
  GenTables.g_bg_ansi = bg_ansi /\ GenTables.g_fg_aixterm = fg_aixterm /\ GenTables.g_bg_aixterm = bg_aixterm.
Proof. pose proof TablesOk_C08.tables_ok_C08 as H. intuition. Qed.

Example C08_example : sgr_spec cell_default cell_default [1; 38; 5; 196; 48; 2; 1; 2; 3] =
  mkCell s_space (s2n "ff0000"%string) (s2n "010203"%string) true false false false false false.
Proof. vm_compute. reflexivity. Qed.

Print Assumptions C08_code_refines_spec.
Print Assumptions C08_rendition_is_the_fold.
Print Assumptions C08_loop_is_fold.
Print Assumptions C08_documented_codes.
Print Assumptions C08_unknown_codes_ignored.
Print Assumptions C08_tables_of_the_source.
Print Assumptions C08_list_equals_one_at_a_time.
