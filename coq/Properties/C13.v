(* C13 — ICH/DCH shift only the rest of the cursor row and lose what crosses the edge. *)
From Coq Require Import NArith List Bool.
From MT Require Import Lib Types Tables Screen Spec Stmt.
From MT.Proofs Require Import WF Aeq P13 RefineReset.
Open Scope N_scope.

(* the in-place loops of insert_characters / delete_characters compute the splice, for every state and count,
   and leave NO cell stored at or beyond column `columns` (WF): nothing is parked off-screen *)
Theorem C13_code_refines_spec : forall wid is_comb nfc (s : screen) (o : op),
  WF s -> is_ichdch o = true ->
  Aeq (abs (step wid is_comb nfc s o)) (astep wid is_comb nfc (abs s) o) /\ WF (step wid is_comb nfc s o).
Proof. exact c13_refines. Qed.

Theorem C13_ICH : forall wid is_comb nfc (a : astate) (n : option N) (r c : N), r < a_lines a -> c < a_cols a ->
  a_grid (astep wid is_comb nfc a (OIch n)) r c =
  if (r =? ay a) && (ax a <=? c) then (if c <? ax a + hat n then adc a else a_grid a (ay a) (c - hat n)) else a_grid a r c.
Proof. exact c13_ich. Qed.
Theorem C13_DCH : forall wid is_comb nfc (a : astate) (n : option N) (r c : N), r < a_lines a -> c < a_cols a ->
  a_grid (astep wid is_comb nfc a (ODch n)) r c =
  if (r =? ay a) && (ax a <=? c) then (if c + hat n <? a_cols a then a_grid a (ay a) (c + hat n) else adc a) else a_grid a r c.
Proof. exact c13_dch. Qed.

(* whole cells move (attributes travel with their characters); cursor, modes, margins, tab stops and every
   other row are unchanged *)
Theorem C13_nothing_else_changes : forall wid is_comb nfc (a : astate) (o : op), is_ichdch o = true ->
  let a' := astep wid is_comb nfc a o in
  a_cur a' = a_cur a /\ a_mode a' = a_mode a /\ a_margins a' = a_margins a /\ a_tabs a' = a_tabs a /\
  a_cols a' = a_cols a /\ a_lines a' = a_lines a /\ a_sp a' = a_sp a /\
  (forall r c, r <> ay a -> a_grid a' r c = a_grid a r c).
Proof. exact c13_frame. Qed.

(* discarded characters cannot come back: the visible result depends on visible cells only *)
Theorem C13_result_depends_on_visible_cells_only : forall wid is_comb nfc (a b : astate) (o : op), is_ichdch o = true ->
  a_cols a = a_cols b -> a_lines a = a_lines b -> a_cur a = a_cur b -> a_mode a = a_mode b ->
  (forall r c, r < a_lines a -> c < a_cols a -> a_grid a r c = a_grid b r c) -> ay a < a_lines a ->
  forall r c, r < a_lines a -> c < a_cols a ->
  a_grid (astep wid is_comb nfc a o) r c = a_grid (astep wid is_comb nfc b o) r c.
Proof. exact c13_no_hidden_source. Qed.

Example C13_nonvacuous : WF (init 5 2) /\ is_ichdch (OIch None) = true.
Proof. split; [apply WF_init; discriminate|reflexivity]. Qed.

(* ICH n then DCH n at the same position: the row is what it was, except that the cells pushed over the right edge are lost *)
Theorem C13_ICH_then_DCH : forall (a : astate) n r c, c < a_cols a ->
  a_grid (a_dch (a_ich a n) n) r c = if (r =? ay a) && (ax a <=? c) && (a_cols a <=? c + hat n) then adc a else a_grid a r c.
Proof. exact c13_ich_then_dch. Qed.

Print Assumptions C13_code_refines_spec.
Print Assumptions C13_ICH.
Print Assumptions C13_DCH.
Print Assumptions C13_nothing_else_changes.
Print Assumptions C13_result_depends_on_visible_cells_only.
Print Assumptions C13_ICH_then_DCH.
