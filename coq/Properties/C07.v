(* C07 — Erase operations blank exactly the documented cells with the current rendition. *)
From Coq Require Import NArith List Bool.
From MT Require Import Lib Types Tables Screen Spec Stmt.
From MT.Proofs Require Import WF Aeq P07 RefineReset.
Open Scope N_scope.

(* the loops of erase_in_display / erase_in_line / erase_characters over the sparse buffer compute the closed
   form, and write no cell outside the visible grid (WF), for every state, selector and count *)
Theorem C07_code_refines_spec : forall wid is_comb nfc (s : screen) (o : op),
  WF s -> is_erase o = true ->
  Aeq (abs (step wid is_comb nfc s o)) (astep wid is_comb nfc (abs s) o) /\ WF (step wid is_comb nfc s o).
Proof. exact c07_refines. Qed.

(* exactly the documented range is replaced by the cursor's current rendition (a space carrying it); every other
   cell keeps text and attributes. No hypothesis mentions margins or DECOM: they do not restrict erasure. *)
Theorem C07_exact_range : forall wid is_comb nfc (a : astate) (o : op) (r c : N),
  is_erase o = true -> r < a_lines a -> c < a_cols a ->
  a_grid (astep wid is_comb nfc a o) r c = if erased (ax a) (ay a) o r c then aattr a else a_grid a r c.
Proof. exact c07_cells. Qed.

Theorem C07_nothing_else_changes : forall wid is_comb nfc (a : astate) (o : op), is_erase o = true ->
  let a' := astep wid is_comb nfc a o in
  a_cur a' = a_cur a /\ a_mode a' = a_mode a /\ a_margins a' = a_margins a /\ a_tabs a' = a_tabs a /\
  a_cols a' = a_cols a /\ a_lines a' = a_lines a /\ a_cs a' = a_cs a /\ a_g0 a' = a_g0 a /\ a_g1 a' = a_g1 a /\
  a_title a' = a_title a /\ a_icon a' = a_icon a /\ a_sp a' = a_sp a /\ a_savedcols a' = a_savedcols a.
Proof. exact c07_frame. Qed.

Theorem C07_unsupported_selectors_ignored : forall wid is_comb nfc (a : astate) (h : option N) (r c : N), 3 < sel h ->
  a_grid (astep wid is_comb nfc a (OEd h)) r c = a_grid a r c /\ a_grid (astep wid is_comb nfc a (OEl h)) r c = a_grid a r c.
Proof. exact c07_unsupported. Qed.

Example C07_nonvacuous : WF (init 5 4) /\ is_erase (OEd (Some 1)) = true.
Proof. split; [apply WF_init; discriminate|reflexivity]. Qed.

Print Assumptions C07_code_refines_spec.
Print Assumptions C07_exact_range.
Print Assumptions C07_nothing_else_changes.
Print Assumptions C07_unsupported_selectors_ignored.
