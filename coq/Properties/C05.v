(* C05 — Cursor movement and addressing follow the documented clamping rules.
   Statements only; each is closed by a lemma of Proofs/P05.v. `step` is the sparse model of src/screen.rs,
   `astep` the dense closed-form specification, `abs` the abstraction (Stmt.v). All theorems hold for every
   width/combining/NFC oracle (section variables) and every state / parameter (no bound on sizes). *)
From Coq Require Import NArith List Bool.
From MT Require Import Lib Types Tables Screen Spec Stmt.
From MT.Proofs Require Import WF Aeq P05 RefineReset SpecAll RefineModes OracleSound.
Open Scope N_scope.

(* the code computes the closed form: for every well-formed state, every movement operation, every argument *)
Theorem C05_code_refines_spec : forall wid is_comb nfc (s : screen) (o : op),
  WF s -> is_move o = true -> abs (step wid is_comb nfc s o) = astep wid is_comb nfc (abs s) o.
Proof. exact c05_refines. Qed.

(* none of these operations changes any cell, rendition, mode, margin, tab stop — nothing but (x, y) *)
Theorem C05_only_the_position_changes : forall wid is_comb nfc (a : astate) (o : op),
  is_move o = true ->
  astep wid is_comb nfc a o = a_xy a (ax (astep wid is_comb nfc a o)) (ay (astep wid is_comb nfc a o)).
Proof. exact c05_frame. Qed.

(* relative motion: 1-based, absent or zero = 1 (hat), max(y-n, top margin), min(y+n, bottom margin),
   horizontal motion stops at the first and last column, BS = CUB 1, CR -> column 0 *)
Theorem C05_relative_motion : forall wid is_comb nfc (a : astate) (n : option N),
  let st := astep wid is_comb nfc in
  ay (st a (OCuu n)) = N.max (ay a - hat n) (top_m a) /\ ax (st a (OCuu n)) = ax a /\
  ay (st a (OCud n)) = N.min (ay a + hat n) (bot_m a) /\ ax (st a (OCud n)) = ax a /\
  ax (st a (OCuf n)) = N.min (ax a + hat n) (a_cols a - 1) /\ ay (st a (OCuf n)) = ay a /\
  ax (st a (OCub n)) = N.min (ax a) (a_cols a - 1) - hat n /\ ay (st a (OCub n)) = ay a /\
  ay (st a (OCnl n)) = N.min (ay a + hat n) (bot_m a) /\ ax (st a (OCnl n)) = 0 /\
  ay (st a (OCpl n)) = N.max (ay a - hat n) (top_m a) /\ ax (st a (OCpl n)) = 0 /\
  ax (st a OBackspace) = N.min (ax a) (a_cols a - 1) - 1 /\ ax (st a OCR) = 0 /\ ay (st a OCR) = ay a.
Proof. exact c05_relative. Qed.
Theorem C05_absent_or_zero_means_one : forall n, hat n = match n with None => 1 | Some 0 => 1 | Some k => k end.
Proof. exact hat_spec. Qed.
Theorem C05_CHA : forall wid is_comb nfc (a : astate) (n : option N),
  ax (astep wid is_comb nfc a (OCha n)) = N.min (match n with Some v => v | None => 1 end - 1) (a_cols a - 1) /\
  ay (astep wid is_comb nfc a (OCha n)) = ay a.
Proof. exact c05_cha. Qed.

(* CUP / HVP: absolute addressing clamps to the screen; in origin mode rows are relative to the top margin,
   confined to the region, and a target outside it is ignored altogether *)
Theorem C05_CUP : forall wid is_comb nfc (a : astate) (l c : option N), AWF a ->
  let a' := astep wid is_comb nfc a (OCup l c) in
  match a_margins a with
  | Some (t, b) =>
      if amode a DECOM then
        if b <? hat l - 1 + t then a' = a
        else ax a' = N.min (hat c - 1) (a_cols a - 1) /\ ay a' = hat l - 1 + t /\ t <= ay a' <= b
      else ax a' = N.min (hat c - 1) (a_cols a - 1) /\ ay a' = N.min (hat l - 1) (a_lines a - 1)
  | None => ax a' = N.min (hat c - 1) (a_cols a - 1) /\ ay a' = N.min (hat l - 1) (a_lines a - 1)
  end.
Proof. exact c05_cup. Qed.

(* the cursor never leaves the screen: 0 <= y < lines, 0 <= x <= columns *)
Theorem C05_cursor_stays_on_screen : forall wid is_comb nfc (a : astate) (o : op),
  AWF a -> is_move o = true -> AWF (astep wid is_comb nfc a o).
Proof. exact c05_keeps_AWF. Qed.

(* non-vacuity: a concrete reachable state meets the hypotheses *)
Example C05_nonvacuous : WF (init 10 5) /\ AWF (abs (init 10 5)).
Proof. split; [|apply AWF_abs]; apply WF_init; discriminate. Qed.

(* the statement oracle: the boolean predicate that the driver evaluates on snapshots of the IMPLEMENTATION (extracted from
   Stmt.spec_ok) is exactly the relation of the theorems — a `true` means that the implementation's post-state is observationally
   the closed form of its own pre-state — and the code model satisfies that very predicate for every well-formed state and every
   operation (all 42, not only the movement operations of this property) *)
Theorem C05_oracle_true_means_closed_form : forall wid is_comb nfc (pre : screen) (o : op) (post : screen),
  spec_ok wid is_comb nfc pre o post = true <-> Aeq (abs post) (astep wid is_comb nfc (abs pre) o).
Proof. exact spec_ok_sound. Qed.
Theorem C05_model_satisfies_the_oracle : forall wid is_comb nfc (s : screen) (o : op), WF s -> SCm s -> args_ok o ->
  spec_ok wid is_comb nfc s o (step wid is_comb nfc s o) = true.
Proof. exact spec_ok_of_model. Qed.

Print Assumptions C05_code_refines_spec.
Print Assumptions C05_only_the_position_changes.
Print Assumptions C05_relative_motion.
Print Assumptions C05_CHA.
Print Assumptions C05_CUP.
Print Assumptions C05_cursor_stays_on_screen.
Print Assumptions C05_nonvacuous.
Print Assumptions C05_oracle_true_means_closed_form.
Print Assumptions C05_model_satisfies_the_oracle.
