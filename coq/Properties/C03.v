(* C03 — Escape-sequence recognition conforms to the documented grammar.
   `prun u st cs` = (state, events) of the shipping recogniser model on the character list cs from state st
   (u = UTF-8 mode). Every theorem has the form
        prun u PGround (token ++ rest) = (fst (prun u PGround rest), meaning ++ snd (prun u PGround rest))
   i.e. the token is consumed entirely, produces exactly its documented events, and the recogniser is back in the
   ground state for whatever follows (`rest` is arbitrary). Chaining these equations gives the events of every
   sentence of the grammar; C02_recogniser_is_per_symbol extends it to streams. *)
From Coq Require Import NArith List Bool.
From MT Require Import Lib Types Tables Screen Parser.
From MT Require Import World.
From MT.Proofs Require Import Stream Recog EndToEnd.
From MT Require TablesOk_C03.
Import ListNotations.
Open Scope N_scope.

Theorem C03_text_delivered_once_in_order : forall u c rest, nmem c special_ctrls = false ->
  prun u PGround (c :: rest) = (fst (prun u PGround rest), [ODraw [c]] ++ snd (prun u PGround rest)).
Proof. exact text_char. Qed.
Theorem C03_C0_controls : forall u c rest, In c basic_ctrls ->
  prun u PGround (c :: rest) =
  (fst (prun u PGround rest), (if ((c =? SI) || (c =? SO)) && u then [] else basic_dispatch c) ++ snd (prun u PGround rest)).
Proof. exact c0_control. Qed.
Theorem C03_ESC_final : forall u f rest, f <> 91 -> f <> 93 -> f <> 35 -> f <> 37 -> f <> 40 -> f <> 41 ->
  prun u PGround (ESC :: f :: rest) = (fst (prun u PGround rest), escape_dispatch f ++ snd (prun u PGround rest)).
Proof. exact esc_final. Qed.
Theorem C03_ESC_hash_percent_paren : forall u f rest,
  prun u PGround (ESC :: 35 :: f :: rest) = (fst (prun u PGround rest), (if f =? f_DECALN then [OAlign] else []) ++ snd (prun u PGround rest)) /\
  prun u PGround (ESC :: 37 :: f :: rest) = prun u PGround rest /\
  (forall m, m = 40 \/ m = 41 ->
     prun u PGround (ESC :: m :: f :: rest) = (fst (prun u PGround rest), (if u then [] else [ODefCharset [f] [m]]) ++ snd (prun u PGround rest))).
Proof. exact esc_hash_pct_paren. Qed.

(* CSI (ESC [ or U+009B), body of digits, `;`, `?`, SP, `>` and embedded BEL/BS/HT/LF/VT/FF/CR, then a final:
   embedded controls are executed immediately and in order; parameters = the digit/`;` subsequence split at `;`
   (always >= 1 parameter), each field read by param_of; `?` anywhere = private; exactly one dispatch *)
Theorem C03_CSI : forall u intro items c rest, In intro csi_intros -> Forall item_ok items -> final_ok c ->
  prun u PGround (intro ++ map item_char items ++ c :: rest) =
  (fst (prun u PGround rest),
   (ctl_events items ++ csi_dispatch c (map param_of (fields items)) (has_q items)) ++ snd (prun u PGround rest)).
Proof. exact csi_sequence. Qed.
(* empty = 0, otherwise min(decimal value, 9999) — for digit strings of any length (no machine-integer limit) *)
Theorem C03_parameter_value : forall ds, param_of ds = match ds with [] => 0 | _ => N.min (dec_val 0 ds) 9999 end.
Proof. exact param_of_spec. Qed.
Theorem C03_CSI_aborted_by_CAN_SUB : forall u intro items c rest, In intro csi_intros -> Forall item_ok items -> (c = CAN \/ c = SUB) ->
  prun u PGround (intro ++ map item_char items ++ c :: rest) =
  (fst (prun u PGround rest), (ctl_events items ++ [ODraw [c]]) ++ snd (prun u PGround rest)).
Proof. exact csi_aborted. Qed.
Theorem C03_CSI_dollar_skipped : forall u intro items x rest, In intro csi_intros -> Forall item_ok items ->
  prun u PGround (intro ++ map item_char items ++ 36 :: x :: rest) =
  (fst (prun u PGround rest), ctl_events items ++ snd (prun u PGround rest)).
Proof. exact csi_dollar. Qed.

(* OSC (ESC ] or U+009D) ... terminated by BEL, U+009C or ESC \ ; OSC R and OSC P+7 are consumed silently *)
Theorem C03_OSC : forall u intro code p term rest,
  In intro osc_intros -> code <> 82 -> code <> 80 -> payload p -> In term osc_terms ->
  prun u PGround (intro ++ code :: 59 :: p ++ term ++ rest) =
  (fst (prun u PGround rest),
   ((if (code =? 48) || (code =? 49) then [OIcon p] else []) ++ (if (code =? 48) || (code =? 50) then [OTitle p] else []))
   ++ snd (prun u PGround rest)).
Proof. exact osc_sequence. Qed.
Theorem C03_OSC_R_P : forall u intro rest, In intro osc_intros ->
  prun u PGround (intro ++ 82 :: rest) = prun u PGround rest /\
  (forall a b c d e f g, prun u PGround (intro ++ 80 :: a :: b :: c :: d :: e :: f :: g :: rest) = prun u PGround rest).
Proof. exact osc_R_and_P. Qed.

(* unknown finals are consumed without effect: the dispatch tables map them to no operation *)
Theorem C03_unknown_finals_have_no_effect :
  escape_dispatch 120 = [] /\ csi_dispatch 122 [5] false = [] /\ basic_dispatch 0 = [].
Proof. repeat split. Qed.
(* liveness: no state of the recogniser is a sink *)
Theorem C03_no_sink_state : forall u st, exists input, fst (prun u st input) = PGround.
Proof. exact no_sink_state. Qed.
(* the constants of the CURRENT source are the documented ones (regenerated, kernel-checked every run) *)
Theorem C03_constants_of_the_source : GenTables.g_basic = map TablesOk_C03.one basic_ctrls /\ GenTables.g_osc_terminators = osc_terminators.
Proof. pose proof TablesOk_C03.tables_ok_C03 as H. intuition. Qed.

(* the glue to the screen: Parser::feed applies exactly the recogniser's events, in order; hence a complete CSI sequence
   fed from the ground state (in any chunking, C02) performs its embedded controls and then exactly its dispatched operation *)
Theorem C03_feed_applies_the_events_in_order : forall wid is_comb nfc cs w,
  feed_chars wid is_comb nfc w cs =
  mkW (fold_left (step wid is_comb nfc) (snd (prun (w_utf8 w) (w_pst w) cs)) (w_scr w)) (fst (prun (w_utf8 w) (w_pst w) cs)) (w_utf8 w) (w_dec w).
Proof. exact feed_chars_events. Qed.
Theorem C03_CSI_end_to_end : forall wid is_comb nfc w intro items c, w_pst w = PGround -> In intro csi_intros -> Forall item_ok items -> final_ok c ->
  let w' := feed_chars wid is_comb nfc w (intro ++ map item_char items ++ [c]) in
  w_scr w' = fold_left (step wid is_comb nfc) (ctl_events items ++ csi_dispatch c (map param_of (fields items)) (has_q items)) (w_scr w) /\ w_pst w' = PGround.
Proof. exact e2e_csi. Qed.

Example C03_example : snd (prun true PGround [27; 91; 63; 50; 53; 59; 10; 49; 104; 65]) = [OLinefeed; OSm [25; 1] true; ODraw [65]].
Proof. vm_compute. reflexivity. Qed.

Print Assumptions C03_text_delivered_once_in_order.
Print Assumptions C03_C0_controls.
Print Assumptions C03_ESC_final.
Print Assumptions C03_CSI.
Print Assumptions C03_parameter_value.
Print Assumptions C03_CSI_aborted_by_CAN_SUB.
Print Assumptions C03_CSI_dollar_skipped.
Print Assumptions C03_OSC.
Print Assumptions C03_OSC_R_P.
Print Assumptions C03_no_sink_state.
Print Assumptions C03_constants_of_the_source.
Print Assumptions C03_feed_applies_the_events_in_order.
Print Assumptions C03_CSI_end_to_end.
