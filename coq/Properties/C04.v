(* C04 — printable text is rendered at the cursor with the current rendition. *)
From Coq Require Import NArith List Bool.
From MT Require Import Lib Types Tables Screen Spec Stmt.
From MT.Proofs Require Import WF Aeq P05 CongrMore SpecAll RefineModes RefineDraw RefineAll P04.
Import ListNotations.
Open Scope N_scope.

(* the code model of Screen::draw (per-character loop, sparse rows, cariage_return + linefeed for the wrap,
   insert_characters for IRM, NFC re-normalisation for combining marks) refines the spec below in every
   well-formed state, for every text, every width oracle and every normalisation oracle *)
Theorem C04_code_refines_spec : forall wid is_comb nfc (s : screen) (t : str), WF s -> SCm s ->
  Aeq (abs (step wid is_comb nfc s (ODraw t))) (a_draw wid is_comb nfc (abs s) t) /\ WF (step wid is_comb nfc s (ODraw t)).
Proof. intros wid is_comb nfc s t W SC. destruct (refine_step wid is_comb nfc s (ODraw t) W SC I) as [A [W' _]]. split; assumption. Qed.
Theorem C04_text_is_drawn_char_by_char : forall wid is_comb nfc (a : astate) (t : str),
  a_draw wid is_comb nfc a t =
  (let a' := fold_left (a_draw_char wid is_comb nfc) (map (a_translate a) t) a in a_dirty_add a' (ay a')).
Proof. exact c04_text. Qed.
Theorem C04_narrow : forall wid is_comb nfc (a : astate) (ch : cp), wid ch = 1 -> ax a < a_cols a -> amode a IRM = false ->
  a_draw_char wid is_comb nfc a ch = a_x (a_put a (ay a) (ax a) (with_data (aattr a) [ch])) (N.min (ax a + 1) (a_cols a)).
Proof. exact c04_narrow. Qed.
Theorem C04_wide : forall wid is_comb nfc (a : astate) (ch : cp), wid ch = 2 -> ax a < a_cols a -> amode a IRM = false ->
  a_draw_char wid is_comb nfc a ch =
  let a1 := a_put a (ay a) (ax a) (with_data (aattr a) [ch]) in
  a_x (if ax a + 1 <? a_cols a then a_put a1 (ay a) (ax a + 1) (with_data (aattr a) []) else a1) (N.min (ax a + 2) (a_cols a)).
Proof. exact c04_wide. Qed.
Theorem C04_combining : forall wid is_comb nfc (a : astate) (ch : cp), wid ch = 0 -> is_comb ch = true -> 0 < ax a < a_cols a ->
  a_draw_char wid is_comb nfc a ch =
  a_put a (ay a) (ax a - 1) (with_data (a_grid a (ay a) (ax a - 1)) (nfc (c_data (a_grid a (ay a) (ax a - 1))) ++ [ch])).
Proof. exact c04_combining. Qed.
Theorem C04_combining_at_column_0 : forall wid is_comb nfc (a : astate) (ch : cp),
  wid ch = 0 -> is_comb ch = true -> ax a = 0 -> 0 < a_cols a -> 0 < ay a ->
  a_draw_char wid is_comb nfc a ch = a_dirty_add (a_put a (ay a - 1) (a_cols a - 1)
     (with_data (a_grid a (ay a - 1) (a_cols a - 1)) (nfc (c_data (a_grid a (ay a - 1) (a_cols a - 1))) ++ [ch]))) (ay a - 1).
Proof. exact c04_combining_prev_row. Qed.
Theorem C04_zero_width_changes_nothing : forall wid is_comb nfc (a : astate) (ch : cp),
  wid ch = 0 -> is_comb ch = false -> (ax a <> a_cols a \/ amode a DECAWM = false) -> a_draw_char wid is_comb nfc a ch = a.
Proof. exact c04_zero_width_ignored. Qed.
Theorem C04_wrap_with_DECAWM : forall wid is_comb nfc (a : astate) (ch : cp), ax a = a_cols a -> amode a DECAWM = true ->
  a_draw_char wid is_comb nfc a ch = a_draw_char wid is_comb nfc (a_linefeed (a_cr (a_dirty_add a (ay a)))) ch \/ a_cols a = 0.
Proof. exact c04_wrap_on. Qed.
Theorem C04_no_wrap_without_DECAWM : forall wid is_comb nfc (a : astate) (ch : cp),
  ax a = a_cols a -> amode a DECAWM = false -> 0 < wid ch -> wid ch <= a_cols a ->
  a_draw_char wid is_comb nfc a ch = a_draw_char wid is_comb nfc (a_x a (a_cols a - wid ch)) ch.
Proof. exact c04_wrap_off. Qed.
Theorem C04_insert_mode_shifts_first : forall wid is_comb nfc (a : astate) (ch : cp), ax a <> a_cols a -> amode a IRM = true -> 0 < wid ch ->
  a_draw_char wid is_comb nfc a ch =
  (let a2 := a_ich a (Some (wid ch)) in let a3 := place is_comb nfc a2 ch (wid ch) in a_x a3 (N.min (ax a3 + wid ch) (a_cols a3))).
Proof. exact c04_insert_mode. Qed.
Theorem C04_no_other_cell_changes : forall wid is_comb nfc (a : astate) (ch : cp) (r c : N), ax a <> a_cols a -> amode a IRM = false ->
  ~ (r = ay a /\ (c = ax a \/ c = ax a + 1 \/ c = ax a - 1)) -> ~ (r = ay a - 1 /\ c = a_cols a - 1 /\ ax a = 0) ->
  a_grid (a_draw_char wid is_comb nfc a ch) r c = a_grid a r c.
Proof. exact c04_other_cells. Qed.
Theorem C04_nothing_else_changes : forall wid is_comb nfc (a : astate) (t : str), same_rest a (a_draw wid is_comb nfc a t).
Proof. exact c04_frame. Qed.

Print Assumptions C04_code_refines_spec.
Print Assumptions C04_narrow.
Print Assumptions C04_wide.
Print Assumptions C04_combining.
Print Assumptions C04_wrap_with_DECAWM.
Print Assumptions C04_no_other_cell_changes.
Print Assumptions C04_nothing_else_changes.
