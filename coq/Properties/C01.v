(* C01 — no input can crash, hang or wedge the emulator: the part a Gallina model can carry.
   PARTIAL: these theorems are about the model (total functions over unbounded N). They establish that the LOGIC
   never wedges: every function of the pipeline terminates on every input (they are Coq functions), the screen
   invariant holds after every byte stream / chunking / API history, the recogniser has no sink state and delivers
   only legal operations with parameters <= 9999. They do NOT speak about Rust-level panics (u32 overflow, unwrap,
   slice index, poisoned mutex) or the generator coroutine: those are decided by the overflow-checked differential
   run with a per-case watchdog (see DESIGN.md), whose agreement with this model on every step is what transfers the
   invariant below to the implementation's states. *)
From Coq Require Import NArith List Bool Lia.
From MT Require Import Lib Types Tables Screen Parser Utf8 World Safe Spec Stmt.
From MT.Gen Require GenTables.
From MT.Proofs Require Import WF Aeq P05 CongrMore SpecAll RefineModes RefineAll RunAll Stream Recog P01 P01Tables PSafe.
Import ListNotations.
Open Scope N_scope.

(* every history of byte chunks (UTF-8 or 8-bit mode), character chunks, charset-mode switches, API calls (resize only
   to >= 1x1) and dirty-clears from Screen::new(cols, lines), cols, lines >= 1: the invariant WF holds at the end
   (cursor inside the grid, margins ordered and inside, dirty and stored cells inside the grid, ...) *)
Theorem C01_pipeline_invariant : forall wid is_comb nfc cols lns (os : list wop), 1 <= cols -> 1 <= lns -> Forall wop_ok os ->
  WF (w_scr (wrun wid is_comb nfc (winit cols lns) os)) /\ SCm (w_scr (wrun wid is_comb nfc (winit cols lns) os)).
Proof. exact world_invariant. Qed.
(* direct API histories, arguments arbitrary (in particular absent or 0..=9999), resize >= 1x1 *)
Theorem C01_api_invariant : forall wid is_comb nfc c l (os : list op), 1 <= c -> 1 <= l -> Forall args_ok os ->
  WF (run wid is_comb nfc (init c l) os) /\ SCm (run wid is_comb nfc (init c l) os).
Proof. exact invariant_from_new. Qed.
(* the recogniser only ever delivers legal operations (never a resize), whatever state and character *)
Theorem C01_recogniser_delivers_legal_operations : forall u st c, forallb no_resize (snd (pstep u st c)) = true.
Proof. exact pstep_nr. Qed.
(* ... with every numeric parameter capped at 9999 (digit strings of any length) *)
Theorem C01_parameters_capped : forall ds, param_of ds <= 9999.
Proof. intros ds. rewrite param_of_spec. destruct ds; [discriminate|apply N.le_min_r]. Qed.
(* no state of the recogniser is a sink: some input always brings it back to ground (never wedged) *)
Theorem C01_no_sink_state : forall u st, exists input, fst (prun u st input) = PGround.
Proof. exact no_sink_state. Qed.
(* how the input is cut into feed() calls is irrelevant — so "every chunking" reduces to "every stream" *)
Theorem C01_chunking_irrelevant : forall wid is_comb nfc w (chunks : list (list N)),
  fold_left (feed_bytes wid is_comb nfc) chunks w = feed_bytes wid is_comb nfc w (concat chunks).
Proof. exact feed_bytes_chunks. Qed.
(* display() is a total function of the state whose only effect on it is invisible (C10_display_is_pure), so it can be
   interleaved at arbitrary points without affecting any of the above. *)

(* facts that the Rust text's unchecked operations rely on, as theorems: (1) `self.columns - 1`, `self.lines - 1` (ensure_hbounds,
   ensure_vbounds, index, reverse_index, IL/DL, tab, draw, set_margins) need columns, lines >= 1 — a clause of WF, proved above for
   every reachable state; (2) `g0_charset[c as usize]` / `g1_charset[..]` for c <= 255 need 256-entry tables, `FG_BG_256[m]` is
   guarded by its length, `attr_str[1..]` needs non-empty strings in TEXT — kernel-checked on the tables of the current source;
   (3) sums such as cursor.x + count, y + count, x + 1 fit in u32 when columns, lines <= 2^32 - 10^4 and arguments <= 9999.
   The remaining subtractions are saturating or sit under their own `if a >= b` / `if x > 0` guard. (The list of sites is by
   inspection of src/screen.rs — DESIGN.md section 7, C01 — and is cross-checked only dynamically.) *)
Theorem C01_geometry_at_least_one : forall s, WF s -> 1 <= columns s /\ 1 <= lines s.
Proof. intros s W. split; [exact (wf_cols s W)|exact (wf_lines s W)]. Qed.
Theorem C01_index_tables_of_the_source : length GenTables.g_lat1 = 256%nat /\ length GenTables.g_vt100 = 256%nat /\ length GenTables.g_ibmpc = 256%nat /\ length GenTables.g_vax42 = 256%nat /\ length GenTables.g_palette = 256%nat /\ forallb (fun e : N * list N => match snd e with [] => false | _ => true end) GenTables.g_text = true.
Proof. destruct charset_tables_have_256_entries as [a [b [c d]]]. pose proof palette_has_256_entries. pose proof text_table_strings_nonempty. repeat split; assumption. Qed.
Theorem C01_sums_fit_in_u32 : forall s n, WF s -> columns s + 10000 <= 4294967296 -> lines s + 10000 <= 4294967296 -> n <= 9999 ->
  cx s + n < 4294967296 /\ cy s + n < 4294967296 /\ cx s + 1 < 4294967296 /\ cy s + 1 < 4294967296.
Proof. intros s n W Hc Hl Hn. pose proof (wf_x s W). pose proof (wf_y s W). repeat split; Lia.lia. Qed.


(* ---- the arithmetic half as theorems: Safe.v lists, function by function, the condition under which no *checked* u32 / i32
   operation of src/screen.rs fails on the executed path ([step_ok s o], [init_ok c l]; `wrun_ok` is the same along a history
   through decoder and recogniser). These hold for every history that C01 quantifies over, for any number of columns and up to
   BND = 2^31 - 10000 lines: Screen::new and every operation performed are free of overflow, underflow and `as i32 - 1` panics.
   wid is the display-width oracle (unicode-width returns 0, 1 or 2 — the only assumption about it). *)
Theorem C01_no_checked_operation_fails : forall wid is_comb nfc, (forall c, wid c <= 2) -> forall cols lns (os : list wop),
  1 <= cols -> 1 <= lns <= BND -> Forall wop_small os ->
  init_ok cols lns = true /\ wrun_ok wid is_comb nfc (winit cols lns) os = true.
Proof. exact world_safe. Qed.
Theorem C01_api_no_checked_operation_fails : forall wid is_comb nfc, (forall c, wid c <= 2) -> forall c l (os : list op),
  1 <= c -> 1 <= l <= BND -> Forall op_small os ->
  init_ok c l = true /\ all_ok wid is_comb nfc (init c l) os = true.
Proof. exact api_safe. Qed.
(* one step, from any well-formed state (not only reachable ones) *)
Theorem C01_every_operation_safe : forall wid is_comb nfc, (forall c, wid c <= 2) -> forall s o,
  WF s -> SCm s -> Bn s -> op_small o -> step_ok wid is_comb nfc s o = true.
Proof. exact step_safe. Qed.
(* the bound that makes the above possible is itself kept by every operation *)
Theorem C01_geometry_bound_is_invariant : forall wid is_comb nfc s o, WF s -> Bn s -> op_small o -> Bn (step wid is_comb nfc s o).
Proof. exact Bn_step. Qed.
(* the recogniser only delivers operations with small arguments, from any state it can be in *)
Theorem C01_recogniser_delivers_small_arguments : forall u st c, pst_small st ->
  pst_small (fst (pstep u st c)) /\ Forall op_small (snd (pstep u st c)).
Proof. exact pstep_small. Qed.
(* non-vacuity: the premises are met by a concrete state, and the conditions are not trivially true — outside the contract they fail
   exactly where the Rust text panics (checked against the real crate on every run, see DESIGN.md) *)
Example C01_premises_hold_somewhere : WF (init 80 24) /\ SCm (init 80 24) /\ Bn (init 80 24).
Proof.
  assert (H1 : 1 <= 80) by Lia.lia. assert (H2 : 1 <= 24 <= BND) by (unfold BND; Lia.lia).
  destruct (SInv_init 80 24 H1 H2) as [a b c]. split; [exact a|split; [exact b|exact c]].
Qed.
Example C01_conditions_fail_outside_the_contract :
  step_ok (fun _ => 1) (fun _ => false) (fun x => x) (init 80 24) (OCup (Some 2147483648) None) = false /\
  step_ok (fun _ => 1) (fun _ => false) (fun x => x) (step (fun _ => 1) (fun _ => false) (fun x => x) (init 80 24) (OCup (Some 5) None)) (OCud (Some 4294967295)) = false /\
  step_ok (fun _ => 1) (fun _ => false) (fun x => x) (init 80 24) (OResize (Some 0) None) = false /\
  init_ok 0 24 = false /\ init_ok 80 0 = false.
Proof. vm_compute. repeat split. Qed.

Print Assumptions C01_pipeline_invariant.
Print Assumptions C01_api_invariant.
Print Assumptions C01_recogniser_delivers_legal_operations.
Print Assumptions C01_parameters_capped.
Print Assumptions C01_no_sink_state.
Print Assumptions C01_chunking_irrelevant.
Print Assumptions C01_index_tables_of_the_source.
Print Assumptions C01_sums_fit_in_u32.
Print Assumptions C01_no_checked_operation_fails.
Print Assumptions C01_api_no_checked_operation_fails.
Print Assumptions C01_every_operation_safe.
Print Assumptions C01_geometry_bound_is_invariant.
Print Assumptions C01_recogniser_delivers_small_arguments.
Print Assumptions C01_premises_hold_somewhere.
Print Assumptions C01_conditions_fail_outside_the_contract.
