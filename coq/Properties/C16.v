(* C16 — resize() preserves overlapping content and leaves a well-formed screen. *)
From Coq Require Import NArith List Bool.
From MT Require Import Lib Types Tables Screen Spec Stmt.
From MT.Proofs Require Import WF Aeq RefineResize P05 CongrMore P16.
Open Scope N_scope.

(* the code's save-cursor / home / delete-lines / restore-cursor dance for rows and per-row truncation for
   columns computes the closed form below and leaves NO row at or beyond the new `lines` and NO cell at or beyond
   the new `columns` in storage (WF), for every well-formed state (any region, DECOM, pending-wrap cursor) and every
   target size >= 1x1 *)
Theorem C16_code_refines_spec : forall (s : screen) (l c : option N), WF s ->
  (match l with Some v => 1 <= v | None => True end) -> (match c with Some v => 1 <= v | None => True end) ->
  Aeq (abs (resize s l c)) (a_resize (abs s) l c) /\ WF (resize s l c).
Proof. exact resize_spec. Qed.

(* overlapping content keeps its place: rows dropped from the top (remaining rows move up), columns from the right,
   added rows blank at the bottom, added columns blank at the right; region reset; every row dirty; cursor clamped;
   everything else untouched *)
Theorem C16_resize : forall (a : astate) (l c : option N),
  let L := match l with Some v => v | None => a_lines a end in
  let C := match c with Some v => v | None => a_cols a end in
  (L =? a_lines a) && (C =? a_cols a) = false ->
  let a' := a_resize a l c in let d := a_lines a - L in
  a_lines a' = L /\ a_cols a' = C /\
  (forall r cc, a_grid a' r cc = if (r + d <? a_lines a) && (cc <? a_cols a) then a_grid a (r + d) cc else adc a) /\
  a_margins a' = None /\ (forall y, nmem y (a_dirty a') = (y <? L)) /\
  ax a' = N.min (if L <? a_lines a then N.min (ax a) (a_cols a - 1) else ax a) (C - 1) /\ ay a' = N.min (ay a) (L - 1) /\
  aattr a' = aattr a /\ a_mode a' = a_mode a /\ a_tabs a' = a_tabs a /\ a_sp a' = a_sp a /\ a_title a' = a_title a /\ a_icon a' = a_icon a /\
  a_cs a' = a_cs a /\ a_g0 a' = a_g0 a /\ a_g1 a' = a_g1 a.
Proof. exact c16_changed. Qed.
Theorem C16_cursor_ends_inside : forall (a : astate) (l c : option N), AWF a ->
  (match l with Some v => 1 <= v | None => True end) -> (match c with Some v => 1 <= v | None => True end) -> AWF (a_resize a l c).
Proof. exact AWF_resize. Qed.
(* resizing to the current size is a complete no-op: the same state, in the specification and in the code's model *)
Theorem C16_same_size_is_noop : forall (s : screen) (l c : option N),
  (match l with Some v => v | None => lines s end =? lines s) && (match c with Some v => v | None => columns s end =? columns s) = true ->
  resize s l c = s.
Proof. exact c16_same_size_code. Qed.
(* content discarded by a shrink never reappears when the screen grows again *)
Theorem C16_discarded_content_never_reappears : forall (a : astate) l1 c1 l2 c2 r cc,
  (l1 =? a_lines a) && (c1 =? a_cols a) = false -> (l2 =? l1) && (c2 =? c1) = false -> l1 <= l2 ->
  (c1 <= cc \/ l1 <= r) ->
  a_grid (a_resize (a_resize a (Some l1) (Some c1)) (Some l2) (Some c2)) r cc = adc a.
Proof. exact c16_regrow. Qed.

Print Assumptions C16_code_refines_spec.
Print Assumptions C16_resize.
Print Assumptions C16_cursor_ends_inside.
Print Assumptions C16_same_size_is_noop.
Print Assumptions C16_discarded_content_never_reappears.
