(* C14 — DECSC/DECRC save and restore the cursor state as a LIFO stack. *)
From Coq Require Import NArith List Bool.
From MT Require Import Lib Types Tables Screen Spec Stmt.
From MT.Proofs Require Import WF Aeq RefineSimple RefineRestore SpecAll RefineModes RefineAll P14.
Import ListNotations.
Open Scope N_scope.

(* the code (incl. restore_cursor's detour through set_mode/reset_mode and cursor_position) refines the spec *)
Theorem C14_code_refines_spec : forall wid is_comb nfc (s : screen) (o : op), WF s -> SCm s -> (o = OSave \/ o = ORestore) ->
  Aeq (abs (step wid is_comb nfc s o)) (astep wid is_comb nfc (abs s) o) /\ WF (step wid is_comb nfc s o).
Proof.
  intros wid is_comb nfc s o W SC [-> | ->].
  - destruct (refine_step wid is_comb nfc s OSave W SC I) as [A [W' _]]; split; assumption.
  - destruct (refine_step wid is_comb nfc s ORestore W SC I) as [A [W' _]]; split; assumption.
Qed.
Theorem C14_DECSC_pushes : forall wid is_comb nfc (a : astate),
  astep wid is_comb nfc a OSave =
  a_with_sp a (mkSave (a_cur a) (a_g0 a) (a_g1 a) (a_cs a) (amode a DECOM) (amode a DECAWM) :: a_sp a).
Proof. exact c14_save. Qed.
(* restoring reinstates position (clamped into the current screen and region), rendition, visibility, G0/G1/shift
   state, and re-enables origin mode / autowrap if they were on when saved; content, margins, tab stops untouched *)
Theorem C14_DECRC_pops : forall wid is_comb nfc (a : astate) sp rest, a_sp a = sp :: rest ->
  let a' := astep wid is_comb nfc a ORestore in
  a_sp a' = rest /\ a_cs a' = sp_charset sp /\ a_g0 a' = sp_g0 sp /\ a_g1 a' = sp_g1 sp /\
  aattr a' = cu_attr (sp_cursor sp) /\ cu_hidden (a_cur a') = cu_hidden (sp_cursor sp) /\
  ax a' = N.min (cu_x (sp_cursor sp)) (a_cols a - 1) /\
  ay a' = (match a_margins a with Some (t, b) => N.min (N.max (cu_y (sp_cursor sp)) t) b
                                | None => N.min (N.max (cu_y (sp_cursor sp)) 0) (a_lines a - 1) end) /\
  (forall m, amode a' m = ((sp_origin sp && (m =? DECOM)) || (sp_wrap sp && (m =? DECAWM)) || amode a m)) /\
  a_grid a' = a_grid a /\ a_margins a' = a_margins a /\ a_tabs a' = a_tabs a /\ a_cols a' = a_cols a /\ a_lines a' = a_lines a.
Proof. exact c14_restore_pop. Qed.
(* DECSC immediately followed by DECRC changes nothing — except that a pending-wrap cursor returns in the last column and a
   cursor outside the scrolling region returns inside it (restore clamps into the region) *)
Theorem C14_save_then_restore : forall wid is_comb nfc (a : astate),
  let a' := astep wid is_comb nfc (astep wid is_comb nfc a OSave) ORestore in
  a_sp a' = a_sp a /\ a_cs a' = a_cs a /\ a_g0 a' = a_g0 a /\ a_g1 a' = a_g1 a /\ aattr a' = aattr a /\
  cu_hidden (a_cur a') = cu_hidden (a_cur a) /\ ax a' = N.min (ax a) (a_cols a - 1) /\
  ay a' = (match a_margins a with Some (t, b) => N.min (N.max (ay a) t) b | None => N.min (N.max (ay a) 0) (a_lines a - 1) end) /\
  (forall m, amode a' m = amode a m) /\
  a_grid a' = a_grid a /\ a_margins a' = a_margins a /\ a_tabs a' = a_tabs a /\ a_cols a' = a_cols a /\ a_lines a' = a_lines a.
Proof. exact c14_round_trip. Qed.
Theorem C14_DECRC_on_empty_stack : forall wid is_comb nfc (a : astate), a_sp a = [] ->
  astep wid is_comb nfc a ORestore = a_cup (a_with_mode a (nrem DECOM (a_mode a))) None None.
Proof. exact c14_restore_empty. Qed.
(* no other operation touches the stack — so nested saves are restored in reverse order, for any number of saves
   and any operations in between (movement, SGR, SO/SI, designation, modes, margins, resize, drawing ...) *)
Theorem C14_only_DECSC_DECRC_touch_the_stack : forall wid is_comb nfc (a : astate) (o : op),
  (match o with OSave | ORestore => False | _ => True end) -> a_sp (astep wid is_comb nfc a o) = a_sp a.
Proof. exact c14_stack_untouched. Qed.
Theorem C14_LIFO : forall wid is_comb nfc (a : astate) (ops : list op), Forall no_save_restore ops ->
  a_sp (arun wid is_comb nfc (astep wid is_comb nfc a OSave) ops) =
  mkSave (a_cur a) (a_g0 a) (a_g1 a) (a_cs a) (amode a DECOM) (amode a DECAWM) :: a_sp a.
Proof. exact c14_lifo. Qed.

Print Assumptions C14_code_refines_spec.
Print Assumptions C14_DECRC_pops.
Print Assumptions C14_only_DECSC_DECRC_touch_the_stack.
Print Assumptions C14_LIFO.
Print Assumptions C14_save_then_restore.
