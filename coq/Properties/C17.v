(* C17 — the dirty set covers every row whose appearance changed. *)
From Coq Require Import NArith List Bool.
From MT Require Import Lib Types Tables Screen Spec Stmt.
From MT.Proofs Require Import WF Aeq P05 CongrMore SpecAll RefineModes RefineAll RunAll P17.
Import ListNotations.
Open Scope N_scope.

(* Upd a a' :=  every row of a' is marked
             \/ (same geometry /\ the set only grew /\ every row NOT marked in a' has exactly the cells it had in a)  *)
Theorem C17_every_operation : forall wid is_comb nfc (a : astate) (o : op), AWF a ->
  (forall r, r < a_lines (astep wid is_comb nfc a o) -> nmem r (a_dirty (astep wid is_comb nfc a o)) = true) \/
  (a_lines (astep wid is_comb nfc a o) = a_lines a /\ a_cols (astep wid is_comb nfc a o) = a_cols a /\
   (forall r, nmem r (a_dirty a) = true -> nmem r (a_dirty (astep wid is_comb nfc a o)) = true) /\
   (forall r c, nmem r (a_dirty (astep wid is_comb nfc a o)) = false -> a_grid (astep wid is_comb nfc a o) r c = a_grid a r c)).
Proof. exact upd_astep. Qed.
(* between two moments at which the embedder clears the set — for ANY initial set, any history of operations
   (through the code model: sparse rows, loops), any geometry: a row that is not marked at the end shows exactly the
   cells it showed at the start *)
Theorem C17_between_two_clears : forall wid is_comb nfc (s : screen) (os : list op), WF s -> SCm s -> Forall args_ok os ->
  let s' := run wid is_comb nfc s os in
  (forall r, r < lines s' -> nmem r (dirty s') = true) \/
  (lines s' = lines s /\ columns s' = columns s /\
   (forall r, nmem r (dirty s) = true -> nmem r (dirty s') = true) /\
   (forall r c, r < lines s' -> c < columns s' -> nmem r (dirty s') = false -> cellv s' r c = cellv s r c)).
Proof. exact c17_model_history. Qed.
Theorem C17_clearing_is_harmless : forall (s : screen), WF s -> WF (set_dirty s []) /\ SCm (set_dirty s []) = SCm s.
Proof. exact WF_clear_dirty. Qed.
(* a resize or a screen-wide change marks every row *)
Theorem C17_resize_marks_all : forall wid is_comb nfc (a : astate) l c,
  (match l with Some v => v | None => a_lines a end =? a_lines a) && (match c with Some v => v | None => a_cols a end =? a_cols a) = false ->
  alld (astep wid is_comb nfc a (OResize l c)).
Proof. exact c17_resize. Qed.
Theorem C17_reset_alignment_mark_all : forall wid is_comb nfc (a : astate), alld (astep wid is_comb nfc a OReset) /\ alld (astep wid is_comb nfc a OAlign).
Proof. intros. split; [apply c17_reset|apply c17_decaln]. Qed.
Theorem C17_reverse_video_marks_all : forall (a : astate) (ms : list N) (p on : bool),
  nmem DECSCNM (if p then map (fun m : N => m * 32) ms else ms) = true -> alld (a_set_mode a ms p on).
Proof. exact (c17_decscnm (fun _ => 0) (fun _ => false) (fun x => x)). Qed.
Theorem C17_scroll_marks_all : forall wid is_comb nfc (a : astate) t b, atb a = (t, b) ->
  (ay a = b -> alld (astep wid is_comb nfc a OIndex)) /\ (ay a = t -> alld (astep wid is_comb nfc a ORevIndex)).
Proof. intros. split; [apply (c17_scroll_up wid is_comb nfc a t b)|apply (c17_scroll_down wid is_comb nfc a t b)]; assumption. Qed.
(* the set never contains an index that is not a row of the current screen: after every operation on a well-formed
   state, hence in every state reachable from Screen::new *)
Theorem C17_indices_are_rows : forall wid is_comb nfc (s : screen) (o : op), WF s -> SCm s -> args_ok o ->
  forall y, nmem y (dirty (step wid is_comb nfc s o)) = true -> y < lines (step wid is_comb nfc s o).
Proof. exact c17_model_bounds. Qed.
Theorem C17_indices_are_rows_reachable : forall wid is_comb nfc c l (os : list op), 1 <= c -> 1 <= l -> Forall args_ok os ->
  forall y, nmem y (dirty (run wid is_comb nfc (init c l) os)) = true -> y < lines (run wid is_comb nfc (init c l) os).
Proof. exact c17_model_bounds_run. Qed.

Print Assumptions C17_every_operation.
Print Assumptions C17_between_two_clears.
Print Assumptions C17_resize_marks_all.
Print Assumptions C17_reverse_video_marks_all.
Print Assumptions C17_indices_are_rows.
Print Assumptions C17_indices_are_rows_reachable.
