(* C20 — character-set translation (G0/G1, SO/SI, DEC graphics, CP437). *)
From Coq Require Import NArith List Bool.
From MT Require Import Lib Types Charsets Tables Screen Parser Spec Stmt.
From MT.Proofs Require Import WF Aeq P05 CongrMore SpecAll RefineModes RefineAll Stream Recog P04 P20.
From MT Require TablesOk_C20.
Import ListNotations.
Open Scope N_scope.

(* the code model of draw's per-character lookup, shift_in/shift_out and define_charset refines the spec *)
Theorem C20_code_refines_spec : forall wid is_comb nfc (s : screen) (o : op), WF s -> SCm s ->
  (match o with OShiftOut | OShiftIn | ODefCharset _ _ | ODraw _ => True | _ => False end) ->
  Aeq (abs (step wid is_comb nfc s o)) (astep wid is_comb nfc (abs s) o) /\ WF (step wid is_comb nfc s o).
Proof.
  intros wid is_comb nfc s o W SC H.
  assert (A : args_ok o) by (destruct o; try contradiction; exact I).
  destruct (refine_step wid is_comb nfc s o W SC A) as [R [W' _]]. split; assumption.
Qed.
(* every drawn code point goes through the active set iff it is <= 255 *)
Theorem C20_draw_translates_first : forall wid is_comb nfc (a : astate) (t : str),
  a_draw wid is_comb nfc a t =
  (let a' := fold_left (a_draw_char wid is_comb nfc) (map (a_translate a) t) a in a_dirty_add a' (ay a')).
Proof. exact c04_text. Qed.
Theorem C20_translation : forall (a : astate) (c : cp), a_translate a c = if 255 <? c then c else translate (active a) c.
Proof. exact c20_translate. Qed.
Theorem C20_above_255_untranslated : forall (a : astate) (c : cp), 255 < c -> a_translate a c = c.
Proof. exact c20_above_255. Qed.
(* initial sets: G0 = Latin-1 (identity), G1 = DEC special graphics, G0 active; the same after RIS *)
Theorem C20_initial_sets : forall cols lns, a_cs (a_init cols lns) = G0 /\ a_g0 (a_init cols lns) = Lat1 /\ a_g1 (a_init cols lns) = Vt100.
Proof. exact c20_initial. Qed.
Theorem C20_latin1_is_identity : forall c, translate Lat1 c = c.
Proof. exact c20_latin1. Qed.
Theorem C20_dec_graphics_replaces_5f_7e : forall c, 95 <= c <= 126 -> translate Vt100 c <> c /\ 160 <= translate Vt100 c.
Proof. exact c20_dec_graphics. Qed.
Theorem C20_dec_graphics_elsewhere : forall c, c < 256 -> ~ (95 <= c <= 126) -> nmem c [43; 44; 45; 46; 48] = false -> translate Vt100 c = c.
Proof. exact c20_dec_graphics_rest. Qed.
(* SO selects G1, SI selects G0 (the designated tables stay) *)
Theorem C20_SO_SI : forall wid is_comb nfc (a : astate),
  astep wid is_comb nfc a OShiftOut = a_with_cs a G1 (a_g0 a) (a_g1 a) /\ astep wid is_comb nfc a OShiftIn = a_with_cs a G0 (a_g0 a) (a_g1 a) /\
  active (astep wid is_comb nfc a OShiftOut) = a_g1 a /\ active (astep wid is_comb nfc a OShiftIn) = a_g0 a.
Proof. intros. repeat split. Qed.
(* designation: B 0 U V with `(` -> G0, with `)` -> G1; any other final or intermediate: no change at all *)
Theorem C20_designator_codes :
  charset_of_code [66] = Some Lat1 /\ charset_of_code [48] = Some Vt100 /\ charset_of_code [85] = Some Ibmpc /\ charset_of_code [86] = Some Vax42.
Proof. exact c20_codes. Qed.
Theorem C20_designate : forall (a : astate) code m t, charset_of_code code = Some t ->
  a_defcs a code [40] = a_with_cs a (a_cs a) t (a_g1 a) /\ a_defcs a code [41] = a_with_cs a (a_cs a) (a_g0 a) t /\
  (m <> [40] -> m <> [41] -> a_defcs a code m = a).
Proof. exact c20_designate. Qed.
Theorem C20_unsupported_designator_ignored : forall (a : astate) code m,
  code <> [66] -> code <> [48] -> code <> [85] -> code <> [86] -> a_defcs a code m = a.
Proof. intros a code m H1 H2 H3 H4. apply c20_designate_unknown. apply c20_unknown_code; assumption. Qed.
(* through the parser: in 8-bit mode SO / SI / ESC ( f / ESC ) f reach the screen; in UTF-8 mode they are consumed silently *)
Theorem C20_parser_shifts : forall u c rest, c = SO \/ c = SI ->
  prun u PGround (c :: rest) = (fst (prun u PGround rest), (if u then [] else basic_dispatch c) ++ snd (prun u PGround rest)).
Proof.
  intros u c rest [-> | ->].
  - rewrite (c0_control u SO rest) by (cbn; tauto). destruct u; reflexivity.
  - rewrite (c0_control u SI rest) by (cbn; tauto). destruct u; reflexivity.
Qed.
Theorem C20_parser_designators : forall u f m rest, m = 40 \/ m = 41 ->
  prun u PGround (ESC :: m :: f :: rest) = (fst (prun u PGround rest), (if u then [] else [ODefCharset [f] [m]]) ++ snd (prun u PGround rest)).
Proof. intros u f m rest H. exact (proj2 (proj2 (esc_hash_pct_paren u f rest)) m H). Qed.
(* the 4 x 256 entries of the CURRENT source (regenerated from the compiled crate on every run) equal the published
   tables (Charsets.v is generated from the platform's cp437 codec and the DEC STD 070 / Linux console graphics map) *)
Theorem C20_tables_of_the_source :
  GenTables.g_lat1 = map (translate Lat1) (range 0 256) /\ GenTables.g_vt100 = map (translate Vt100) (range 0 256) /\
  GenTables.g_ibmpc = map (translate Ibmpc) (range 0 256) /\ GenTables.g_vax42 = map (translate Vax42) (range 0 256) /\
  GenTables.g_maps = [([48], 1); ([66], 0); ([85], 2); ([86], 3)].
Proof. exact TablesOk_C20.tables_ok_C20. Qed.
Example C20_example : translate Vt100 113 = 9472 /\ translate Ibmpc 176 = 9617 /\ basic_dispatch SO = [OShiftOut].
Proof. repeat split. Qed.

Print Assumptions C20_code_refines_spec.
Print Assumptions C20_translation.
Print Assumptions C20_dec_graphics_replaces_5f_7e.
Print Assumptions C20_designate.
Print Assumptions C20_unsupported_designator_ignored.
Print Assumptions C20_parser_shifts.
Print Assumptions C20_parser_designators.
Print Assumptions C20_tables_of_the_source.
