(* Extract.v — extraction of the executable model, the specification and the statement predicates.
   ExtrOcamlBasic only: bool, option, unit, list, prod, sumbool, sumor map to OCaml's; N/positive/nat
   stay Coq datatypes. *)
From Coq Require Import NArith List Bool Extraction ExtrOcamlBasic.
From MT Require Import Lib Types Charsets Tables Screen Parser Utf8 World Safe Spec Obs Stmt.
Extraction Language OCaml.
Extraction "mt.ml"
  Screen.step Screen.init Screen.display Screen.cellv Screen.default_char
  Parser.pstep Parser.prun Utf8.dstep Utf8.drun Utf8.d0 Utf8.dflush
  World.wstep World.wrun World.winit World.rec_run World.rec_step World.rinit
  Spec.astep Spec.a_display Spec.a_init
  Obs.obs_eqb Obs.raw_eqb Obs.c09b Obs.wf_internal Obs.wfb Obs.no_hidden Obs.rest_eqb Obs.grid_eqb
  Stmt.abs Stmt.aeqb Stmt.spec_ok Stmt.spec_ok_nd Stmt.dirty_ok Stmt.display_ok Stmt.dirty_covers Stmt.a_rest_eqb
  Tables.translate Tables.palette Tables.text_table Tables.fg_ansi Tables.bg_ansi Tables.fg_aixterm Tables.bg_aixterm
  Tables.default_modes Tables.special_ctrls Tables.basic_ctrls Tables.allowed_in_csi Tables.osc_terminators
  Safe.step_ok Safe.init_ok Safe.wrun_ok
  Types.s2n Lib.nseteq Lib.leqb.
