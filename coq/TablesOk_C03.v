(* TablesOk_C03.v — tie 1: every constant and table of the CURRENT source (dumped from the compiled crate
   into Gen/GenTables.v on every run) equals the documented value in Tables.v / Charsets.v.
   Each lemma is closed by kernel computation; a changed table entry in /repo makes exactly the lemma of
   the properties that depend on it fail. *)
From Coq Require Import NArith List Bool String.
From MT Require Import Lib Types Charsets Tables.
From MT.Gen Require Import GenTables.
Import ListNotations.
Open Scope N_scope.

Definition one (x : N) : list N := [x].
Definition field_name (f : tfield) : str :=
  (match f with FBold => s2n "bold" | FItalics => s2n "italics" | FUnderscore => s2n "underscore"
              | FBlink => s2n "blink" | FReverse => s2n "reverse" | FStrike => s2n "strikethrough" end)%string.
Definition text_strings : list (N * str) :=
  map (fun e : N * (tfield * bool) => (fst e, (if snd (snd e) then 43 else 45) :: field_name (fst (snd e)))) text_table.

(* C03: control characters, classes and dispatch finals *)
Theorem tables_ok_C03 :
  g_ctrl = map one [BEL; BS; HT; LF; VT; FF; CR; SO; SI; CAN; SUB; ESC; CSI_C1; OSC_C1; ST_C1; SP; GREATER] /\
  g_basic = map one basic_ctrls /\ g_allowed = map one allowed_in_csi /\
  g_osc_terminators = osc_terminators /\ g_special = map one special_ctrls /\
  g_esc_finals = map one [f_RIS; f_IND; f_NEL; f_RI; f_HTS; f_DECSC; f_DECRC; f_DECALN] /\
  g_csi_finals = map one [f_ICH; f_CUU; f_CUD; f_CUF; f_CUB; f_CNL; f_CPL; f_CHA; f_CUP; f_ED; f_EL; f_IL; f_DL;
                          f_DCH; f_ECH; f_HPR; f_DA; f_VPA; f_VPR; f_HVP; f_TBC; f_SM; f_RM; f_SGR; f_DECSTBM].
Proof. vm_compute. repeat split; reflexivity. Qed.
