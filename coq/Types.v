(* Types.v — state of the modelled emulator (mirrors src/screen.rs structs field by field). *)
From Coq Require Import NArith List Bool String Ascii.
From MT Require Import Lib.
Import ListNotations.
Open Scope N_scope.

Definition cp := N.                       (* a Unicode scalar value / a byte *)
Definition str := list cp.                (* Rust String *)
Definition s2n (s : string) : str := map N_of_ascii (list_ascii_of_string s).

(* struct CharOpts *)
Record cell := mkCell {
  c_data : str; c_fg : str; c_bg : str;
  c_bold : bool; c_italics : bool; c_underscore : bool; c_strike : bool; c_reverse : bool; c_blink : bool }.

Definition cell_eqb (a b : cell) : bool :=
  leqb (c_data a) (c_data b) && leqb (c_fg a) (c_fg b) && leqb (c_bg a) (c_bg b) &&
  Bool.eqb (c_bold a) (c_bold b) && Bool.eqb (c_italics a) (c_italics b) &&
  Bool.eqb (c_underscore a) (c_underscore b) && Bool.eqb (c_strike a) (c_strike b) &&
  Bool.eqb (c_reverse a) (c_reverse b) && Bool.eqb (c_blink a) (c_blink b).

Lemma cell_eqb_eq a b : cell_eqb a b = true <-> a = b.
Proof.
  unfold cell_eqb. destruct a, b; simpl.
  rewrite !andb_true_iff, !leqb_eq, !Bool.eqb_true_iff. split.
  - intros [[[[[[[[? ?] ?] ?] ?] ?] ?] ?] ?]. congruence.
  - intros H. inversion H. tauto.
Qed.
Lemma cell_eqb_refl a : cell_eqb a a = true. Proof. apply cell_eqb_eq. reflexivity. Qed.

Definition with_data (c : cell) (d : str) : cell :=     (* CharOpts::clone_with_data *)
  mkCell d (c_fg c) (c_bg c) (c_bold c) (c_italics c) (c_underscore c) (c_strike c) (c_reverse c) (c_blink c).
Definition with_reverse (c : cell) (b : bool) : cell :=
  mkCell (c_data c) (c_fg c) (c_bg c) (c_bold c) (c_italics c) (c_underscore c) (c_strike c) b (c_blink c).

Inductive csid := Lat1 | Vt100 | Ibmpc | Vax42.          (* the four [char;256] maps of charset.rs *)
Definition csid_eqb (a b : csid) : bool :=
  match a, b with Lat1, Lat1 | Vt100, Vt100 | Ibmpc, Ibmpc | Vax42, Vax42 => true | _, _ => false end.
Inductive gsel := G0 | G1.                              (* enum Charset *)
Definition gsel_eqb (a b : gsel) : bool := match a, b with G0, G0 | G1, G1 => true | _, _ => false end.

Record cursor := mkCursor { cu_x : N; cu_y : N; cu_attr : cell; cu_hidden : bool }.
Record savepoint := mkSave {
  sp_cursor : cursor; sp_g0 : csid; sp_g1 : csid; sp_charset : gsel; sp_origin : bool; sp_wrap : bool }.

Definition row := NMap.t cell.
Record screen := mkScreen {
  savepoints : list savepoint;             (* Vec, last element = top of stack; here head = top *)
  columns : N; lines : N;
  dirty : list N;                          (* HashSet<u32> *)
  margins : option (N * N);                (* (top, bottom) *)
  buffer : NMap.t row;                     (* HashMap<u32, HashMap<u32, CharOpts>> *)
  mode : list N;                           (* HashSet<u32> *)
  title : str; icon_name : str;
  charset : gsel; g0 : csid; g1 : csid;
  tabstops : list N;                       (* HashSet<u32> *)
  cur : cursor;
  saved_columns : option N }.

(* functional record updates *)
Definition set_savepoints s v := mkScreen v (columns s) (lines s) (dirty s) (margins s) (buffer s) (mode s) (title s) (icon_name s) (charset s) (g0 s) (g1 s) (tabstops s) (cur s) (saved_columns s).
Definition set_size s l c := mkScreen (savepoints s) c l (dirty s) (margins s) (buffer s) (mode s) (title s) (icon_name s) (charset s) (g0 s) (g1 s) (tabstops s) (cur s) (saved_columns s).
Definition set_dirty s v := mkScreen (savepoints s) (columns s) (lines s) v (margins s) (buffer s) (mode s) (title s) (icon_name s) (charset s) (g0 s) (g1 s) (tabstops s) (cur s) (saved_columns s).
Definition set_margins_f s v := mkScreen (savepoints s) (columns s) (lines s) (dirty s) v (buffer s) (mode s) (title s) (icon_name s) (charset s) (g0 s) (g1 s) (tabstops s) (cur s) (saved_columns s).
Definition set_buffer s v := mkScreen (savepoints s) (columns s) (lines s) (dirty s) (margins s) v (mode s) (title s) (icon_name s) (charset s) (g0 s) (g1 s) (tabstops s) (cur s) (saved_columns s).
Definition set_mode_f s v := mkScreen (savepoints s) (columns s) (lines s) (dirty s) (margins s) (buffer s) v (title s) (icon_name s) (charset s) (g0 s) (g1 s) (tabstops s) (cur s) (saved_columns s).
Definition set_title_f s v := mkScreen (savepoints s) (columns s) (lines s) (dirty s) (margins s) (buffer s) (mode s) v (icon_name s) (charset s) (g0 s) (g1 s) (tabstops s) (cur s) (saved_columns s).
Definition set_icon_f s v := mkScreen (savepoints s) (columns s) (lines s) (dirty s) (margins s) (buffer s) (mode s) (title s) v (charset s) (g0 s) (g1 s) (tabstops s) (cur s) (saved_columns s).
Definition set_charset s v := mkScreen (savepoints s) (columns s) (lines s) (dirty s) (margins s) (buffer s) (mode s) (title s) (icon_name s) v (g0 s) (g1 s) (tabstops s) (cur s) (saved_columns s).
Definition set_g0 s v := mkScreen (savepoints s) (columns s) (lines s) (dirty s) (margins s) (buffer s) (mode s) (title s) (icon_name s) (charset s) v (g1 s) (tabstops s) (cur s) (saved_columns s).
Definition set_g1 s v := mkScreen (savepoints s) (columns s) (lines s) (dirty s) (margins s) (buffer s) (mode s) (title s) (icon_name s) (charset s) (g0 s) v (tabstops s) (cur s) (saved_columns s).
Definition set_tabstops s v := mkScreen (savepoints s) (columns s) (lines s) (dirty s) (margins s) (buffer s) (mode s) (title s) (icon_name s) (charset s) (g0 s) (g1 s) v (cur s) (saved_columns s).
Definition set_cur s v := mkScreen (savepoints s) (columns s) (lines s) (dirty s) (margins s) (buffer s) (mode s) (title s) (icon_name s) (charset s) (g0 s) (g1 s) (tabstops s) v (saved_columns s).
Definition set_saved_columns s v := mkScreen (savepoints s) (columns s) (lines s) (dirty s) (margins s) (buffer s) (mode s) (title s) (icon_name s) (charset s) (g0 s) (g1 s) (tabstops s) (cur s) v.

Definition set_x s x := set_cur s (mkCursor x (cu_y (cur s)) (cu_attr (cur s)) (cu_hidden (cur s))).
Definition set_y s y := set_cur s (mkCursor (cu_x (cur s)) y (cu_attr (cur s)) (cu_hidden (cur s))).
Definition set_attr s a := set_cur s (mkCursor (cu_x (cur s)) (cu_y (cur s)) a (cu_hidden (cur s))).
Definition set_hidden s h := set_cur s (mkCursor (cu_x (cur s)) (cu_y (cur s)) (cu_attr (cur s)) h).
Definition cx s := cu_x (cur s).
Definition cy s := cu_y (cur s).

(* operations of the public surface: every ParserListener method of Screen, plus resize *)
Inductive op :=
| OAlign | ODefCharset (code mode : str) | OReset | OIndex | OLinefeed | ORevIndex | OSetTab
| OSave | ORestore | OShiftOut | OShiftIn | OBell | OBackspace | OTab | OCR
| ODraw (text : str)
| OIch (n : option N) | OCuu (n : option N) | OCud (n : option N) | OCuf (n : option N) | OCub (n : option N)
| OCnl (n : option N) | OCpl (n : option N) | OCha (n : option N) | OCup (l c : option N)
| OEd (how : option N) | OEl (how : option N) | OIl (n : option N) | ODl (n : option N)
| ODch (n : option N) | OEch (n : option N) | ODa (m : option N) (p : option bool) | OVpa (n : option N)
| OTbc (how : option N) | OSm (ms : list N) (private : bool) | ORm (ms : list N) (private : bool)
| OSgr (ps : list N) | OTitle (t : str) | OIcon (t : str) | OMargins (t b : option N)
| OResize (l c : option N) | ODisplay.
