(* Tables.v — documented constants and tables (ECMA-48 / console_codes(4) / xterm palette),
   written from the documentation, NOT from /repo. TablesOk.v proves that the values dumped from
   the compiled crate (Gen/GenTables.v, regenerated every run) are equal to these. *)
From Coq Require Import NArith List Bool String.
From MT Require Import Lib Types Charsets.
Import ListNotations.
Open Scope N_scope.

(* ---- control characters (C0, C1) ---- *)
Definition BEL := 7. Definition BS := 8. Definition HT := 9. Definition LF := 10. Definition VT := 11.
Definition FF := 12. Definition CR := 13. Definition SO := 14. Definition SI := 15.
Definition CAN := 24. Definition SUB := 26. Definition ESC := 27.
Definition CSI_C1 := 155. Definition OSC_C1 := 157. Definition ST_C1 := 156.
Definition SP := 32. Definition GREATER := 62.
Definition basic_ctrls : list N := [BEL; BS; HT; LF; VT; FF; CR; SO; SI].
Definition allowed_in_csi : list N := [BEL; BS; HT; LF; VT; FF; CR].
Definition special_ctrls : list N := [BEL; BS; HT; LF; VT; FF; CR; SO; SI; ESC; CSI_C1; OSC_C1].
Definition osc_terminators : list str := [[BEL]; [ESC; 92]; [ST_C1]].

(* ---- ESC finals ---- *)
Definition f_RIS := 99. Definition f_IND := 68. Definition f_NEL := 69. Definition f_RI := 77.
Definition f_HTS := 72. Definition f_DECSC := 55. Definition f_DECRC := 56. Definition f_DECALN := 56.
(* ---- CSI finals ---- *)
Definition f_ICH := 64. Definition f_CUU := 65. Definition f_CUD := 66. Definition f_CUF := 67.
Definition f_CUB := 68. Definition f_CNL := 69. Definition f_CPL := 70. Definition f_CHA := 71.
Definition f_CUP := 72. Definition f_ED := 74. Definition f_EL := 75. Definition f_IL := 76.
Definition f_DL := 77. Definition f_DCH := 80. Definition f_ECH := 88. Definition f_HPR := 97.
Definition f_DA := 99. Definition f_VPA := 100. Definition f_VPR := 101. Definition f_HVP := 102.
Definition f_TBC := 103. Definition f_SM := 104. Definition f_RM := 108. Definition f_SGR := 109.
Definition f_DECSTBM := 114.

(* ---- modes (private modes are stored shifted left by 5) ---- *)
Definition LNM := 20. Definition IRM := 4.
Definition DECTCEM := 25 * 32. Definition DECSCNM := 5 * 32. Definition DECOM := 6 * 32.
Definition DECAWM := 7 * 32. Definition DECCOLM := 3 * 32.
Definition default_modes : list N := [DECAWM; DECTCEM].

(* ---- SGR ---- *)
Inductive tfield := FBold | FItalics | FUnderscore | FBlink | FReverse | FStrike.
Definition text_table : list (N * (tfield * bool)) :=
  [(1, (FBold, true)); (3, (FItalics, true)); (4, (FUnderscore, true)); (5, (FBlink, true));
   (7, (FReverse, true)); (9, (FStrike, true));
   (22, (FBold, false)); (23, (FItalics, false)); (24, (FUnderscore, false)); (25, (FBlink, false));
   (27, (FReverse, false)); (29, (FStrike, false))].
Definition colour_names : list string :=
  ["black"; "red"; "green"; "brown"; "blue"; "magenta"; "cyan"; "white"]%string.
Definition s_default : str := s2n "default".
Definition s_space : str := [32].
Definition bright (n : str) : str := s2n "bright" ++ n.
Definition fg_ansi : list (N * str) :=
  combine (range 30 38) (map s2n colour_names) ++ [(39, s_default)].
Definition bg_ansi : list (N * str) :=
  combine (range 40 48) (map s2n colour_names) ++ [(49, s_default)].
Definition fg_aixterm : list (N * str) := combine (range 90 98) (map (fun n => bright (s2n n)) colour_names).
Definition bg_aixterm : list (N * str) := combine (range 100 108) (map (fun n => bright (s2n n)) colour_names).
Definition FG_256 := 38. Definition BG_256 := 48.

Definition hexdigit (n : N) : cp := if n <? 10 then 48 + n else 87 + n.   (* lowercase *)
Definition hex2 (n : N) : str := [hexdigit (n / 16); hexdigit (n mod 16)].
Definition rgb (r g b : N) : str := hex2 r ++ hex2 g ++ hex2 b.
Definition base16 : list (N * N * N) :=
  [(0,0,0); (205,0,0); (0,205,0); (205,205,0); (0,0,238); (205,0,205); (0,205,205); (229,229,229);
   (127,127,127); (255,0,0); (0,255,0); (255,255,0); (92,92,255); (255,0,255); (0,255,255); (255,255,255)].
Definition cube_level (i : N) : N := if i =? 0 then 0 else 55 + 40 * i.   (* 0,95,135,175,215,255 *)
Definition palette (n : N) : str :=                                      (* xterm 256-colour palette *)
  if n <? 16 then match nth_error base16 (N.to_nat n) with Some (r, g, b) => rgb r g b | None => [] end
  else if n <? 232 then let i := n - 16 in rgb (cube_level (i / 36)) (cube_level ((i / 6) mod 6)) (cube_level (i mod 6))
  else let v := 8 + 10 * (n - 232) in rgb v v v.
Definition palette_size := 256.

Fixpoint assoc {B} (k : N) (l : list (N * B)) : option B :=
  match l with [] => None | (k', v) :: r => if k =? k' then Some v else assoc k r end.

(* ---- character sets ---- *)
Definition translate (t : csid) (c : cp) : cp :=     (* only used for c < 256 *)
  match t with
  | Lat1 => c
  | Vt100 => match assoc c graf_subst with Some v => v | None => c end
  | Ibmpc => nth (N.to_nat c) cp437_table c
  | Vax42 => match assoc c vax42_subst with Some v => v | None => nth (N.to_nat c) cp437_table c end
  end.
(* MAPS keys: "B" "0" "U" "V" *)
Definition charset_of_code (code : str) : option csid :=
  match code with
  | [66] => Some Lat1 | [48] => Some Vt100 | [85] => Some Ibmpc | [86] => Some Vax42 | _ => None end.

(* CharOpts::default() *)
Definition cell_default : cell := mkCell s_space s_default s_default false false false false false false.
