(* driver.ml — reads the harness' integer stream (implementation snapshots), injects each pre-state
   into the extracted Coq model, and evaluates (a) model-vs-implementation correspondence on views and
   (b) the extracted statement predicates on the implementation's own snapshots.
   Output: one "BAD <kind> <id> <which> <detail>" line per failure, "STAT k v" lines at the end. *)
open Mt

(* ---------- fast integer reader ---------- *)
let ic = if Array.length Sys.argv > 1 && Sys.argv.(1) <> "-" then open_in_bin Sys.argv.(1) else stdin
let ibuf = Bytes.create 65536
let ilen = ref 0
let ipos = ref 0
let next_char () =
  if !ipos >= !ilen then begin
    ilen := input ic ibuf 0 65536; ipos := 0;
    if !ilen = 0 then raise End_of_file end;
  let c = Bytes.unsafe_get ibuf !ipos in incr ipos; c
let rec next_int () =
  let c = ref (next_char ()) in
  while !c = ' ' || !c = '\n' || !c = '\r' || !c = '\t' do c := next_char () done;
  let neg = (!c = '-') in
  if neg then c := next_char ();
  let v = ref 0 in
  (try
    while !c >= '0' && !c <= '9' do v := !v * 10 + (Char.code !c - 48); c := next_char () done
  with End_of_file -> ());
  if neg then - !v else !v

(* ---------- N conversion ---------- *)
let rec pos_of_int i = if i = 1 then XH else if i land 1 = 0 then XO (pos_of_int (i lsr 1)) else XI (pos_of_int (i lsr 1))
let n_of_int i = if i <= 0 then N0 else Npos (pos_of_int i)
let rec int_of_pos = function XH -> 1 | XO p -> 2 * int_of_pos p | XI p -> 2 * int_of_pos p + 1
let int_of_n = function N0 -> 0 | Npos p -> int_of_pos p
let rec nat_of_int i = if i <= 0 then O else S (nat_of_int (i - 1))

(* ---------- readers ---------- *)
let rd_n () = n_of_int (next_int ())
let rd_bool () = next_int () <> 0
let rd_optn () = let v = next_int () in if v < 0 then None else Some (n_of_int v)
let rd_optb () = let v = next_int () in if v < 0 then None else Some (v <> 0)
let rd_list f = let k = next_int () in List.init k (fun _ -> f ())
let rd_str () = rd_list rd_n
let bad_table = ref false
let rd_csid () = match next_int () with 0 -> Lat1 | 1 -> Vt100 | 2 -> Ibmpc | 3 -> Vax42 | _ -> bad_table := true; Lat1
let rd_gsel () = if next_int () = 0 then G0 else G1
let rd_cell () =
  let d = rd_str () in let fg = rd_str () in let bg = rd_str () in let fl = next_int () in
  { c_data = d; c_fg = fg; c_bg = bg; c_bold = fl land 1 <> 0; c_italics = fl land 2 <> 0;
    c_underscore = fl land 4 <> 0; c_strike = fl land 8 <> 0; c_reverse = fl land 16 <> 0; c_blink = fl land 32 <> 0 }
let rd_cursor () =
  let x = rd_n () in let y = rd_n () in let h = rd_bool () in let a = rd_cell () in
  { cu_x = x; cu_y = y; cu_attr = a; cu_hidden = h }
let rd_save () =
  let c = rd_cursor () in let g0 = rd_csid () in let g1 = rd_csid () in let cs = rd_gsel () in
  let o = rd_bool () in let w = rd_bool () in
  { sp_cursor = c; sp_g0 = g0; sp_g1 = g1; sp_charset = cs; sp_origin = o; sp_wrap = w }
let rd_state () : screen =
  let cols = rd_n () in let lns = rd_n () in
  let cur = rd_cursor () in
  let margins = (match next_int () with 0 -> None | _ -> let t = rd_n () in let b = rd_n () in Some (t, b)) in
  let mode = rd_list rd_n in let tabs = rd_list rd_n in let dirty = rd_list rd_n in
  let cs = rd_gsel () in let g0 = rd_csid () in let g1 = rd_csid () in
  let title = rd_str () in let icon = rd_str () in
  let sc = rd_optn () in
  let sps = rd_list rd_save in
  let buffer = rd_list (fun () -> let k = rd_n () in let cells = rd_list (fun () -> let c = rd_n () in let v = rd_cell () in (c, v)) in (k, cells)) in
  { savepoints = sps; columns = cols; lines = lns; dirty = dirty; margins = margins; buffer = buffer;
    mode = mode; title = title; icon_name = icon; charset = cs; g0 = g0; g1 = g1; tabstops = tabs;
    cur = cur; saved_columns = sc }
let rd_op () : op =
  match next_int () with
  | 0 -> OAlign | 1 -> let c = rd_str () in let m = rd_str () in ODefCharset (c, m)
  | 2 -> OReset | 3 -> OIndex | 4 -> OLinefeed | 5 -> ORevIndex | 6 -> OSetTab | 7 -> OSave | 8 -> ORestore
  | 9 -> OShiftOut | 10 -> OShiftIn | 11 -> OBell | 12 -> OBackspace | 13 -> OTab | 14 -> OCR
  | 15 -> ODraw (rd_str ())
  | 16 -> OIch (rd_optn ()) | 17 -> OCuu (rd_optn ()) | 18 -> OCud (rd_optn ()) | 19 -> OCuf (rd_optn ())
  | 20 -> OCub (rd_optn ()) | 21 -> OCnl (rd_optn ()) | 22 -> OCpl (rd_optn ()) | 23 -> OCha (rd_optn ())
  | 24 -> let l = rd_optn () in let c = rd_optn () in OCup (l, c)
  | 25 -> OEd (rd_optn ()) | 26 -> OEl (rd_optn ()) | 27 -> OIl (rd_optn ()) | 28 -> ODl (rd_optn ())
  | 29 -> ODch (rd_optn ()) | 30 -> OEch (rd_optn ())
  | 31 -> let m = rd_optn () in let p = rd_optb () in ODa (m, p)
  | 32 -> OVpa (rd_optn ()) | 33 -> OTbc (rd_optn ())
  | 34 -> let ms = rd_list rd_n in let p = rd_bool () in OSm (ms, p)
  | 35 -> let ms = rd_list rd_n in let p = rd_bool () in ORm (ms, p)
  | 36 -> OSgr (rd_list rd_n) | 37 -> OTitle (rd_str ()) | 38 -> OIcon (rd_str ())
  | 39 -> let t = rd_optn () in let b = rd_optn () in OMargins (t, b)
  | 40 -> let l = rd_optn () in let c = rd_optn () in OResize (l, c)
  | 41 -> ODisplay
  | k -> failwith (Printf.sprintf "bad opcode %d" k)
let rd_wop () : wop =
  match next_int () with
  | 0 -> WBytes (rd_list rd_n) | 1 -> WChars (rd_list rd_n) | 2 -> WSelect (rd_str ())
  | 3 -> WApi (rd_op ()) | 4 -> WClearDirty
  | k -> failwith (Printf.sprintf "bad wop %d" k)

(* ---------- oracles ---------- *)
let wtab : (int, int * bool) Hashtbl.t = Hashtbl.create 20000
let nfctab : (int list, int list) Hashtbl.t = Hashtbl.create 4000
let oracle_miss = ref false
let wid c = let i = int_of_n c in
  match Hashtbl.find_opt wtab i with Some (w, _) -> n_of_int w | None -> oracle_miss := true; n_of_int 1
let is_comb c = let i = int_of_n c in
  match Hashtbl.find_opt wtab i with Some (_, b) -> b | None -> oracle_miss := true; false
let nfc (s : str) : str =
  let k = List.map int_of_n s in
  match Hashtbl.find_opt nfctab k with
  | Some r -> List.map n_of_int r
  | None -> if List.for_all (fun c -> c < 0xC0) k then s else (oracle_miss := true; s)

(* ---------- printing ---------- *)
let sn n = string_of_int (int_of_n n)
let son = function None -> "-" | Some n -> sn n
let sl l = "[" ^ String.concat "," (List.map sn l) ^ "]"
let utf8_of_cps (l : str) =
  let b = Buffer.create 16 in
  List.iter (fun c -> let i = int_of_n c in
    if i >= 32 && i < 127 && i <> 92 && i <> 34 then Buffer.add_char b (Char.chr i)
    else Buffer.add_string b (Printf.sprintf "\\u{%x}" i)) l;
  Buffer.contents b
let show_op (o : op) = match o with
  | OAlign -> "alignment_display" | ODefCharset (c, m) -> Printf.sprintf "define_charset(%s,%s)" (utf8_of_cps c) (utf8_of_cps m)
  | OReset -> "reset" | OIndex -> "index" | OLinefeed -> "linefeed" | ORevIndex -> "reverse_index" | OSetTab -> "set_tab_stop"
  | OSave -> "save_cursor" | ORestore -> "restore_cursor" | OShiftOut -> "shift_out" | OShiftIn -> "shift_in" | OBell -> "bell"
  | OBackspace -> "backspace" | OTab -> "tab" | OCR -> "cariage_return" | ODraw t -> "draw(\"" ^ utf8_of_cps t ^ "\")"
  | OIch n -> "insert_characters(" ^ son n ^ ")" | OCuu n -> "cursor_up(" ^ son n ^ ")" | OCud n -> "cursor_down(" ^ son n ^ ")"
  | OCuf n -> "cursor_forward(" ^ son n ^ ")" | OCub n -> "cursor_back(" ^ son n ^ ")" | OCnl n -> "cursor_down1(" ^ son n ^ ")"
  | OCpl n -> "cursor_up1(" ^ son n ^ ")" | OCha n -> "cursor_to_column(" ^ son n ^ ")"
  | OCup (l, c) -> "cursor_position(" ^ son l ^ "," ^ son c ^ ")" | OEd h -> "erase_in_display(" ^ son h ^ ")"
  | OEl h -> "erase_in_line(" ^ son h ^ ")" | OIl n -> "insert_lines(" ^ son n ^ ")" | ODl n -> "delete_lines(" ^ son n ^ ")"
  | ODch n -> "delete_characters(" ^ son n ^ ")" | OEch n -> "erase_characters(" ^ son n ^ ")" | ODa (m, _) -> "report_device_attributes(" ^ son m ^ ")"
  | OVpa n -> "cursor_to_line(" ^ son n ^ ")" | OTbc h -> "clear_tab_stop(" ^ son h ^ ")"
  | OSm (ms, p) -> "set_mode(" ^ sl ms ^ "," ^ string_of_bool p ^ ")" | ORm (ms, p) -> "reset_mode(" ^ sl ms ^ "," ^ string_of_bool p ^ ")"
  | OSgr ps -> "select_graphic_rendition(" ^ sl ps ^ ")" | OTitle t -> "set_title(\"" ^ utf8_of_cps t ^ "\")"
  | OIcon t -> "set_icon_name(\"" ^ utf8_of_cps t ^ "\")" | OMargins (t, b) -> "set_margins(" ^ son t ^ "," ^ son b ^ ")"
  | OResize (l, c) -> "resize(" ^ son l ^ "," ^ son c ^ ")" | ODisplay -> "display"
let show_cell (c : cell) =
  Printf.sprintf "'%s'/%s/%s/%s" (utf8_of_cps c.c_data) (utf8_of_cps c.c_fg) (utf8_of_cps c.c_bg)
    (String.concat "" [ (if c.c_bold then "B" else ""); (if c.c_italics then "I" else ""); (if c.c_underscore then "U" else "");
                        (if c.c_strike then "S" else ""); (if c.c_reverse then "R" else ""); (if c.c_blink then "K" else "") ])
let show_state (s : screen) =
  let rows = List.init (min 50 (int_of_n s.lines)) (fun r ->
    String.concat "" (List.init (min 140 (int_of_n s.columns)) (fun c ->
      let cl = cellv s (n_of_int r) (n_of_int c) in
      match cl.c_data with [] -> "~" | x :: _ -> let i = int_of_n x in if i >= 33 && i < 127 then String.make 1 (Char.chr i) else if i = 32 then "." else "?"))) in
  Printf.sprintf "{%sx%s cur=(%s,%s%s) attr=%s margins=%s mode=%s tabs=%s dirty=%s cs=%s g0=%d g1=%d sp=%d sc=%s title=\"%s\" icon=\"%s\" rows=%s}"
    (sn s.columns) (sn s.lines) (sn s.cur.cu_x) (sn s.cur.cu_y) (if s.cur.cu_hidden then ",hidden" else "")
    (show_cell s.cur.cu_attr)
    (match s.margins with None -> "-" | Some (t, b) -> sn t ^ ".." ^ sn b)
    (sl (List.sort compare s.mode)) (sl (List.sort compare s.tabstops)) (sl (List.sort compare s.dirty))
    (match s.charset with G0 -> "G0" | G1 -> "G1")
    (match s.g0 with Lat1 -> 0 | Vt100 -> 1 | Ibmpc -> 2 | Vax42 -> 3) (match s.g1 with Lat1 -> 0 | Vt100 -> 1 | Ibmpc -> 2 | Vax42 -> 3)
    (List.length s.savepoints) (son s.saved_columns) (utf8_of_cps s.title) (utf8_of_cps s.icon_name)
    (String.concat "|" rows)
(* first differing observable between two screens *)
let diff_states (a : screen) (b : screen) =
  if not (rest_eqb a b) then "non-grid fields"
  else if not (nseteq a.dirty b.dirty) then "dirty"
  else begin
    let res = ref "grid" in
    (try for r = 0 to int_of_n a.lines - 1 do for c = 0 to int_of_n a.columns - 1 do
      let x = cellv a (n_of_int r) (n_of_int c) and y = cellv b (n_of_int r) (n_of_int c) in
      if x <> y then begin res := Printf.sprintf "cell(%d,%d) %s vs %s" r c (show_cell x) (show_cell y); raise Exit end done done
    with Exit -> ()); !res end

(* ---------- statistics ---------- *)
let stats : (String.t, int) Hashtbl.t = Hashtbl.create 64
let bump k = Hashtbl.replace stats k (1 + (try Hashtbl.find stats k with Not_found -> 0))
let nbad = ref 0
let bad kind id which detail =
  incr nbad; bump ("bad_" ^ which);
  if !nbad <= 200 then Printf.printf "BAD %d %d %s %s\n" kind id which detail
let opname o = let s = show_op o in try String.sub s 0 (String.index s '(') with Not_found -> s
let distinct : (int, unit) Hashtbl.t = Hashtbl.create 100000

let () =
  let fin = ref false in
  (try while not !fin do
    let kind = next_int () in
    match kind with
    | 0 -> fin := true
    | 1 -> let cp = next_int () in let w = next_int () in let cb = next_int () in Hashtbl.replace wtab cp (w, cb <> 0)
    | 2 -> let a = rd_list next_int in let b = rd_list next_int in Hashtbl.replace nfctab a b
    | 3 ->
        let id = next_int () in
        oracle_miss := false; bad_table := false;
        let pre = rd_state () in let o = rd_op () in let outcome = next_int () in
        bump "probes"; bump ("op_" ^ opname o);
        if outcome <> 0 then bad 3 id "panic" (Printf.sprintf "op=%s pre=%s" (show_op o) (show_state pre))
        else begin
          let post = rd_state () in
          if !bad_table then bad 3 id "model" (Printf.sprintf "unknown charset table in state; op=%s" (show_op o))
          else begin
          let mpost = step wid is_comb nfc pre o in
          if !oracle_miss then bump "oracle_miss_skipped"
          else begin
            let h = Hashtbl.hash_param 400 800 (pre, o) in
            let nontrivial = not (obs_eqb pre post) in
            if nontrivial && not (Hashtbl.mem distinct h) then (Hashtbl.replace distinct h (); bump "distinct_nontrivial");
            if not (obs_eqb mpost post) then
              bad 3 id "model" (Printf.sprintf "op=%s differs-in=%s pre=%s impl=%s model=%s" (show_op o) (diff_states post mpost) (show_state pre) (show_state post) (show_state mpost))
            else if not (raw_eqb mpost post) then bump "raw_drift";
            if not (spec_ok_nd wid is_comb nfc pre o post) then
              bad 3 id "spec" (Printf.sprintf "op=%s pre=%s impl=%s" (show_op o) (show_state pre) (show_state post))
            else if not (dirty_ok wid is_comb nfc pre o post) then
              bad 3 id "dirty" (Printf.sprintf "op=%s pre=%s impl=%s" (show_op o) (show_state pre) (show_state post))
            else if not (spec_ok wid is_comb nfc pre o post) then bump "dirty_overapprox";
            if wfb pre && not (c09b post) then bad 3 id "wf" (Printf.sprintf "op=%s pre=%s impl=%s" (show_op o) (show_state pre) (show_state post));
            if wfb pre && not (wf_internal post) then bad 3 id "hidden" (Printf.sprintf "op=%s pre=%s impl=%s" (show_op o) (show_state pre) (show_state post));
            if not (wfb pre) then bump "pre_not_wf"
          end end
        end
    | 4 ->
        let id = next_int () in
        oracle_miss := false; bad_table := false;
        let pre = rd_state () in let outcome = next_int () in
        bump "display_probes";
        if outcome <> 0 then bad 4 id "panic" (Printf.sprintf "op=display pre=%s" (show_state pre))
        else begin
          let post = rd_state () in let out = rd_list rd_str in
          let (mpost, mout) = display wid pre in
          if !oracle_miss then bump "oracle_miss_skipped" else begin
            if not (obs_eqb pre post) then bad 4 id "display-impure" (Printf.sprintf "differs-in=%s pre=%s post=%s" (diff_states pre post) (show_state pre) (show_state post));
            if not (display_ok wid pre out) then bad 4 id "display" (Printf.sprintf "pre=%s out=%s" (show_state pre) (String.concat "|" (List.map utf8_of_cps out)));
            if List.length out <> int_of_n pre.lines then bad 4 id "wf" "display() length";
            if mout <> out then bad 4 id "model" (Printf.sprintf "display output pre=%s impl=%s model=%s" (show_state pre) (String.concat "|" (List.map utf8_of_cps out)) (String.concat "|" (List.map utf8_of_cps mout)));
            if not (obs_eqb mpost post) then bad 4 id "model" "display post-state"
            else if not (raw_eqb mpost post) then bump "raw_drift";
            if wfb pre && not (wfb post) then bad 4 id "hidden" "display() broke well-formedness"
          end
        end
    | 5 ->
        let id = next_int () in
        let wops = rd_list rd_wop in let outcome = next_int () in
        bump "event_histories";
        if outcome <> 0 then bad 5 id "panic" "recorder history panicked"
        else begin
          let ops = rd_list rd_op in
          let r = rec_run wops in
          if r.r_out <> ops then begin
            let rec firstdiff i a b = match a, b with
              | x :: a', y :: b' -> if x = y then firstdiff (i + 1) a' b' else Printf.sprintf "event %d: impl=%s model=%s" i (show_op x) (show_op y)
              | [], y :: _ -> Printf.sprintf "event %d: impl=<none> model=%s" i (show_op y)
              | x :: _, [] -> Printf.sprintf "event %d: impl=%s model=<none>" i (show_op x)
              | [], [] -> "same" in
            bad 5 id "events" (firstdiff 0 ops r.r_out) end;
          List.iter (fun o -> bump ("ev_" ^ opname o)) ops
        end
    | 7 ->
        let id = next_int () in
        oracle_miss := false; bad_table := false;
        let cols = rd_n () in let lns = rd_n () in
        let wops = rd_list rd_wop in let outcome = next_int () in
        bump "state_histories";
        if outcome <> 0 then bad 7 id "panic" "history panicked"
        else begin
          let fin_i = rd_state () in
          let w = wrun wid is_comb nfc (winit cols lns) wops in
          if !oracle_miss then bump "oracle_miss_skipped"
          else begin
            if not (obs_eqb w.w_scr fin_i) then
              bad 7 id "final" (Printf.sprintf "differs-in=%s impl=%s model=%s" (diff_states fin_i w.w_scr) (show_state fin_i) (show_state w.w_scr));
            if not (wfb fin_i) then bad 7 id (if c09b fin_i then "hidden" else "wf") (Printf.sprintf "impl=%s" (show_state fin_i))
          end
        end
    | 8 ->
        let id = next_int () in
        let cols = rd_n () in let lns = rd_n () in let st = rd_state () in
        bump "init_checks";
        if not (obs_eqb (init cols lns) st) then bad 8 id "model" (Printf.sprintf "init differs-in=%s impl=%s" (diff_states st (init cols lns)) (show_state st));
        if not (aeqb (abs st) (a_init cols lns)) then bad 8 id "spec" (Printf.sprintf "init impl=%s" (show_state st));
        if not (wfb st) then bad 8 id "wf" "init"
    | 9 ->
        (* safety probe: (pre-state, operation, did the implementation panic?) against the checked-arithmetic conditions of Safe.v.
           The pre-state / arguments may be outside the contract of C01 (huge arguments, cursor far outside, zero-sized screen):
           that is where the Rust text does panic, and where [step_ok] has to say so. *)
        let id = next_int () in
        oracle_miss := false; bad_table := false;
        let pre = rd_state () in let o = rd_op () in let panicked = next_int () <> 0 in
        bump "safety_probes";
        let ok = step_ok wid is_comb nfc pre o in
        let sm = function None -> true | Some n -> int_of_n n <= 9999 in
        let dim = function None -> true | Some n -> let i = int_of_n n in 1 <= i && i <= 2147473648 in
        let small = (match o with
          | OIch n | OCuu n | OCud n | OCuf n | OCub n | OCnl n | OCpl n | OCha n | OIl n | ODl n | ODch n | OEch n | OVpa n -> sm n
          | OCup (l, c) -> sm l && sm c | OMargins (t, b) -> sm t && sm b | OResize (l, c) -> dim l && dim c | _ -> true) in
        let in_contract = wfb pre && small && int_of_n pre.columns <= 2147473648 && int_of_n pre.lines <= 2147473648 in
        if !oracle_miss then bump "oracle_miss_skipped"
        else if ok && panicked then
          bad 9 id (if in_contract then "panic" else "safe") (Printf.sprintf "the implementation panicked where Safe.step_ok holds: op=%s pre=%s" (show_op o) (show_state pre))
        else if in_contract && not ok then
          bad 9 id "safe" (Printf.sprintf "Safe.step_ok is false inside the contract (contradicts C01_every_operation_safe): op=%s pre=%s" (show_op o) (show_state pre))
        else if ok then bump "safety_agree_no_panic"
        else if panicked then bump "safety_agree_panic"
        else (bump "safety_conservative"; bump ("safety_conservative_" ^ opname o))
    | 10 ->
        let id = next_int () in
        let cols = rd_n () in let lns = rd_n () in let panicked = next_int () <> 0 in
        bump "safety_probes";
        let ok = init_ok cols lns in
        if ok && panicked then bad 10 id (if int_of_n cols >= 1 && int_of_n lns >= 1 then "panic" else "safe") (Printf.sprintf "Screen::new(%s,%s) panicked where Safe.init_ok holds" (sn cols) (sn lns))
        else if ok then bump "safety_agree_no_panic" else if panicked then bump "safety_agree_panic" else bump "safety_conservative"
    | k -> failwith (Printf.sprintf "bad record kind %d" k)
  done with End_of_file -> ());
  Hashtbl.iter (fun k v -> Printf.printf "STAT %s %d\n" k v) stats;
  Printf.printf "STAT bad_total %d\n" !nbad
