//! Dumps every data table and constant of the compiled crate as coq/Gen/GenTables.v (tie 1).
use std::collections::BTreeMap;
use std::fmt::Write as _;

use memterm::control as c;
use memterm::graphics as g;
use memterm::modes as m;

fn s(x: &str) -> String { format!("[{}]", x.chars().map(|ch| (ch as u32).to_string()).collect::<Vec<_>>().join("; ")) }
fn strs(xs: &[&str]) -> String { format!("[{}]", xs.iter().map(|x| s(x)).collect::<Vec<_>>().join("; ")) }
fn nums(xs: &[u32]) -> String { format!("[{}]", xs.iter().map(|x| x.to_string()).collect::<Vec<_>>().join("; ")) }
fn map(h: &std::collections::HashMap<u32, String>) -> String {
    let b: BTreeMap<u32, &String> = h.iter().map(|(k, v)| (*k, v)).collect();
    format!("[{}]", b.iter().map(|(k, v)| format!("({}, {})", k, s(v))).collect::<Vec<_>>().join("; "))
}
fn chars(t: &[char; 256]) -> String { nums(&t.iter().map(|c| *c as u32).collect::<Vec<_>>()) }

pub fn dump(path: &str) {
    let mut o = String::new();
    let _ = writeln!(o, "(* GENERATED on every run by harness `mtprobe tables` from the compiled crate. Do not edit. *)");
    let _ = writeln!(o, "From Coq Require Import NArith List.\nImport ListNotations.\nOpen Scope N_scope.");
    let _ = writeln!(o, "Definition g_ctrl : list (list N) := {}.", strs(&[c::BEL, c::BS, c::HT, c::LF, c::VT, c::FF, c::CR, c::SO, c::SI, c::CAN, c::SUB, c::ESC, c::CSI, c::OSC, c::ST, c::SP, c::GREATER]));
    let _ = writeln!(o, "Definition g_basic : list (list N) := {}.", strs(&c::BASIC[..]));
    let _ = writeln!(o, "Definition g_allowed : list (list N) := {}.", strs(&c::ALLOWED_IN_CSI[..]));
    let _ = writeln!(o, "Definition g_osc_terminators : list (list N) := {}.", strs(&c::OSC_TERMINATORS[..]));
    let mut sp: Vec<&str> = c::SPECIAL.iter().cloned().collect(); sp.sort();
    let _ = writeln!(o, "Definition g_special : list (list N) := {}.", strs(&sp));
    let _ = writeln!(o, "Definition g_esc_finals : list (list N) := {}.", strs(&[c::RIS, c::IND, c::NEL, c::RI, c::HTS, c::DECSC, c::DECRC, c::DECALN]));
    let _ = writeln!(o, "Definition g_csi_finals : list (list N) := {}.", strs(&[c::ICH, c::CUU, c::CUD, c::CUF, c::CUB, c::CNL, c::CPL, c::CHA, c::CUP, c::ED, c::EL, c::IL, c::DL, c::DCH, c::ECH, c::HPR, c::DA, c::VPA, c::VPR, c::HVP, c::TBC, c::SM, c::RM, c::SGR, c::DECSTBM]));
    let _ = writeln!(o, "Definition g_modes : list N := {}.", nums(&[m::LNM, m::IRM, m::DECTCEM, m::DECSCNM, m::DECOM, m::DECAWM, m::DECCOLM]));
    let scr = memterm::screen::Screen::new(1, 1);
    let mut dm: Vec<u32> = scr.mode.iter().cloned().collect(); dm.sort();
    let _ = writeln!(o, "Definition g_default_modes : list N := {}.", nums(&dm));
    let _ = writeln!(o, "Definition g_text : list (N * list N) := {}.", map(&g::TEXT));
    let _ = writeln!(o, "Definition g_fg_ansi : list (N * list N) := {}.", map(&g::FG_ANSI));
    let _ = writeln!(o, "Definition g_bg_ansi : list (N * list N) := {}.", map(&g::BG_ANSI));
    let _ = writeln!(o, "Definition g_fg_aixterm : list (N * list N) := {}.", map(&g::FG_AIXTERM));
    let _ = writeln!(o, "Definition g_bg_aixterm : list (N * list N) := {}.", map(&g::BG_AIXTERM));
    let _ = writeln!(o, "Definition g_fg256 : N := {}.\nDefinition g_bg256 : N := {}.", g::FG_256, g::BG_256);
    let _ = writeln!(o, "Definition g_palette : list (list N) := [{}].", g::FG_BG_256.iter().map(|x| s(x)).collect::<Vec<_>>().join("; "));
    let _ = writeln!(o, "Definition g_lat1 : list N := {}.", chars(&memterm::charset::LAT1_MAP));
    let _ = writeln!(o, "Definition g_vt100 : list N := {}.", chars(&memterm::charset::VT100_MAP));
    let _ = writeln!(o, "Definition g_ibmpc : list N := {}.", chars(&memterm::charset::IBMPC_MAP));
    let _ = writeln!(o, "Definition g_vax42 : list N := {}.", chars(&memterm::charset::VAX42_MAP));
    let mut keys: Vec<(&str, u32)> = memterm::charset::MAPS.iter().map(|(k, v)| (*k, crate::enc::csid(v))).collect(); keys.sort();
    let _ = writeln!(o, "Definition g_maps : list (list N * N) := [{}].", keys.iter().map(|(k, v)| format!("({}, {})", s(k), v)).collect::<Vec<_>>().join("; "));
    let d = memterm::screen::CharOpts::default();
    let fl = (d.bold as u32) | (d.italics as u32) << 1 | (d.underscore as u32) << 2 | (d.strikethrough as u32) << 3 | (d.reverse as u32) << 4 | (d.blink as u32) << 5;
    let _ = writeln!(o, "Definition g_default_cell : list (list N) * N := ([{}; {}; {}], {}).", s(&d.data), s(&d.fg), s(&d.bg), fl);
    std::fs::write(path, o).unwrap();
}
