//! Per-property probe plans: which states are built and which operations are tried from them.
use std::sync::{Arc, Mutex};

use memterm::byte_parser::ByteParser;
use memterm::parser::Parser;
use memterm::parser_listener::ParserListener;
use memterm::screen::Screen;

use crate::enc::{fork, snapshot, Op, Recorder};
use crate::gen::*;
use crate::Em;

const SMALL: &[(u32, u32)] = &[(1, 1), (2, 1), (1, 2), (2, 2), (3, 2), (4, 3), (5, 4)];
const MED: &[(u32, u32)] = &[(9, 3), (10, 2), (10, 5), (17, 3), (8, 6)];
const BIG: &[(u32, u32)] = &[(80, 24), (132, 5), (140, 40), (20, 10)];

fn pset(size: u32) -> Vec<Option<u32>> {
    let mut v = vec![None, Some(0)];
    for k in 1..=size + 2 { v.push(Some(k)); }
    v.push(Some(9999)); v
}
fn base_spec(cols: u32, lines: u32) -> Spec { Spec { cols, lines, clear_dirty: true, ..Default::default() } }

/// states for a geometry: every margin pair x DECOM x every cursor cell (incl. pending wrap) for the given fills
fn grid_states(em: &mut Em, rng: &mut Rng, cols: u32, lines: u32, fills: &[u8], keep_num: u64, keep_den: u64, tweak: &dyn Fn(&mut Spec, &mut Rng)) -> Vec<Screen> {
    let mut v = Vec::new();
    for m in all_margins(lines) { for decom in [false, true] { for &fill in fills {
        for y in 0..lines { for x in 0..=cols {
            if !rng.chance(keep_num, keep_den) { continue; }
            let mut sp = base_spec(cols, lines); sp.margins = m; sp.decom = decom; sp.fill = fill; sp.cur = (x, y); sp.sgr = rng.below(10) as usize;
            // modes the property does not mention are varied everywhere: they must not matter
            sp.awm_off = rng.chance(1, 3); sp.irm = rng.chance(1, 4); sp.lnm = rng.chance(1, 4); sp.scnm = rng.chance(1, 6); sp.tcem_off = rng.chance(1, 8);
            sp.charset = if rng.chance(1, 5) { 1 + rng.below(3) as u8 } else { 0 }; sp.saves = if rng.chance(1, 6) { 1 } else { 0 }; sp.materialise = rng.chance(1, 6);
            tweak(&mut sp, rng);
            match build(&sp, rng) { Some(s) => v.push(s), None => em.bump("builder_panics") }
        } }
    } } }
    v
}
fn random_states(em: &mut Em, rng: &mut Rng, geos: &[(u32, u32)], n: usize) -> Vec<Screen> {
    let mut v = Vec::new();
    for _ in 0..n { let (c, l) = *rng.pick(geos); let sp = random_spec(rng, c, l); match build(&sp, rng) { Some(s) => v.push(s), None => em.bump("builder_panics") } }
    v
}
fn csi(params: &str, fin: char) -> String { format!("\u{1b}[{}{}", params, fin) }
fn p2s(p: Option<u32>) -> String { match p { None => String::new(), Some(v) => v.to_string() } }
/// what the recogniser delivers for a (possibly omitted) first parameter
fn dl(p: Option<u32>) -> Option<u32> { Some(p.unwrap_or(0)) }

/// States that ordinary use produces but a builder organised around one property tends to miss: boundary geometries,
/// wide characters at edges and with missing placeholders, rows with holes, the cursor outside the scrolling region or
/// in the pending-wrap column, a remembered DECCOLM width, tab stops beyond the width, content cut by a shrink, saved
/// cursors taken under another geometry, reverse video, insert mode without autowrap, shifted charsets, ...
pub fn exotic_states(rng: &mut Rng) -> Vec<Screen> {
    let scripts: Vec<(u32, u32, Box<dyn Fn(&mut Screen)>)> = vec![
        (1, 1, Box::new(|_s| {})),
        (1, 1, Box::new(|s| { s.draw("a"); })),
        (1, 3, Box::new(|s| { s.draw("ab"); s.set_margins(Some(2), Some(3)); })),
        (3, 1, Box::new(|s| { s.draw("\u{4e2d}"); s.draw("x"); })),
        (2, 2, Box::new(|s| { s.cursor_position(Some(1), Some(2)); s.draw("\u{4e2d}"); })),
        (3, 2, Box::new(|s| { s.draw("ab\u{4e2d}"); s.resize(None, Some(6)); })),
        (4, 2, Box::new(|s| { s.draw("ab\u{4e2d}"); s.cursor_to_column(Some(4)); s.delete_characters(Some(1)); })),
        (4, 2, Box::new(|s| { s.draw("\u{30b3}"); s.cariage_return(); s.draw("a"); })),
        (10, 3, Box::new(|s| { s.cursor_position(Some(2), Some(6)); s.draw("XYZ"); s.cursor_position(Some(2), Some(3)); })),
        (10, 3, Box::new(|s| { s.cursor_position(Some(1), Some(5)); s.select_graphic_rendition(&[1, 31, 44]); s.draw("hello"); s.cursor_position(Some(1), Some(9)); })),
        (6, 5, Box::new(|s| { s.set_margins(Some(2), Some(3)); s.cursor_position(Some(5), Some(2)); })),
        (6, 5, Box::new(|s| { s.set_margins(Some(3), Some(4)); s.cursor_position(Some(1), Some(6)); s.draw("ab"); })),
        (6, 5, Box::new(|s| { s.set_margins(Some(2), Some(4)); s.set_mode(&[6], true); s.cursor_position(Some(3), Some(6)); s.draw("q"); })),
        (5, 4, Box::new(|s| { s.set_margins(Some(2), Some(3)); s.set_mode(&[6], true); s.cursor_position(Some(2), Some(1)); for _ in 0..5 { s.draw("w"); } })),
        (10, 2, Box::new(|s| { s.draw("0123456789"); s.set_mode(&[3], true); })),
        (10, 2, Box::new(|s| { s.set_mode(&[3], true); s.resize(None, Some(20)); s.draw("abc"); })),
        (24, 2, Box::new(|s| { s.cursor_to_column(Some(17)); s.set_tab_stop(); s.cursor_to_column(Some(21)); s.set_tab_stop(); s.resize(None, Some(10)); })),
        (8, 2, Box::new(|s| { s.draw("12345678"); s.set_tab_stop(); s.clear_tab_stop(Some(3)); })),
        (5, 3, Box::new(|s| { s.select_graphic_rendition(&[7, 32]); s.draw("ab"); s.set_mode(&[5], true); s.cursor_position(Some(2), Some(2)); s.draw("c"); })),
        (5, 3, Box::new(|s| { s.set_mode(&[5], true); s.select_graphic_rendition(&[27, 4]); s.draw("rv"); s.reset_mode(&[5], true); s.set_mode(&[5], true); })),
        (4, 2, Box::new(|s| { s.set_mode(&[4], false); s.reset_mode(&[7], true); s.draw("abcd"); })),
        (4, 2, Box::new(|s| { s.set_mode(&[4], false); s.draw("ab"); s.cursor_position(Some(1), Some(1)); })),
        (5, 3, Box::new(|s| { for r in 0..3 { s.cursor_position(Some(r + 1), Some(1)); s.draw("abcde"); } s.resize(Some(2), Some(3)); s.resize(Some(4), Some(8)); })),
        (10, 10, Box::new(|s| { s.cursor_position(Some(9), Some(8)); s.save_cursor(); s.resize(Some(5), Some(5)); s.save_cursor(); s.resize(Some(7), Some(12)); })),
        (6, 3, Box::new(|s| { s.set_margins(Some(1), Some(2)); s.save_cursor(); s.set_margins(Some(2), Some(3)); s.set_mode(&[6], true); })),
        (6, 2, Box::new(|s| { s.draw("e"); s.draw("\u{301}"); s.draw("u"); s.draw("\u{308}"); s.cursor_position(Some(2), Some(1)); })),
        (6, 2, Box::new(|s| { s.draw("\u{263a}"); s.draw("\u{fe0f}"); s.draw("xy"); s.cursor_position(Some(2), Some(1)); s.draw("\u{2764}\u{fe0f}"); })),
        (4, 2, Box::new(|s| { s.draw("a\u{200d}b"); s.draw("\u{1100}\u{1161}"); })),
        (6, 2, Box::new(|s| { s.define_charset("0", ")"); s.shift_out(); s.draw("lqk"); s.define_charset("U", "("); })),
        (6, 2, Box::new(|s| { s.set_title("t\u{e9}"); s.set_icon_name("i"); s.draw("x"); s.display(); })),
        (7, 3, Box::new(|s| { s.draw("abc"); s.linefeed(); s.draw("\u{4e2d}\u{4e2d}"); s.display(); s.cursor_position(Some(2), Some(5)); s.delete_characters(Some(1)); })),
        (132, 2, Box::new(|s| { s.cursor_to_column(Some(132)); s.draw("zz"); })),
        (6, 4, Box::new(|s| { s.draw("r0"); s.cursor_position(Some(2), Some(1)); s.draw("r1"); s.cursor_position(Some(4), Some(1)); s.index(); s.cursor_position(Some(1), Some(1)); })),
        (6, 4, Box::new(|s| { s.cursor_position(Some(2), Some(1)); s.draw("mid"); s.cursor_position(Some(1), Some(1)); s.reverse_index(); s.cursor_position(Some(3), Some(2)); })),
        (6, 5, Box::new(|s| { s.set_margins(Some(2), Some(4)); s.cursor_position(Some(3), Some(1)); s.draw("in"); s.cursor_position(Some(4), Some(1)); s.linefeed(); s.cursor_position(Some(2), Some(1)); })),
        (5, 3, Box::new(|s| { s.draw("ab"); s.cursor_position(Some(2), Some(1)); s.draw("\u{200b}"); s.cursor_position(Some(1), Some(1)); })),
        (5, 3, Box::new(|s| { s.draw("abcde"); s.delete_characters(Some(1)); s.cursor_position(Some(2), Some(1)); s.draw("x"); s.cursor_position(Some(1), Some(1)); })),
        (5, 3, Box::new(|s| { s.draw("top"); s.display(); s.cursor_position(Some(1), Some(1)); })),
        (9, 3, Box::new(|s| { s.cursor_position(Some(3), Some(9)); s.draw("x"); s.reset_mode(&[25], true); })),
        (3, 3, Box::new(|s| { s.alignment_display(); s.cursor_position(Some(2), Some(2)); s.erase_characters(Some(1)); s.set_margins(Some(1), Some(2)); })),
        // a cell whose text is a lone combining mark: the mark went into the stub cell of a wide character, whose own cell was then overwritten / erased
        (6, 2, Box::new(|s| { s.draw("\u{6f22}"); s.draw("\u{301}"); s.cariage_return(); s.draw("a"); })),
        (6, 2, Box::new(|s| { s.draw("x\u{6f22}\u{308}"); s.cursor_position(Some(1), Some(2)); s.erase_characters(Some(1)); s.cursor_position(Some(2), Some(1)); })),
        (5, 2, Box::new(|s| { s.draw("\u{30b3}\u{3099}z"); s.cursor_position(Some(1), Some(1)); s.delete_characters(Some(1)); })),
        // the cursor outside the scrolling region, in the pending-wrap column (a wrap from below the region moves UP to the bottom margin)
        (5, 5, Box::new(|s| { s.set_margins(Some(1), Some(3)); s.cursor_position(Some(5), Some(1)); s.draw("abcde"); })),
        (4, 6, Box::new(|s| { s.set_margins(Some(3), Some(4)); s.cursor_position(Some(6), Some(1)); s.draw("wxyz"); })),
        (4, 6, Box::new(|s| { s.set_margins(Some(3), Some(5)); s.cursor_position(Some(1), Some(1)); s.draw("wxyz"); })),
    ];
    let mut out = Vec::new();
    for (c, l, f) in scripts.iter() {
        for clear in [true, false] {
            let r = safe(|| { let mut s = Screen::new(*c, *l); f(&mut s); if clear { s.dirty.clear(); } s });
            if let Some(s) = r { out.push(s); }
        }
    }
    // a short random suffix on a copy of some of them
    let n = out.len();
    for k in 0..n { if k % 3 != 0 { continue; } let mut t = fork(&out[k]); let mut ok = true; for _ in 0..(1 + rng.below(3)) { let o = gen_op(rng, &t); if matches!(o, Op::Display) { continue; } if safe(|| o.apply(&mut t)).is_none() { ok = false; break; } } if ok { t.dirty.clear(); out.push(t); } }
    out
}
fn op_of(prop: &str, o: &Op) -> bool {
    match prop {
        "C04" => matches!(o, Op::Draw(_)),
        "C05" => matches!(o, Op::Cuu(_) | Op::Cud(_) | Op::Cuf(_) | Op::Cub(_) | Op::Cnl(_) | Op::Cpl(_) | Op::Cha(_) | Op::Vpa(_) | Op::Cup(_, _) | Op::Backspace | Op::CR),
        "C06" => matches!(o, Op::Index | Op::RevIndex | Op::Linefeed | Op::Il(_) | Op::Dl(_) | Op::Margins(_, _)),
        "C07" => matches!(o, Op::Ed(_) | Op::El(_) | Op::Ech(_)),
        "C08" => matches!(o, Op::Sgr(_)),
        "C12" => matches!(o, Op::Sm(_, _) | Op::Rm(_, _)),
        "C13" => matches!(o, Op::Ich(_) | Op::Dch(_)),
        "C14" => matches!(o, Op::Save | Op::Restore),
        "C15" => matches!(o, Op::Reset),
        "C16" => matches!(o, Op::Resize(_, _)),
        "C18" => matches!(o, Op::Tab | Op::SetTab | Op::Tbc(_) | Op::Reset),
        "C20" => matches!(o, Op::Draw(_) | Op::ShiftOut | Op::ShiftIn | Op::DefCharset(_, _)),
        "C09" | "C17" | "C01" => !matches!(o, Op::Display),
        _ => false,
    }
}
/// The property's own tokens through the recogniser, in runs on one parser, interleaved with sequences that end without a
/// dispatch or carry unusual bodies (aborted / `$`-skipped CSIs with digits and `;`, long parameter lists, SO/SI and other
/// C0 controls inside a CSI body, string sequences with ignored codes, NUL/DEL): what the listener receives must be what the
/// grammar says, whatever preceded the token.
fn prop_events(prop: &str, em: &mut Em, rng: &mut Rng, thorough: bool) {
    let finals: &[&str] = match prop {
        "C04" => &["TEXT"],
        "C05" => &["A", "B", "C", "D", "E", "F", "G", "H", "a", "d", "e", "f", "\u{8}", "\r"],
        "C06" => &["L", "M", "r", "ESC D", "ESC M", "ESC E", "\n", "\u{b}", "\u{c}"],
        "C07" => &["J", "K", "X"],
        "C08" => &["m", "m", "LONGm"],
        "C13" => &["@", "P"],
        "C14" => &["ESC 7", "ESC 8"],
        "C15" => &["ESC c"],
        "C18" => &["\t", "ESC H", "g"],
        "C20" => &["\u{e}", "\u{f}", "ESC ( 0", "ESC ) 0", "ESC ( B", "ESC ) U", "ESC ( V", "TEXT"],
        _ => return,
    };
    let n = if thorough { 6000 } else { 700 };
    events(em, rng, n, &mut |r| {
        let mut t = String::new();
        let num = |r: &mut Rng| -> String { match r.below(7) { 0 => String::new(), 1 => "0".into(), 2 => "1".into(), 3 => format!("{}", 2 + r.below(30)), 4 => "9999".into(), 5 => (*r.pick(&["007", "10000", "65536", "2147483648", "4294967295", "4294967296", "4294967297", "4294967298", "4294967301", "8589934593", "18446744073709551615", "18446744073709551616", "99999999999999999999999"])).to_string(), _ => format!("{}", r.below(300)) } };
        for _ in 0..(2 + r.below(4)) {
            if r.chance(1, 3) {
                // a disturber
                let d = match r.below(9) {
                    0 => format!("\u{1b}[{}{}\u{18}", if r.chance(1, 2) { "?" } else { "" }, num(r)),
                    1 => format!("\u{1b}[{};{}\u{1a}", num(r), num(r)),
                    2 => format!("\u{1b}[{}{}${}", if r.chance(1, 2) { "?" } else { "" }, num(r), r.pick(&['p', 'x', 'm'])),
                    3 => format!("\u{1b}[{};{};{};{}$x", num(r), num(r), num(r), num(r)),
                    4 => format!("\u{1b}[{}{}{}", num(r), r.pick(&["\u{e}", "\u{f}", "\u{8}", "\n", " ", ">"]), r.pick(&["m", "z", "n"])),
                    5 => format!("\u{1b}]{};{}\u{7}", r.pick(&['4', '7', '9', 'l']), r.pick(&["pq", "12;34", ";"])),
                    6 => r.pick(&["\0", "\u{7f}", "\u{1b}%G", "\u{1b}#3", "\u{1b}="]).to_string(),
                    7 => { let k = 17 + r.below(20); let v: Vec<String> = (0..k).map(|_| format!("{}", r.below(50))).collect(); format!("\u{1b}[{}z", v.join(";")) }
                    _ => format!("\u{9b}{}\u{18}", num(r)),
                };
                t.push_str(&d);
            }
            let f = *r.pick(finals);
            let tok = if f == "TEXT" { r.pick(&["a", "lqk", "\u{e9}", "\u{3042}", "~", "x\u{301}"]).to_string() }
                else if f == "LONGm" { let k = 14 + r.below(12); let v: Vec<String> = (0..k).map(|_| r.pick(&["0", "1", "7", "27", "31", "44", "38;5;196", "48;2;1;2;3", "22", "39"]).to_string()).collect(); format!("\u{1b}[{}m", v.join(";")) }
                else if f == "m" { let k = r.below(5); let v: Vec<String> = (0..k).map(|_| r.pick(&["0", "1", "7", "27", "31", "44", "38;5;196", "48;2;1;2;3", "22", "39", "", "4294967296", "4294967297", "4294967327", "38;5;4294967492", "48;2;1;4294967312;3", "38;4294967301;1", "18446744073709551616"]).to_string()).collect(); format!("\u{1b}[{}m", v.join(";")) }
                else if let Some(rest) = f.strip_prefix("ESC ") { format!("\u{1b}{}", rest.replace(' ', "")) }
                else if f.len() == 1 && f.chars().next().unwrap().is_ascii_alphabetic() || f == "@" { let ps = match r.below(4) { 0 => String::new(), 1 => num(r), 2 => format!("{};{}", num(r), num(r)), _ => format!("{};{};{}", num(r), num(r), num(r)) }; format!("{}{}{}", if r.chance(3, 4) { "\u{1b}[" } else { "\u{9b}" }, ps, f) }
                else { f.to_string() };
            t.push_str(&tok);
        }
        t });
}

/// Walks in which the property's own operations alternate with operations that change the context they run in (modes incl.
/// DECSCNM / DECCOLM / DECOM / IRM / DECAWM, RIS, resize, margins, save / restore, SGR, charsets, tab stops, display()):
/// every step is probed from the state the IMPLEMENTATION reached, so anything remembered from an earlier step that should
/// have been invalidated by a later one (a cache, a flag, a stale copy) shows as a step whose result is not the closed form
/// of its observable pre-state.
fn walk_op_of(prop: &str, o: &Op) -> bool {
    if op_of(prop, o) { return true; }
    match prop {
        // modes govern later drawing / newline / insertion / erasing: those later operations belong to the property too
        "C12" => matches!(o, Op::Draw(_) | Op::Linefeed | Op::Ich(_) | Op::Dch(_) | Op::Ed(_) | Op::El(_) | Op::Align | Op::Cup(_, _) | Op::Tab),
        "C08" => matches!(o, Op::Draw(_) | Op::Ed(_) | Op::El(_) | Op::Ech(_)),
        "C14" => matches!(o, Op::Cup(_, _) | Op::Draw(_)),
        "C15" => matches!(o, Op::Tab | Op::Draw(_) | Op::Cup(_, _) | Op::Ich(_) | Op::Sgr(_) | Op::Linefeed),
        "C16" => matches!(o, Op::Draw(_) | Op::Dch(_) | Op::Ich(_) | Op::Cup(_, _)),
        "C18" => matches!(o, Op::Cha(_) | Op::Cup(_, _)),
        _ => false,
    }
}
fn context_walks(prop: &str, em: &mut Em, rng: &mut Rng, thorough: bool) {
    if !matches!(prop, "C04" | "C05" | "C06" | "C07" | "C08" | "C12" | "C13" | "C14" | "C15" | "C16" | "C17" | "C18" | "C20" | "C09" | "C01") { return; }
    let n = if thorough { 3000 } else { 330 };
    let exo = exotic_states(rng);
    let all = matches!(prop, "C09" | "C17" | "C01");
    for k in 0..n {
        let start = if k % 3 == 0 { fork(rng.pick(&exo)) } else { let (c, l) = *rng.pick(&[(4u32, 3u32), (6, 4), (10, 3), (3, 2), (12, 5), (80, 4)]); Screen::new(c, l) };
        let mut used: Vec<Op> = Vec::new();
        // only the property's own (and property-governed) operations are probed; the context operations are just applied, so that a
        // defect in one of THEM cannot make this property's check fire
        walk_if(em, rng, &start, 14, &|o| all || walk_op_of(prop, o), &mut |r, cur| {
            // something memoised on its arguments only shows when the SAME operation comes back after the context changed
            if !used.is_empty() && r.chance(1, 5) { return r.pick(&used).clone(); }
            let o = if r.chance(1, 2) {
                let mut got = None; for _ in 0..600 { let o = gen_op(r, cur); if all || walk_op_of(prop, &o) { got = Some(o); break; } } got.unwrap_or(Op::Bell)
            } else { match r.below(46) {
                0..=5 => Op::Sm(vec![5], true), 6..=10 => Op::Rm(vec![5], true), 11..=14 => Op::Reset,
                15..=18 => Op::Resize(Some(1 + r.below(cur.lines as u64 + 2) as u32), Some(1 + r.below(cur.columns as u64 + 6) as u32)),
                19 | 20 => Op::Sm(vec![3], true), 21 => Op::Rm(vec![3], true), 22 => Op::Sm(vec![*r.pick(&[6u32, 7, 4, 25, 20])], true), 23 => Op::Rm(vec![*r.pick(&[6u32, 7, 4, 25, 20])], true),
                24 | 25 => Op::Margins(Some(1 + r.below(cur.lines as u64) as u32), Some(1 + r.below(cur.lines as u64) as u32)), 26 => Op::Margins(None, None), 27 => Op::Save, 28 => Op::Restore,
                29 => Op::Sgr(gen_sgr(r)), 30 => Op::DefCharset(r.pick(&["0", "B", "U", "V"]).to_string(), r.pick(&["(", ")"]).to_string()), 31 => if r.chance(1, 2) { Op::ShiftOut } else { Op::ShiftIn },
                32 => Op::SetTab, 33 => Op::Tab, 34 => Op::Display, 35 | 36 => Op::Cup(arg(r, cur.lines), arg(r, cur.columns)), 37 | 38 => Op::Draw(gen_text(r)),
                _ => match r.below(12) { 0 => Op::El(*r.pick(&[None, Some(1), Some(2)])), 1 => Op::Ed(*r.pick(&[None, Some(1), Some(2)])), 2 => Op::Ech(arg(r, cur.columns)), 3 => Op::Il(arg(r, cur.lines)), 4 => Op::Dl(arg(r, cur.lines)),
                    5 => Op::Ich(arg(r, cur.columns)), 6 => Op::Dch(arg(r, cur.columns)), 7 => Op::Index, 8 => Op::RevIndex, 9 => Op::Align, 10 => Op::Cha(Some(9999)), _ => Op::Sm(vec![4], false) },
            } };
            if walk_op_of(prop, &o) && used.len() < 6 { used.push(o.clone()); }
            o
        });
    }
}

/// "X, change the context, X again": anything memoised on the arguments of X (or derived from state that the context change
/// should have invalidated) shows on the second X. A short property-heavy prefix sets the scene.
fn memo_triples(prop: &str, em: &mut Em, rng: &mut Rng, thorough: bool) {
    if !matches!(prop, "C04" | "C05" | "C06" | "C07" | "C08" | "C12" | "C13" | "C14" | "C15" | "C16" | "C18" | "C20") { return; }
    let n = if thorough { 12000 } else { 2500 };
    let exo = exotic_states(rng);
    let ctx = |r: &mut Rng, cur: &Screen| -> Op { match r.below(20) {
        0..=3 => Op::Sm(vec![5], true), 4..=6 => Op::Rm(vec![5], true), 7..=10 => Op::Reset,
        11..=13 => Op::Resize(Some(1 + r.below(cur.lines as u64 + 3) as u32), Some(1 + r.below(cur.columns as u64 + 30) as u32)),
        14 => Op::Sm(vec![3], true), 15 => Op::Rm(vec![3], true), 16 => Op::Restore, 17 => Op::Margins(Some(1 + r.below(cur.lines as u64) as u32), Some(1 + r.below(cur.lines as u64) as u32)),
        18 => Op::Sm(vec![*r.pick(&[6u32, 7, 4])], true), _ => Op::Rm(vec![*r.pick(&[6u32, 7, 4])], true) } };
    let ctx = |r: &mut Rng, cur: &Screen| -> Op { if r.chance(1, 5) { match r.below(8) { 0 => Op::El(Some(1)), 1 => Op::Ed(Some(1)), 2 => Op::Draw(gen_text(r)), 3 => Op::Cha(Some(9999)), 4 => Op::Dch(arg(r, cur.columns)), 5 => Op::Ich(arg(r, cur.columns)), 6 => Op::Sgr(gen_sgr(r)), _ => Op::Index } } else { ctx(r, cur) } };
    for k in 0..n {
        let mut cur = if k % 4 == 0 { fork(rng.pick(&exo)) } else { let (c, l) = *rng.pick(&[(4u32, 3u32), (6, 4), (10, 3), (24, 2), (12, 5), (80, 3)]); Screen::new(c, l) };
        let pick_x = |r: &mut Rng, cur: &Screen| -> Op { let core = r.chance(2, 3); for _ in 0..900 { let o = gen_op(r, cur); if (core && op_of(prop, &o)) || (!core && walk_op_of(prop, &o)) { return o; } } Op::Bell };
        let mut seq: Vec<(Op, bool)> = Vec::new();
        if rng.chance(1, 2) { let o = ctx(rng, &cur); seq.push((o, false)); }
        for _ in 0..rng.below(4) { let o = if rng.chance(1, 4) { Op::Save } else { pick_x(rng, &cur) }; seq.push((o, true)); }
        let x = pick_x(rng, &cur);
        seq.push((x.clone(), true)); seq.push((ctx(rng, &cur), false)); if rng.chance(1, 3) { seq.push((ctx(rng, &cur), false)); } seq.push((x.clone(), true));
        if rng.chance(1, 3) { seq.push((ctx(rng, &cur), false)); seq.push((x, true)); }
        for (o, probe) in seq.iter() {
            // the context operation is drawn for the state at the time, but geometry-dependent arguments are only suggestions: apply as is
            if *probe && walk_op_of(prop, o) { em.probe(&cur, o); }
            let oc = o.clone(); if safe(|| oc.apply(&mut cur)).is_none() { em.bump("walk_panics"); break; }
            if cur.columns > 200 || cur.lines > 60 { break; }
        }
    }
}

/// every plan ends with its own operations probed from the exotic states
fn universal(prop: &str, em: &mut Em, rng: &mut Rng, thorough: bool) {
    if std::env::var("MT_NO_WALKS").is_err() { memo_triples(prop, em, rng, thorough); }
    prop_events(prop, em, rng, thorough);
    if std::env::var("MT_NO_WALKS").is_err() { context_walks(prop, em, rng, thorough); }
    let sts = exotic_states(rng);
    if prop == "C10" { for s in sts.iter() { em.display_probe(s); } return; }
    if !matches!(prop, "C04" | "C05" | "C06" | "C07" | "C08" | "C09" | "C12" | "C13" | "C14" | "C15" | "C16" | "C17" | "C18" | "C20" | "C01") { return; }
    let per = if thorough { 40 } else { 10 };
    for s in sts.iter() {
        let mut got = 0; let mut tries = 0;
        while got < per && tries < 4000 { tries += 1; let o = gen_op(rng, s); if !op_of(prop, &o) { continue; } em.probe(s, &o); got += 1;
            if matches!(prop, "C15" | "C14") && got >= 2 { break; } }
    }
}

pub fn run(mode: &str, em: &mut Em, rng: &mut Rng, thorough: bool) {
    run_plan(mode, em, rng, thorough);
    universal(mode, em, rng, thorough);
}
fn run_plan(mode: &str, em: &mut Em, rng: &mut Rng, thorough: bool) {
    match mode {
        "C01" => c01(em, rng, thorough), "C02" => c02(em, rng, thorough), "C03" => c03(em, rng, thorough),
        "C04" => c04(em, rng, thorough), "C05" => c05(em, rng, thorough), "C06" => c06(em, rng, thorough),
        "C07" => c07(em, rng, thorough), "C08" => c08(em, rng, thorough), "C09" => c09(em, rng, thorough),
        "C10" => c10(em, rng, thorough), "C11" => c11(em, rng, thorough), "C12" => c12(em, rng, thorough),
        "C13" => c13(em, rng, thorough), "C14" => c14(em, rng, thorough), "C15" => c15(em, rng, thorough),
        "C16" => c16(em, rng, thorough), "C17" => c17(em, rng, thorough), "C18" => c18(em, rng, thorough),
        "C19" => c19(em, rng, thorough), "C20" => c20(em, rng, thorough),
        _ => panic!("unknown mode"),
    }
}

// ------------------------------------------------------------------ C05 cursor movement
fn c05(em: &mut Em, rng: &mut Rng, thorough: bool) {
    let geos: Vec<(u32, u32)> = if thorough { SMALL.iter().chain(MED.iter()).cloned().collect() } else { SMALL.to_vec() };
    for &(c, l) in geos.iter() {
        em.init_check(c, l);
        let per = (all_margins(l).len() as u64) * 4 * (l as u64) * (c as u64 + 1);
        let target = if thorough { 6000 } else { 500 };
        let sts = grid_states(em, rng, c, l, &[0, 2], target.min(per), per, &|_, _| {});
        for s in sts.iter() {
            let mut ops: Vec<(Op, String)> = Vec::new();
            for p in pset(l) { ops.push((Op::Cuu(p), csi(&p2s(p), 'A'))); ops.push((Op::Cud(p), csi(&p2s(p), 'B'))); ops.push((Op::Cnl(p), csi(&p2s(p), 'E'))); ops.push((Op::Cpl(p), csi(&p2s(p), 'F'))); ops.push((Op::Vpa(p), csi(&p2s(p), 'd'))); ops.push((Op::Cud(p), csi(&p2s(p), 'e'))); }
            for p in pset(c) { ops.push((Op::Cuf(p), csi(&p2s(p), 'C'))); ops.push((Op::Cub(p), csi(&p2s(p), 'D'))); ops.push((Op::Cha(p), csi(&p2s(p), 'G'))); ops.push((Op::Cuf(p), csi(&p2s(p), 'a'))); }
            for pl in pset(l) { for pc in pset(c) { let t = format!("{};{}", p2s(pl), p2s(pc)); ops.push((Op::Cup(pl, pc), csi(&t, if rng.chance(1, 2) { 'H' } else { 'f' }))); } }
            ops.push((Op::Backspace, "\u{8}".into())); ops.push((Op::CR, "\r".into()));
            let keep = if thorough { (1, 2) } else { (1, 12) };
            for (op, text) in ops {
                if !rng.chance(keep.0, keep.1) { continue; }
                if rng.chance(2, 3) { em.probe(s, &op); }
                else {
                    // through the recogniser: an omitted parameter arrives as 0
                    let via = match &op { Op::Cuu(p) => Op::Cuu(dl(*p)), Op::Cud(p) => Op::Cud(dl(*p)), Op::Cnl(p) => Op::Cnl(dl(*p)), Op::Cpl(p) => Op::Cpl(dl(*p)), Op::Vpa(p) => Op::Vpa(dl(*p)),
                        Op::Cuf(p) => Op::Cuf(dl(*p)), Op::Cub(p) => Op::Cub(dl(*p)), Op::Cha(p) => Op::Cha(dl(*p)), Op::Cup(a, b) => Op::Cup(dl(*a), dl(*b)), o => o.clone() };
                    em.probe_via_parser(s, &via, &text, true);
                }
            }
        }
    }
    for s in random_states(em, rng, BIG, if thorough { 40 } else { 8 }).iter() { for _ in 0..20 { let o = match rng.below(6) { 0 => Op::Cuu(arg(rng, s.lines)), 1 => Op::Cud(arg(rng, s.lines)), 2 => Op::Cuf(arg(rng, s.columns)), 3 => Op::Cub(arg(rng, s.columns)), 4 => Op::Cup(arg(rng, s.lines), arg(rng, s.columns)), _ => Op::Vpa(arg(rng, s.lines)) }; em.probe(s, &o); } }
}

// ------------------------------------------------------------------ C06 scrolling, IL/DL, DECSTBM
fn c06(em: &mut Em, rng: &mut Rng, thorough: bool) {
    let geos: &[(u32, u32)] = &[(1, 1), (2, 2), (3, 3), (4, 5), (3, 4), (9, 3)];
    for &(c, l) in geos.iter() {
        let per = (all_margins(l).len() as u64) * 6 * (l as u64) * (c as u64 + 1);
        let target = if thorough { 5000 } else { 450 };
        let sts = grid_states(em, rng, c, l, &[0, 1, 2], target.min(per), per, &|sp, r| { sp.materialise = r.chance(1, 4); sp.lnm = r.chance(1, 3); sp.scnm = r.chance(1, 6); sp.awm_off = false; });
        for s in sts.iter() {
            em.probe(s, &Op::Index); em.probe(s, &Op::RevIndex); em.probe(s, &Op::Linefeed);
            if rng.chance(1, 3) { em.probe_via_parser(s, &Op::Linefeed, *rng.pick(&["\n", "\u{b}", "\u{c}", "\u{1b}E"]), true); }
            if rng.chance(1, 3) { em.probe_via_parser(s, &Op::Index, "\u{1b}D", true); em.probe_via_parser(s, &Op::RevIndex, "\u{1b}M", true); }
            for p in pset(l) { if thorough || rng.chance(1, 2) { em.probe(s, &Op::Il(p)); em.probe(s, &Op::Dl(p)); } }
            if rng.chance(1, 4) { let p = *rng.pick(&pset(l)); em.probe_via_parser(s, &Op::Il(dl(p)), &csi(&p2s(p), 'L'), true); em.probe_via_parser(s, &Op::Dl(dl(p)), &csi(&p2s(p), 'M'), true); }
            // autowrap at the pending-wrap column
            if s.cursor.x == s.columns { em.probe(s, &Op::Draw("w".into())); em.probe(s, &Op::Draw("\u{3042}".into())); }
            let ps = pset(l);
            for _ in 0..(if thorough { 12 } else { 3 }) { let (a, b) = (*rng.pick(&ps), *rng.pick(&ps)); em.probe(s, &Op::Margins(a, b));
                if rng.chance(1, 3) { let t = if b.is_none() { p2s(a) } else { format!("{};{}", p2s(a), p2s(b)) }; em.probe_via_parser(s, &Op::Margins(dl(a), if b.is_none() { None } else { b }), &csi(&t, 'r'), true); } }
        }
    }
}

// ------------------------------------------------------------------ C07 erase
fn c07(em: &mut Em, rng: &mut Rng, thorough: bool) {
    let geos: &[(u32, u32)] = &[(1, 1), (2, 2), (4, 3), (5, 4), (9, 2)];
    for &(c, l) in geos.iter() {
        let per = (all_margins(l).len() as u64) * 4 * (l as u64) * (c as u64 + 1);
        let target = if thorough { 4000 } else { 400 };
        let sts = grid_states(em, rng, c, l, &[1, 2], target.min(per), per, &|sp, r| { sp.scnm = r.chance(1, 6); sp.materialise = r.chance(1, 5); });
        for s in sts.iter() {
            for h in [None, Some(0), Some(1), Some(2), Some(3), Some(4), Some(5), Some(9999)] { em.probe(s, &Op::Ed(h)); em.probe(s, &Op::El(h)); }
            for p in pset(c) { if thorough || rng.chance(1, 2) { em.probe(s, &Op::Ech(p)); } }
            if rng.chance(1, 3) { let h = *rng.pick(&[None, Some(0), Some(1), Some(2), Some(3), Some(7)]); em.probe_via_parser(s, &Op::Ed(dl(h)), &csi(&p2s(h), 'J'), true); em.probe_via_parser(s, &Op::El(dl(h)), &csi(&p2s(h), 'K'), true);
                let p = *rng.pick(&pset(c)); em.probe_via_parser(s, &Op::Ech(dl(p)), &csi(&p2s(p), 'X'), true); }
        }
    }
}

// ------------------------------------------------------------------ C08 SGR
fn c08(em: &mut Em, rng: &mut Rng, thorough: bool) {
    let mut sts = Vec::new();
    for k in 0..SGRS.len() { let mut sp = base_spec(3, 2); sp.sgr = k; sp.fill = 1; sp.scnm = k % 4 == 3; if let Some(s) = build(&sp, rng) { sts.push(s); } }
    let docs: Vec<u32> = vec![0, 1, 3, 4, 5, 7, 9, 22, 23, 24, 25, 27, 29, 30, 31, 32, 33, 34, 35, 36, 37, 38, 39, 40, 41, 42, 43, 44, 45, 46, 47, 48, 49, 90, 91, 92, 93, 94, 95, 96, 97, 100, 101, 102, 103, 104, 105, 106, 107];
    // every single code
    let top = if thorough { 9999 } else { 320 };
    for (i, s) in sts.iter().enumerate() { for code in 0..=top { if thorough || i < 3 || code < 110 { em.probe(s, &Op::Sgr(vec![code])); } } }
    if !thorough { for _ in 0..400 { let code = 320 + rng.below(9680) as u32; em.probe(&sts[rng.below(sts.len() as u64) as usize], &Op::Sgr(vec![code])); } }
    em.probe(&sts[0], &Op::Sgr(vec![]));
    // pairs and triples over the documented codes
    let np = if thorough { 30000 } else { 2500 };
    for _ in 0..np { let n = 2 + rng.below(2); let v: Vec<u32> = (0..n).map(|_| *rng.pick(&docs)).collect(); em.probe(rng.pick(&sts), &Op::Sgr(v)); }
    // extended colour forms, every n in 0..=300, truncated tails
    for key in [38u32, 48] { for n in 0..=300u32 { let s = rng.pick(&sts); em.probe(s, &Op::Sgr(vec![key, 5, n])); if thorough || n % 7 == 0 { em.probe(s, &Op::Sgr(vec![key, 5, n, 1])); em.probe(s, &Op::Sgr(vec![key, 2, n, 300 - n, n / 2])); em.probe(s, &Op::Sgr(vec![key, 2, n, 7, 255, 4])); } }
        for tail in [vec![], vec![5], vec![2], vec![2, 1], vec![2, 1, 2], vec![2, 256, 0, 0], vec![2, 0, 256, 0], vec![2, 0, 0, 256], vec![2, 255, 255, 255], vec![3, 1], vec![0], vec![5, 256], vec![5, 9999], vec![2, 9999, 1, 1, 31]] { let mut v = vec![key]; v.extend(tail); for s in sts.iter() { em.probe(s, &Op::Sgr(v.clone())); let mut w = vec![1]; w.extend(v.clone()); w.push(4); em.probe(s, &Op::Sgr(w)); } } }
    for _ in 0..(if thorough { 20000 } else { 1500 }) { em.probe(rng.pick(&sts), &Op::Sgr(gen_sgr(rng))); }
    // through the recogniser, and "cells drawn afterwards carry exactly that rendition"
    for _ in 0..(if thorough { 4000 } else { 400 }) { let v = gen_sgr(rng); let t = v.iter().map(|x| x.to_string()).collect::<Vec<_>>().join(";"); let dv = if v.is_empty() { vec![0] } else { v.clone() };
        em.probe_via_parser(rng.pick(&sts), &Op::Sgr(dv), &csi(&t, 'm'), true); }
    for s in sts.iter() { for _ in 0..(if thorough { 200 } else { 30 }) { let mut f = fork(s); let v = gen_sgr(rng); if safe(|| f.select_graphic_rendition(&v)).is_some() { em.probe(&f, &Op::Draw("Z".into())); } } }
    // rendition x insert mode x character width x column: every cell a draw writes (the stub cell of a wide character too) carries it
    for s in sts.iter() { for irm in [false, true] { for awm_off in [false, true] { for col in [1u32, 2, 3] {
        let mut f = fork(s); let ok = safe(|| { if irm { f.set_mode(&[4], false); } if awm_off { f.reset_mode(&[7], true); } f.cursor_position(Some(1), Some(col)); f.dirty.clear(); }).is_some();
        if !ok { continue; }
        for t in ["\u{4e2d}", "a\u{4e2d}", "\u{4e2d}b", "x", "e\u{301}"] { em.probe(&f, &Op::Draw(t.to_string())); } } } } }
}

// ------------------------------------------------------------------ C04 draw
fn c04(em: &mut Em, rng: &mut Rng, thorough: bool) {
    for code in ["B", "0", "U", "V"] { for shifted in [false, true] {
        let r = safe(|| { let mut s = Screen::new(6, 2); s.define_charset(code, if shifted { ")" } else { "(" }); if shifted { s.shift_out(); } s.select_graphic_rendition(&[1, 33]); s.dirty.clear(); s });
        if let Some(s) = r { for t in ["\u{fe}", "\u{ff}", "\u{100}", "\u{101}", "\u{fd}\u{fe}\u{ff}\u{100}\u{101}", "\u{7f}\u{80}", "\u{0}\u{1}"] { em.probe(&s, &Op::Draw(t.to_string())); } } } }
    let geos: &[(u32, u32)] = &[(1, 1), (1, 3), (2, 2), (3, 1), (4, 3), (5, 4), (10, 2)];
    for &(c, l) in geos.iter() {
        let per = (all_margins(l).len() as u64) * 6 * (l as u64) * (c as u64 + 1);
        let target = if thorough { 5000 } else { 420 };
        let sts = grid_states(em, rng, c, l, &[0, 1, 3], target.min(per), per, &|sp, r| { sp.awm_off = r.chance(1, 3); sp.irm = r.chance(1, 3); sp.lnm = r.chance(1, 4); sp.scnm = r.chance(1, 6); sp.charset = if r.chance(1, 4) { 1 + r.below(3) as u8 } else { 0 }; sp.materialise = r.chance(1, 5); });
        for s in sts.iter() {
            for t in TEXTS.iter() { if thorough || rng.chance(1, 3) { em.probe(s, &Op::Draw(t.to_string())); } }
            for _ in 0..(if thorough { 6 } else { 2 }) { let n = 1 + rng.below(4); let t: String = (0..n).map(|_| { let w = *rng.pick(TEXTS); w.chars().next().unwrap() }).collect(); em.probe(s, &Op::Draw(t)); }
            if rng.chance(1, 4) { let t = *rng.pick(&["ab", "\u{3042}x", "e\u{301}", "z"]); em.probe_via_parser(s, &Op::Draw(t.to_string()), t, true); }
        }
    }
}

// ------------------------------------------------------------------ C13 ICH/DCH
fn c13(em: &mut Em, rng: &mut Rng, thorough: bool) {
    let geos: &[(u32, u32)] = &[(1, 1), (2, 1), (3, 2), (5, 2), (6, 3), (10, 2)];
    for &(c, l) in geos.iter() {
        let per = 2 * 6 * (l as u64) * (c as u64 + 1);
        let target = if thorough { 3000 } else { 300 };
        let mut sts = Vec::new();
        for decom_m in [None, Some((0u32, l - 1))] { if decom_m.is_some() && l < 2 { continue; } for fill in [0u8, 1, 2] { for y in 0..l { for x in 0..=c { if !rng.chance(target.min(per), per) { continue; }
            let mut sp = base_spec(c, l); sp.fill = fill; sp.cur = (x, y); sp.margins = decom_m; sp.scnm = rng.chance(1, 6); sp.materialise = rng.chance(1, 4); sp.sgr = rng.below(10) as usize;
            if let Some(s) = build(&sp, rng) { sts.push(s); } } } } }
        for s in sts.iter() {
            for p in pset(c) { em.probe(s, &Op::Ich(p)); em.probe(s, &Op::Dch(p)); }
            if rng.chance(1, 3) { let p = *rng.pick(&pset(c)); em.probe_via_parser(s, &Op::Ich(dl(p)), &csi(&p2s(p), '@'), true); em.probe_via_parser(s, &Op::Dch(dl(p)), &csi(&p2s(p), 'P'), true); }
            // edit sequences on one row: every step is probed from the state the implementation actually reached
            let seqs = if thorough { 12 } else { 3 };
            for _ in 0..seqs { let mut cur = fork(s); let n = 2 + rng.below(4);
                for _ in 0..n { let p = *rng.pick(&pset(c)); let o = match rng.below(7) { 0 | 1 => Op::Ich(p), 2 | 3 => Op::Dch(p), 4 => Op::El(*rng.pick(&[None, Some(0), Some(1), Some(2)])), 5 => Op::Ech(p), _ => { let mut t = String::new(); t.push(*rng.pick(&['p', 'q', '\u{3042}'])); Op::Draw(t) } };
                    if rng.chance(1, 4) { let x = rng.below(c as u64 + 1) as u32; let _ = safe(|| cur.cursor_to_column(Some(x + 1))); }
                    if rng.chance(1, 5) { let _ = safe(|| if cur.mode.contains(&memterm::modes::IRM) { cur.reset_mode(&[4], false) } else { cur.set_mode(&[4], false) }); }
                    em.probe(&cur, &o); let oc = o.clone(); if safe(|| oc.apply(&mut cur)).is_none() { break; } }
                // never reappear: grow the row afterwards and look at what shows up
                let nc = c + 1 + rng.below(3) as u32; em.probe(&cur, &Op::Resize(None, Some(nc)));
            }
        }
    }
}

// ------------------------------------------------------------------ C16 resize
fn c16(em: &mut Em, rng: &mut Rng, thorough: bool) {
    let geos: &[(u32, u32)] = &[(1, 1), (2, 2), (3, 4), (5, 3), (6, 5), (10, 3)];
    for &(c, l) in geos.iter() {
        let n = if thorough { 400 } else { 45 };
        for _ in 0..n {
            let mut sp = random_spec(rng, c, l); sp.fill = *rng.pick(&[1u8, 1, 2, 3]); if rng.chance(1, 2) { sp.walk = 0; }
            let s = match build(&sp, rng) { Some(s) => s, None => { em.bump("builder_panics"); continue } };
            for nl in 1..=l + 2 { for nc in 1..=c + 2 { if thorough || rng.chance(1, 3) || (nl == l && nc == c) { em.probe(&s, &Op::Resize(Some(nl), Some(nc))); } } }
            em.probe(&s, &Op::Resize(None, None)); em.probe(&s, &Op::Resize(None, Some(rng.below(c as u64 + 2) as u32 + 1))); em.probe(&s, &Op::Resize(Some(rng.below(l as u64 + 2) as u32 + 1), None));
            // sequences (shrink then grow): each step probed from the implementation's own state
            for _ in 0..(if thorough { 6 } else { 2 }) { let mut cur = fork(&s);
                for _ in 0..3 { let o = Op::Resize(Some(1 + rng.below(l as u64 + 2) as u32), Some(1 + rng.below(c as u64 + 2) as u32)); em.probe(&cur, &o); if safe(|| o.apply(&mut cur)).is_none() { break; }
                    if rng.chance(1, 2) { let o2 = gen_op(rng, &cur); em.probe(&cur, &o2); let _ = safe(|| o2.apply(&mut cur)); } }
                em.probe(&cur, &Op::Resize(Some(l + 2), Some(c + 3)));
            }
            // DECCOLM round trip
            if rng.chance(1, 4) { let mut cur = fork(&s); for o in [Op::Sm(vec![3], true), Op::Draw("col".into()), Op::Rm(vec![3], true), Op::Rm(vec![3], true), Op::Sm(vec![3], true), Op::Sm(vec![3], true), Op::Rm(vec![3], true)] { em.probe(&cur, &o); if safe(|| o.apply(&mut cur)).is_none() { break; } } }
        }
    }
    // anything an earlier operation may have left at or beyond the edge must not come into view when the screen grows:
    // every edge-touching operation from the pending-wrap column (and from the last row) under a coloured rendition,
    // then grow, and shrink-then-grow
    for &(c, l) in [(3u32, 2u32), (5, 3), (10, 2)].iter() {
        let edge_ops: Vec<Op> = vec![Op::El(Some(0)), Op::El(Some(1)), Op::El(Some(2)), Op::Ed(Some(0)), Op::Ed(Some(1)), Op::Ed(Some(2)), Op::Ech(Some(3)), Op::Ich(Some(1)), Op::Dch(Some(1)),
            Op::Draw("\u{4e2d}".into()), Op::Draw("\u{301}".into()), Op::Tab, Op::SetTab, Op::Il(Some(1)), Op::Dl(Some(1)), Op::Index, Op::RevIndex, Op::Linefeed, Op::Align, Op::Save, Op::Cub(Some(1))];
        for e in edge_ops.iter() { for fillk in [0u8, 1] { for lastrow in [false, true] {
            let mut sp = base_spec(c, l); sp.fill = fillk;
            let mut st = match build(&sp, rng) { Some(x) => x, None => continue };
            let e2 = e.clone();
            let r = safe(move || { st.select_graphic_rendition(&[44, 7, 1]); st.cursor_position(Some(if lastrow { l } else { 1 }), Some(c)); st.draw("x"); e2.apply(&mut st); st });
            if let Some(st) = r {
                em.probe(&st, &Op::Resize(None, Some(c + 2))); em.probe(&st, &Op::Resize(Some(l + 2), Some(c + 3)));
                let mut cur = fork(&st); let o = Op::Resize(Some(l.max(2) - 1), Some(c.max(2) - 1)); em.probe(&cur, &o);
                if safe(|| o.apply(&mut cur)).is_some() { em.probe(&cur, &Op::Resize(Some(l + 1), Some(c + 3))); }
            }
        } } }
    }
}

// ------------------------------------------------------------------ C18 tabs
fn c18(em: &mut Em, rng: &mut Rng, thorough: bool) {
    let widths: Vec<u32> = if thorough { (1..=140).collect() } else { vec![1, 2, 7, 8, 9, 10, 16, 17, 24, 25, 33, 64, 80, 81, 132, 140] };
    for &w in widths.iter() {
        em.init_check(w, 2);
        for tabs in [0u8, 1, 2] { for _rep in 0..(if thorough { 2 } else { 1 }) {
            let mut sp = base_spec(w, 2); sp.tabs = tabs; sp.fill = if rng.chance(1, 3) { 2 } else { 0 };
            let mut s = match build(&sp, rng) { Some(s) => s, None => continue };
            // a few more HTS/TBC edits, all probed
            for _ in 0..rng.below(5) { let x = rng.below(w as u64 + 1) as u32; let _ = safe(|| s.cursor_to_column(Some(x + 1))); let o = if rng.chance(2, 3) { Op::SetTab } else { Op::Tbc(*rng.pick(&[None, Some(0), Some(3), Some(1), Some(2), Some(9999)])) }; em.probe(&s, &o); let _ = safe(|| o.apply(&mut s)); }
            if rng.chance(1, 3) { let nw = 1 + rng.below(w as u64 + 10) as u32; let o = Op::Resize(None, Some(nw)); em.probe(&s, &o); let _ = safe(|| o.apply(&mut s)); }
            let cols = s.columns;
            for x in 0..=cols { if cols > 40 && !thorough && !rng.chance(1, 4) { continue; }
                let mut f = fork(&s); if x == cols { let _ = safe(|| { f.cursor_to_column(Some(cols)); f.draw("x"); }); } else { let _ = safe(|| f.cursor_to_column(Some(x + 1))); }
                em.probe(&f, &Op::Tab); if rng.chance(1, 6) { em.probe_via_parser(&f, &Op::Tab, "\t", true); em.probe_via_parser(&f, &Op::SetTab, "\u{1b}H", true); let h = *rng.pick(&[None, Some(0), Some(3), Some(2)]); em.probe_via_parser(&f, &Op::Tbc(dl(h)), &csi(&p2s(h), 'g'), true); }
                if rng.chance(1, 8) { em.probe(&f, &Op::SetTab); em.probe(&f, &Op::Tbc(None)); em.probe(&f, &Op::Tbc(Some(3))); em.probe(&f, &Op::Tbc(Some(5))); em.probe(&f, &Op::Reset); } }
        } }
    }
    // reset and HT while a DECCOLM width is remembered (saved_columns), also after a further resize
    for &w in [8u32, 10, 80, 132, 140].iter() { for extra in [None, Some(20u32), Some(150)] {
        let mut s = Screen::new(w, 2);
        let r = safe(move || { s.set_mode(&[3], true); if let Some(nw) = extra { s.resize(None, Some(nw)); } s });
        if let Some(mut s) = r { em.probe(&s, &Op::Reset); em.probe(&s, &Op::Rm(vec![3], true));
            for x in [0u32, 7, 8, 79, 80, 131] { let mut f = fork(&s); let _ = safe(|| f.cursor_to_column(Some(x + 1))); em.probe(&f, &Op::Tab); }
            let _ = safe(|| s.reset()); for x in [0u32, 7, 8, 79, 80, 131] { let mut f = fork(&s); let _ = safe(|| f.cursor_to_column(Some(x + 1))); em.probe(&f, &Op::Tab); } }
    } }
    // HT before, between and after width changes, systematically (anything derived from the stops or the width and kept
    // across a resize shows here): narrow then widen, widen then narrow, with extra stops set at various columns
    for &(w0, w1, w2) in [(80u32, 10u32, 80u32), (24, 10, 30), (20, 8, 40), (140, 132, 140), (10, 30, 12), (16, 9, 17)].iter() {
        for start in [0u32, 7, 8, 9] { for extra in [None, Some(12u32), Some(17)] { for tab_first in [false, true] {
            let mut cur = Screen::new(w0, 2);
            let mut seq: Vec<Op> = Vec::new();
            if let Some(e) = extra { seq.push(Op::Cha(Some(e + 1))); seq.push(Op::SetTab); }
            seq.push(Op::Cha(Some(start + 1))); if tab_first { seq.push(Op::Tab); }
            seq.push(Op::Resize(None, Some(w1))); seq.push(Op::Cha(Some(start + 1))); seq.push(Op::Tab); seq.push(Op::Tab);
            seq.push(Op::Resize(None, Some(w2))); seq.push(Op::Cha(Some(start + 1))); seq.push(Op::Tab); seq.push(Op::Tab); seq.push(Op::Tab);
            for o in seq.iter() { if matches!(o, Op::Tab | Op::SetTab) { em.probe(&cur, o); } let oc = o.clone(); if safe(|| oc.apply(&mut cur)).is_none() { break; } }
        } } }
    }
    // DECCOLM between setting and using a stop
    let mut s = Screen::new(80, 2);
    for o in [Op::Sm(vec![3], true), Op::Cha(Some(120)), Op::SetTab, Op::Rm(vec![3], true), Op::Cha(Some(75)), Op::Tab, Op::Tab] { em.probe(&s, &o); let _ = safe(|| o.apply(&mut s)); }
}

// ------------------------------------------------------------------ C20 charsets
fn c20(em: &mut Em, rng: &mut Rng, _thorough: bool) {
    for (code, _id) in [("B", 0), ("0", 1), ("U", 2), ("V", 3)] { for slot in ["(", ")"] { for shifted in [false, true] {
        let mut s = Screen::new(2, 1);
        let o = Op::DefCharset(code.into(), slot.into()); em.probe(&s, &o); o.apply(&mut s);
        let o = if shifted { Op::ShiftOut } else { Op::ShiftIn }; em.probe(&s, &o); o.apply(&mut s);
        for cp in 0..256u32 { let t = char::from_u32(cp).unwrap().to_string(); em.probe(&s, &Op::Draw(t)); }
        for cp in [256u32, 0x2500, 0x3042, 0x416, 0xffff] { em.probe(&s, &Op::Draw(char::from_u32(cp).unwrap().to_string())); }
        // translation is per code point: strings that mix code points below 256 and above 255, in every order
        { let w = Screen::new(8, 2); let mut w2 = fork(&w); let o1 = Op::DefCharset(code.into(), slot.into()); o1.apply(&mut w2); let o2 = if shifted { Op::ShiftOut } else { Op::ShiftIn }; o2.apply(&mut w2);
          for t in ["lq\u{3bb}qk", "\u{3042}a", "a\u{3042}", "q\u{100}q", "\u{e9}\u{416}x", "xq\u{ffff}", "\u{4e2d}\u{e9}q~"] { em.probe(&w2, &Op::Draw(t.to_string())); } }
        // through the recogniser, 8-bit mode (designators/shifts act) and UTF-8 mode (ignored)
        for utf8 in [false, true] { for _ in 0..24 { let cp = rng.below(256) as u32; if (cp < 0x20 && cp != 0) || cp == 0x9b || cp == 0x9d { continue; } let ch = char::from_u32(cp).unwrap();
            let f = Screen::new(2, 1); let text = format!("\u{1b}{}{}{}{}", slot, code, if shifted { "\u{e}" } else { "\u{f}" }, ch);
            // expected end state is compared as a whole-history below (kind 7) — here: local probe of the final draw on the state the parser reached
            let scr = Arc::new(Mutex::new(f)); let pre = safe(|| { let mut p = Parser::new(scr.clone()); p.set_use_utf8(utf8); p.feed(text[..text.len() - ch.len_utf8()].to_string()); drop(p); let g = scr.lock().unwrap(); fork(&g) });
            if let Some(pre) = pre { let want_g1 = shifted && !utf8; let want = if utf8 { 0 } else { _id };
                let got_g = pre.charset == memterm::screen::Charset::G1; let got = crate::enc::csid(if slot == "(" { &pre.g0_charset } else { &pre.g1_charset });
                let dflt = if slot == "(" { 0 } else { 1 };
                if got_g != want_g1 || got != (if utf8 { dflt } else { want }) { em.next_id(); em.fail("C20", format!("parser path utf8={} text={:?}: charset state G1={} table={}", utf8, text, got_g, got)); }
                em.probe_via_parser(&pre, &Op::Draw(ch.to_string()), &ch.to_string(), utf8); }
            else { em.next_id(); em.fail("C01", format!("panic feeding {:?}", text)); } } }
    } } }
    for cs in 0u8..4 { for fill in [0u8, 2] { let sp = Spec { cols: 3, lines: 2, charset: cs, fill, clear_dirty: true, ..Default::default() };
        if let Some(mut s) = build(&sp, rng) { for so in [false, true] { if so { s.shift_out() } else { s.shift_in() }
            for t in ["\u{e}", "\u{f}", "\u{1b}(0", "\u{1b})U", "\u{1b}(B", "\u{1b})V", "\u{e}\u{f}", "\u{1b}(Vq"] {
                // UTF-8 mode: no event at all (a trailing printable is drawn through the unchanged charset state)
                let expect = if t.ends_with('q') { Op::Draw("q".into()) } else { Op::Bell };
                em.probe_via_parser(&s, &expect, t, true); }
            em.probe_via_parser(&s, &Op::ShiftOut, "\u{e}", false); em.probe_via_parser(&s, &Op::ShiftIn, "\u{f}", false);
            em.probe_via_parser(&s, &Op::DefCharset("0".into(), "(".into()), "\u{1b}(0", false); em.probe_via_parser(&s, &Op::DefCharset("U".into(), ")".into()), "\u{1b})U", false); } } } }
    for (g0, g1, so) in [("0", "U", false), ("U", "0", true), ("V", "B", true), ("B", "V", false)] {
        let r = safe(|| { let mut s = Screen::new(4, 2); s.define_charset(g0, "("); s.define_charset(g1, ")"); if so { s.shift_out(); } s.draw("q"); s.dirty.clear(); s });
        if let Some(s) = r { em.probe(&s, &Op::Restore); em.probe_via_parser(&s, &Op::Restore, "\u{1b}8", false);
            let mut f = fork(&s); if safe(|| f.restore_cursor()).is_some() { em.probe(&f, &Op::Draw("q\u{b0}x".into())); }
            let mut f = fork(&s); if safe(|| { f.save_cursor(); f.define_charset("B", "("); f.shift_in(); }).is_some() { em.probe(&f, &Op::Restore); } } }
    for code in ["A", "1", "", "BB", "b", "K", "\u{1b}", "\u{142}", "\u{130}", "\u{155}", "\u{156}", "\u{2030}", "\u{1f630}", "\u{ff22}"] { for slot in ["(", ")", "*", "+", ""] { let s = Screen::new(2, 1); em.probe(&s, &Op::DefCharset(code.into(), slot.into())); } }
    // the same unsupported finals through the recogniser in 8-bit mode, from a state whose tables are not the defaults
    { let mut s = Screen::new(4, 1); s.define_charset("U", "("); s.define_charset("V", ")");
      for code in ["\u{142}", "\u{130}", "\u{155}", "\u{156}", "\u{2030}", "\u{ff22}"] { for slot in ["(", ")"] {
          em.probe_via_parser(&s, &Op::DefCharset(code.into(), slot.into()), &format!("\u{1b}{}{}", slot, code), false); } } }
    em.init_check(2, 1);
}

// ------------------------------------------------------------------ generic walk: every step probed locally
pub fn walk_if(em: &mut Em, rng: &mut Rng, s0: &Screen, n: usize, probe: &dyn Fn(&Op) -> bool, pick: &mut dyn FnMut(&mut Rng, &Screen) -> Op) {
    let mut cur = fork(s0);
    for _ in 0..n { let o = pick(rng, &cur); if probe(&o) { em.probe(&cur, &o); } let oc = o.clone(); if safe(|| oc.apply(&mut cur)).is_none() { em.bump("walk_panics"); break; } if cur.columns > 200 || cur.lines > 60 { break; } }
}
pub fn walk(em: &mut Em, rng: &mut Rng, s0: &Screen, n: usize, pick: &mut dyn FnMut(&mut Rng, &Screen) -> Op) {
    let mut cur = fork(s0);
    for _ in 0..n { let o = pick(rng, &cur); em.probe(&cur, &o); let oc = o.clone(); if safe(|| oc.apply(&mut cur)).is_none() { em.bump("walk_panics"); break; } if cur.columns > 200 || cur.lines > 60 { break; } }
}

// ------------------------------------------------------------------ C09 well-formedness along histories
fn c09(em: &mut Em, rng: &mut Rng, thorough: bool) {
    for &(c, l) in SMALL.iter().chain(MED.iter()).chain(BIG.iter()) { em.init_check(c, l); }
    let n = if thorough { 6000 } else { 500 };
    let geos: Vec<(u32, u32)> = SMALL.iter().chain(MED.iter()).cloned().collect();
    for k in 0..n {
        let (c, l) = if k % 25 == 0 { *rng.pick(BIG) } else { *rng.pick(&geos) };
        let sp = random_spec(rng, c, l);
        let s = match build(&sp, rng) { Some(s) => s, None => { em.bump("builder_panics"); continue } };
        let len = if c > 40 { 6 } else { 14 };
        walk(em, rng, &s, len, &mut |r, cur| if r.chance(1, 6) { Op::Resize(Some(1 + r.below(cur.lines as u64 + 2) as u32), Some(1 + r.below(cur.columns as u64 + 2) as u32)) } else { gen_op(r, cur) });
        if k % 3 == 0 { em.display_probe(&s); }
    }
    // byte input interleaved with API calls and resizes, compared as whole histories from Screen::new
    histories(em, rng, if thorough { 3000 } else { 300 }, &geos);
}

pub fn gen_stream(rng: &mut Rng, len: usize) -> String {
    let frag: &[&str] = &["\u{1b}[", "\u{9b}", "\u{1b}]", "\u{9d}", "\u{1b}", "0", "1", "2", "5", "9", "12", ";", "?", "$", " ", ">", "#", "%", "(", ")", "8", "7", "c", "D", "E", "M", "H",
        "A", "B", "C", "G", "J", "K", "L", "P", "X", "@", "d", "f", "g", "h", "l", "m", "r", "a", "e", "\u{7}", "\u{8}", "\t", "\n", "\u{b}", "\u{c}", "\r", "\u{e}", "\u{f}", "\u{18}", "\u{1a}", "\u{9c}", "\\", "R", "x", "y", "z", "\u{3042}", "\u{301}", "\0", "\u{7f}", "0;t\u{7}", "2;x\u{1b}\\", "38;5;196m", "\r\n", "\u{1b}\r\nc", "\u{1b}]2;ab\r\ncd\u{7}", "1;2\u{18}", "?7$p", "3;4\u{1a}", "?1;2\u{18}", "\u{1b}(\r", "\u{1b}#\n", "?6h", "?3h", "?5h", "4h", "20h", "?7l", "1;3r", "2;2H"];
    let mut s = String::new(); for _ in 0..len { s.push_str(*rng.pick(frag)); } s
}
fn histories(em: &mut Em, rng: &mut Rng, n: usize, geos: &[(u32, u32)]) {
    for _ in 0..n {
        if !em.next_id() { continue; }
        let (c, l) = *rng.pick(geos);
        let nseg = 1 + rng.below(6) as usize;
        #[derive(Clone)] enum Seg { Bytes(Vec<u8>), Api(Op), Select(String), Clear }
        let mut segs: Vec<Seg> = Vec::new();
        let shadow = Screen::new(c, l);
        for _ in 0..nseg { match rng.below(10) { 0..=5 => { let tl = 1 + rng.below(10) as usize; let t = if rng.chance(1, 2) { gen_stream(rng, tl) } else { gen_token_stream(rng, 1 + tl / 2) }; let mut b = t.into_bytes(); if rng.chance(1, 5) { let k = rng.below(b.len() as u64 + 1) as usize; b.insert(k, *rng.pick(&[0xffu8, 0xc3, 0xe3, 0x80, 0xf0, 0xed])); }
                    // random chunking of the same bytes
                    let mut i = 0; while i < b.len() { let k = 1 + rng.below(6) as usize; let e = (i + k).min(b.len()); segs.push(Seg::Bytes(b[i..e].to_vec())); i = e; } }
                6 | 7 => { let o = gen_op(rng, &shadow); segs.push(Seg::Api(o)); }
                8 => segs.push(Seg::Select(rng.pick(&["@", "G", "8", "x"]).to_string())),
                _ => segs.push(Seg::Clear) } }
        let segs2 = segs.clone();
        em.arm(format!("{}x{} history of {} segments (bytes/API/select)", c, l, segs.len()));
        let r = safe(move || { let scr = Arc::new(Mutex::new(Screen::new(c, l))); { let mut bp = ByteParser::new(scr.clone());
            for sg in segs2.iter() { match sg { Seg::Bytes(b) => bp.feed(b), Seg::Api(o) => { let mut g = scr.lock().unwrap(); o.apply(&mut g); } Seg::Select(cde) => bp.select_other_charset(cde), Seg::Clear => { scr.lock().unwrap().dirty.clear(); } } } }
            let g = scr.lock().unwrap(); fork(&g) });
        for sg in segs.iter() { if let Seg::Api(o) = sg { em.note_op(o); } }
        em.note_str("\u{e9}"); em.note_str("\u{3042}");
        em.o.u(7); em.o.i(em.id); em.o.u(c); em.o.u(l); em.o.u(segs.len() as u32);
        for sg in segs.iter() { match sg { Seg::Bytes(b) => { em.o.u(0); em.o.bytes(b); } Seg::Api(o) => { em.o.u(3); o.enc(&mut em.o); } Seg::Select(cde) => { em.o.u(2); em.o.s(cde); } Seg::Clear => em.o.u(4) } }
        match r { Some(fin) => { em.o.u(0); crate::enc::enc_state(&mut em.o, &fin); } None => em.o.u(1) }
        em.o.nl(); em.bump("state_histories"); em.maybe_flush();
    }
}

// ------------------------------------------------------------------ C10 display
/// wide characters whose placeholder is missing, overwritten, deleted, shifted away or never existed (last column), on
/// never-written and on written rows, also after the row became wider or narrower
pub fn wide_edge_states(rng: &mut Rng) -> Vec<Screen> {
    let mut out = Vec::new();
    for &(c, l) in [(2u32, 1u32), (3, 1), (4, 2), (6, 2)].iter() { for x in 0..c { for edit in 0..11u32 { for fillk in [0u8, 1] { for wide in ["\u{4e2d}", "\u{30b3}\u{30f3}"] {
        let mut sp = base_spec(c, l); sp.fill = fillk;
        let mut s = match build(&sp, rng) { Some(s) => s, None => continue };
        let r = safe(move || {
            s.cursor_position(Some(1), Some(x + 1)); s.draw(wide);
            match edit {
                0 => {}
                1 => s.resize(None, Some(c + 1 + (x % 3))),
                2 => { s.cursor_position(Some(1), Some(x + 2)); s.delete_characters(Some(1)); }
                3 => { s.cursor_position(Some(1), Some(x + 2)); s.insert_characters(Some(1)); }
                4 => { s.cursor_position(Some(1), Some(x + 1)); s.draw("a"); }
                5 => { s.cursor_position(Some(1), Some(x + 2)); s.draw("b"); }
                6 => { s.cursor_position(Some(1), Some(x + 2)); s.erase_in_line(Some(0), None); }
                7 => { s.cursor_position(Some(1), Some(x + 2)); s.erase_characters(Some(1)); }
                8 => { s.resize(None, Some(c.max(2) - 1)); s.resize(None, Some(c + 2)); }
                9 => { s.cursor_position(Some(1), Some(x + 1)); s.delete_characters(Some(1)); }
                _ => { s.cursor_position(Some(1), Some(1)); s.insert_characters(Some(1)); s.resize(None, Some(c + 3)); }
            }
            s });
        if let Some(s) = r { out.push(s); }
    } } } } }
    out
}
fn c10(em: &mut Em, rng: &mut Rng, thorough: bool) {
    for s in wide_edge_states(rng).iter() { em.display_probe(s); }
    // purity, systematically: display() materialises every absent row and cell, so every operation that reads or moves cells is
    // run from sparse states with and without a display() first (and in between) — the outcomes must be identical
    { let mut sts = exotic_states(rng);
      for (c, l) in [(6u32, 3u32), (4, 2), (5, 4)] { let t = Screen::new(c, l); sts.push(fork(&t));
          let r = safe(move || { let mut t = Screen::new(c, l); t.cursor_position(Some(2), Some(3)); t.draw("xy"); t.cursor_position(Some(1), Some(1)); t }); if let Some(t) = r { sts.push(t); } }
      let script: Vec<Vec<Op>> = vec![
          vec![Op::Cup(Some(1), Some(4)), Op::Draw("\u{301}".into())], vec![Op::Cup(Some(2), Some(1)), Op::Draw("\u{308}".into())], vec![Op::Cup(Some(2), Some(2)), Op::Draw("e\u{301}".into())],
          vec![Op::Cup(Some(1), Some(2)), Op::Ich(Some(1))], vec![Op::Cup(Some(1), Some(1)), Op::Dch(Some(2))], vec![Op::Cup(Some(1), Some(1)), Op::Il(Some(1))], vec![Op::Cup(Some(1), Some(1)), Op::Dl(Some(1))],
          vec![Op::Ech(Some(2))], vec![Op::El(Some(0))], vec![Op::Ed(Some(1))], vec![Op::Cup(Some(9999), Some(1)), Op::Index], vec![Op::Cup(Some(1), Some(1)), Op::RevIndex], vec![Op::Align],
          vec![Op::Resize(None, Some(3))], vec![Op::Resize(Some(2), Some(9))], vec![Op::Sm(vec![5], true)], vec![Op::Rm(vec![5], true)], vec![Op::Sm(vec![4], false), Op::Draw("ins".into())],
          vec![Op::Draw("\u{4e2d}".into()), Op::CR, Op::Draw("a".into())], vec![Op::Tab, Op::Draw("t".into())], vec![Op::Cha(Some(9999)), Op::Draw("wrap".into())], vec![Op::Save, Op::Cup(Some(2), Some(2)), Op::Restore, Op::Draw("\u{301}".into())] ];
      for st in sts.iter() { for sc in script.iter() { for mask in [1u32, 2, 3] {
          if !em.next_id() { continue; }
          em.arm(format!("{}x{} ops {:?} with display() interposed (mask {})", st.columns, st.lines, sc, mask));
          let (mut a, mut b) = (fork(st), fork(st)); let (s1, s2) = (sc.clone(), sc.clone());
          let ra = safe(move || { for o in s1.iter() { o.apply(&mut a); } snapshot(&a) });
          let rb = safe(move || { if mask & 1 != 0 { b.display(); } for (i, o) in s2.iter().enumerate() { if i > 0 && mask & 2 != 0 { b.display(); } o.apply(&mut b); } snapshot(&b) });
          em.bump("purity_pairs");
          match (ra, rb) { (Some(x), Some(y)) => if x != y { em.fail("C10", format!("display() changed the outcome: {}x{} state (cursor ({},{})) ops={:?} display mask={}", st.columns, st.lines, st.cursor.x, st.cursor.y, sc, mask)); },
              (None, None) => {}, _ => em.fail("C10", format!("display() changed whether {:?} panics", sc)) } } } } }
    let geos: Vec<(u32, u32)> = SMALL.iter().chain(MED.iter()).cloned().collect();
    let n = if thorough { 5000 } else { 500 };
    for _ in 0..n {
        let (c, l) = *rng.pick(&geos); let mut sp = random_spec(rng, c, l); sp.fill = *rng.pick(&[0u8, 1, 2, 3, 3, 3]); sp.walk = rng.below(8) as u8;
        let s = match build(&sp, rng) { Some(s) => s, None => { em.bump("builder_panics"); continue } };
        em.display_probe(&s);
        // purity (model-free): the same continuation with and without display() interposed
        if !em.next_id() { continue; }
        let len = 1 + rng.below(8) as usize; let mut a = fork(&s); let mut ops = Vec::new(); { let mut t = fork(&s); for _ in 0..len { let o = gen_op(rng, &t); let oc = o.clone(); let _ = safe(|| oc.apply(&mut t)); ops.push(o); } }
        let mask: Vec<bool> = (0..=len).map(|_| rng.chance(1, 2)).collect();
        let ops2 = ops.clone(); let mut b = fork(&s);
        em.arm(format!("{}x{} ops {:?} with display() interposed", c, l, ops));
        let ra = safe(|| { for o in ops.iter() { o.apply(&mut a); } snapshot(&a) });
        let rb = safe(|| { for (i, o) in ops2.iter().enumerate() { if mask[i] { b.display(); if mask[(i + 1) % mask.len()] { b.display(); } } o.apply(&mut b); } if mask[len] { b.display(); } snapshot(&b) });
        em.bump("purity_pairs");
        match (ra, rb) { (Some(x), Some(y)) => if x != y { em.fail("C10", format!("display() changed the outcome: {}x{} ops={:?} display-before={:?}", c, l, ops2, mask)); },
            (None, None) => {}, _ => em.fail("C10", format!("display() changed whether the history panics: ops={:?} mask={:?}", ops2, mask)) }
    }
}

// ------------------------------------------------------------------ C12 modes
fn c12(em: &mut Em, rng: &mut Rng, thorough: bool) {
    let mut sts = Vec::new();
    for k in 0..6 { let (gc, gl) = (*rng.pick(&[3u32, 5, 10]), *rng.pick(&[2u32, 3, 4])); let mut sp = random_spec(rng, gc, gl); sp.fill = 1 + (k % 3) as u8; sp.walk = 0; if let Some(s) = build(&sp, rng) { sts.push(s); } }
    if let Some(s) = build(&Spec { cols: 132, lines: 2, fill: 2, clear_dirty: true, ..Default::default() }, rng) { sts.push(s); }
    let top = if thorough { 9999 } else { 400 };
    for (i, s) in sts.iter().enumerate() { for n in 0..=top { for private in [false, true] { if !thorough && i >= 2 && n > 40 && n % 32 != 0 { continue; } em.probe(s, &Op::Sm(vec![n], private)); em.probe(s, &Op::Rm(vec![n], private)); } } }
    if !thorough { for _ in 0..600 { let n = 400 + rng.below(9600) as u32; let n = if rng.chance(1, 3) { (n / 32) * 32 } else { n }; let p = rng.chance(1, 2); em.probe(rng.pick(&sts), &Op::Sm(vec![n], p)); em.probe(rng.pick(&sts), &Op::Rm(vec![n], p)); } }
    // lists, repeated set/set and reset/reset, interleavings
    for _ in 0..(if thorough { 3000 } else { 300 }) { let s = rng.pick(&sts);
        walk(em, rng, s, 6, &mut |r, cur| match r.below(10) { 0..=2 => { let (m, p) = gen_modes(r); Op::Sm(m, p) } 3..=5 => { let (m, p) = gen_modes(r); Op::Rm(m, p) } 6 => Op::Save, 7 => Op::Restore, 8 => Op::Draw(gen_text(r)), _ => gen_op(r, cur) }); }
    let g12: Vec<(u32, u32)> = vec![(5, 3), (10, 4), (3, 2)];
    histories(em, rng, if thorough { 3000 } else { 400 }, &g12);
    for s in sts.iter().take(3) { for (fin, sm) in [('h', true), ('l', false)] { for private in [false, true] { for n in [3u32, 4, 5, 6, 7, 20, 25, 96, 160, 192, 224, 800, 1, 2] {
        let t = format!("{}{}", if private { "?" } else { "" }, n); let o = if sm { Op::Sm(vec![n], private) } else { Op::Rm(vec![n], private) }; em.probe_via_parser(s, &o, &csi(&t, fin), true); } } } }
    // every supported mode from states with every region x DECOM x cursor position (homing is region-relative, and the
    // order "record the modes, then act" is observable exactly there)
    for &(c, l) in [(3u32, 3u32), (4, 5)].iter() {
        let per = (all_margins(l).len() as u64) * 4 * (l as u64) * (c as u64 + 1);
        let target: u64 = if thorough { 3000 } else { 300 };
        let sts2 = grid_states(em, rng, c, l, &[1, 2], target.min(per), per, &|sp, r| { sp.scnm = r.chance(1, 4); sp.irm = r.chance(1, 4); });
        for s in sts2.iter() {
            for private in [true, false] { for n in [3u32, 5, 6, 25, 4, 7, 20, 96, 160, 192, 800] { if !thorough && !rng.chance(1, 3) { continue; }
                em.probe(s, &Op::Sm(vec![n], private)); em.probe(s, &Op::Rm(vec![n], private)); } }
            let (m, p) = gen_modes(rng); em.probe(s, &Op::Rm(m.clone(), p)); em.probe(s, &Op::Sm(m, p));
        }
    }
    // mode x governed operation, systematically: after setting / resetting each supported mode (private spelling and its ANSI
    // alias), every kind of operation that the modes govern is probed from sparse, written and region states
    { let starts: Vec<Screen> = { let mut v = Vec::new();
          for (c, l, f) in [(6u32, 3u32, 0u8), (6, 3, 1), (4, 4, 2), (5, 2, 0)] { let mut sp = base_spec(c, l); sp.fill = f; if let Some(s) = build(&sp, rng) { v.push(s); } }
          if let Some(mut s) = build(&base_spec(6, 4), rng) { if safe(|| { s.set_margins(Some(2), Some(3)); s.draw("ab"); }).is_some() { v.push(s); } }
          v };
      let governed: Vec<Vec<Op>> = vec![
          vec![Op::Draw("a".into())], vec![Op::Draw("\u{4e2d}".into())], vec![Op::Cup(Some(1), Some(4)), Op::Draw("\u{301}".into())], vec![Op::Cup(Some(2), Some(1)), Op::Draw("\u{308}".into())],
          vec![Op::Cha(Some(9999)), Op::Draw("xy".into()), Op::Draw("z".into())], vec![Op::Cup(Some(9999), Some(1)), Op::Linefeed], vec![Op::Linefeed], vec![Op::Ich(Some(2))], vec![Op::Dch(Some(1))],
          vec![Op::Ed(Some(0))], vec![Op::El(Some(1))], vec![Op::Ech(Some(2))], vec![Op::Align], vec![Op::Cup(Some(2), Some(2))], vec![Op::Vpa(Some(2))], vec![Op::Tab], vec![Op::Index], vec![Op::Il(Some(1))], vec![Op::Sgr(vec![0, 1])], vec![Op::Save, Op::Restore] ];
      for st in starts.iter() { for (m, alias) in [(5u32, 160u32), (4, 4), (7, 224), (20, 20), (6, 192), (25, 800), (3, 96)] { for on in [true, false] { for spelled_private in [true, false] {
          if (m == 4 || m == 20) && spelled_private { continue; }
          for g in governed.iter() { if !thorough && !rng.chance(1, 3) { continue; }
              let mut cur = fork(st);
              let mo = if spelled_private { if on { Op::Sm(vec![m], true) } else { Op::Rm(vec![m], true) } } else { if on { Op::Sm(vec![alias], false) } else { Op::Rm(vec![alias], false) } };
              // the opposite state first, so that the mode operation under test really switches
              let pre = if spelled_private { if on { Op::Rm(vec![m], true) } else { Op::Sm(vec![m], true) } } else { if on { Op::Rm(vec![alias], false) } else { Op::Sm(vec![alias], false) } };
              if m != 3 && safe(|| pre.apply(&mut cur)).is_none() { continue; }
              em.probe(&cur, &mo); if safe(|| mo.apply(&mut cur)).is_none() { continue; }
              for o in g.iter() { em.probe(&cur, o); let oc = o.clone(); if safe(|| oc.apply(&mut cur)).is_none() { break; } } } } } } } }
    // DECOM governs CUP / HVP / VPA: every region, origin mode on and off, every row argument from 0 to beyond the screen
    for &(c, l) in [(4u32, 6u32), (3, 5)].iter() { for m in all_margins(l) { for decom in [true, false] {
        let r = safe(move || { let mut s = Screen::new(c, l); if let Some((t, b)) = m { s.set_margins(Some(t + 1), Some(b + 1)); } if decom { s.set_mode(&[6], true); } s.cursor_position(Some(2), Some(2)); s.dirty.clear(); s });
        if let Some(st) = r { for row in 0..=(l + 2) { if !thorough && !rng.chance(2, 3) { continue; } em.probe(&st, &Op::Cup(Some(row), Some(3))); em.probe(&st, &Op::Vpa(Some(row)));
            if row % 3 == 0 { em.probe_via_parser(&st, &Op::Cup(Some(row), Some(3)), &csi(&format!("{};3", row), 'H'), true); } } } } } }
    // DECCOLM from every kind of starting width — narrower than, equal to and wider than 132 — with something written at the right
    // edge, with and without a region / DECOM: set (both spellings), set again, reset, reset again, each step a probe
    for w in [1u32, 3, 80, 131, 132, 133, 140, 200] { for variant in 0..3 {
        let r = safe(move || { let mut s = Screen::new(w, 3); s.cursor_position(Some(1), Some(w)); s.draw("e"); s.cursor_position(Some(2), Some(w.saturating_sub(3).max(1))); s.draw("wxyz");
            if variant >= 1 { s.set_margins(Some(2), Some(3)); } if variant == 2 { s.set_mode(&[6], true); } s.cursor_position(Some(1), Some(w / 2 + 1)); s.dirty.clear(); s });
        let Some(st) = r else { em.fail("C01", format!("panic while building a {}-column DECCOLM state", w)); continue; };
        for private in [true, false] {
            let (on, off) = if private { (Op::Sm(vec![3], true), Op::Rm(vec![3], true)) } else { (Op::Sm(vec![96], false), Op::Rm(vec![96], false)) };
            let mut cur = fork(&st);
            for o in [&on, &on, &off, &off, &on, &off] { em.probe(&cur, o); let oc = o.clone(); if safe(|| oc.apply(&mut cur)).is_none() { break; } cur.dirty.clear(); }
            let mut cur = fork(&st);
            for o in [&off, &on, &Op::Draw("q".into()), &off] { em.probe(&cur, o); let oc = o.clone(); if safe(|| oc.apply(&mut cur)).is_none() { break; } }
        } } }
    // the `h`/`l` finals and their private flag as delivered to the listener, also right after sequences that end
    // without a dispatch (CSI ... $ x, CSI aborted by CAN/SUB) or after arbitrary other tokens
    events(em, rng, if thorough { 4000 } else { 500 }, &mut |r| {
        let mut t = String::new();
        for _ in 0..(1 + r.below(3)) {
            match r.below(6) { 0 => t.push_str(&gen_token(r)), 1 | 2 => t.push_str(&format!("\u{1b}[{}{}{}", if r.chance(2, 3) { "?" } else { "" }, r.below(30), r.pick(&["$p", "\u{18}", "\u{1a}", "$x", ";"]))), _ => {} }
            let (m, p) = gen_modes(r);
            t.push_str(&format!("{}{}{}{}", if r.chance(3, 4) { "\u{1b}[" } else { "\u{9b}" }, if p { "?" } else { "" }, m.iter().map(|x| x.to_string()).collect::<Vec<_>>().join(";"), if r.chance(1, 2) { 'h' } else { 'l' }));
        }
        t });
}

// ------------------------------------------------------------------ C14 save/restore
fn c14(em: &mut Em, rng: &mut Rng, thorough: bool) {
    let geos: &[(u32, u32)] = &[(1, 1), (3, 2), (5, 4), (10, 5), (7, 3), (24, 6)];
    let n = if thorough { 4000 } else { 400 };
    for _ in 0..n { let (c, l) = *rng.pick(geos); let mut sp = random_spec(rng, c, l); sp.walk = 0;
        let s = match build(&sp, rng) { Some(s) => s, None => continue };
        let k = rng.below(5); let m = rng.below(5); let mid = rng.below(7);
        let mut cur = fork(&s); let mut stepn = 0u64;
        let mut script: Vec<Op> = Vec::new();
        for _ in 0..k { script.push(Op::Save); if rng.chance(1, 2) { script.push(Op::Sgr(gen_sgr(rng))); script.push(Op::Cup(arg(rng, l), arg(rng, c))); if rng.chance(1, 3) { script.push(if rng.chance(1, 2) { Op::ShiftOut } else { Op::ShiftIn }); } } }
        for _ in 0..mid { script.push(match rng.below(12) { 0 => Op::Cup(arg(rng, l), arg(rng, c)), 1 => Op::Sgr(gen_sgr(rng)), 2 => Op::ShiftOut, 3 => Op::ShiftIn, 4 => Op::DefCharset(rng.pick(&["B", "0", "U", "V"]).to_string(), rng.pick(&["(", ")"]).to_string()),
            5 => { let (mm, p) = gen_modes(rng); Op::Sm(mm, p) } 6 => { let (mm, p) = gen_modes(rng); Op::Rm(mm, p) } 7 => Op::Margins(arg(rng, l), arg(rng, l)), 8 => Op::Resize(Some(1 + rng.below(l as u64 + 2) as u32), Some(1 + rng.below(c as u64 + 2) as u32)),
            9 => Op::Draw(gen_text(rng)), 10 => Op::Rm(vec![25], true), _ => Op::Cud(arg(rng, l)) }); }
        for _ in 0..m { script.push(Op::Restore); }
        if rng.chance(1, 5) { script.push(Op::Restore); }
        for o in script { em.probe(&cur, &o); stepn += 1; let oc = o.clone(); if safe(|| oc.apply(&mut cur)).is_none() { break; } }
        if rng.chance(1, 6) { em.probe_via_parser(&cur, &Op::Save, "\u{1b}7", true); em.probe_via_parser(&cur, &Op::Restore, "\u{1b}8", true); }
        em.add("c14_steps", stepn);
    }
}

// ------------------------------------------------------------------ C15 RIS
fn c15(em: &mut Em, rng: &mut Rng, thorough: bool) {
    let geos: Vec<(u32, u32)> = SMALL.iter().chain(MED.iter()).cloned().collect();
    let n = if thorough { 4000 } else { 400 };
    for k in 0..n { let (c, l) = if k % 20 == 0 { (80, 24) } else { *rng.pick(&geos) }; let mut sp = random_spec(rng, c, l); sp.walk = rng.below(10) as u8;
        let s = match build(&sp, rng) { Some(s) => s, None => continue };
        em.probe(&s, &Op::Reset); if rng.chance(1, 4) { em.probe_via_parser(&s, &Op::Reset, "\u{1b}c", true); }
        // model-free: state(h, RIS, t) == state(new(current size), t) apart from the saved-cursor stack, for t without DECRC
        if !em.next_id() { continue; }
        let mut a = fork(&s); if safe(|| a.reset()).is_none() { em.fail("C01", "reset panicked".into()); continue; }
        let (cc, ll) = (a.columns, a.lines); let mut b = Screen::new(cc, ll);
        let mut ops = Vec::new(); { let mut t = Screen::new(cc, ll); for _ in 0..(1 + rng.below(10)) { let o = gen_op(rng, &t); if o == Op::Restore { continue; } let oc = o.clone(); let _ = safe(|| oc.apply(&mut t)); ops.push(o); } }
        let via_parser = rng.chance(1, 3); let text = gen_stream(rng, 6);
        let strip = |s: &mut Screen| { s.savepoints.clear(); };
        let ops2 = ops.clone(); let t2 = text.clone();
        let ra = safe(move || { if via_parser { let m = Arc::new(Mutex::new(a)); { let mut p = Parser::new(m.clone()); p.feed(t2.replace("\u{1b}8", "")); } let mut g = m.lock().unwrap(); strip(&mut g); snapshot(&g) } else { for o in ops2.iter() { o.apply(&mut a); } strip(&mut a); snapshot(&a) } });
        let ops3 = ops.clone(); let t3 = text.clone();
        let rb = safe(move || { if via_parser { let m = Arc::new(Mutex::new(b)); { let mut p = Parser::new(m.clone()); p.feed(t3.replace("\u{1b}8", "")); } let mut g = m.lock().unwrap(); strip(&mut g); snapshot(&g) } else { for o in ops3.iter() { o.apply(&mut b); } strip(&mut b); snapshot(&b) } });
        em.bump("ris_pairs");
        // a continuation that pops below the stack bottom differs legitimately; the generator excludes DECRC (Restore / ESC 8), resize pushes and pops its own
        if ra != rb { em.fail("C15", format!("after RIS the continuation {:?}/{:?} differs from a fresh {}x{} screen", ops, if via_parser { text.as_str() } else { "" }, cc, ll)); }
    }
    // histories that leave something behind in every component (and USE it, so that anything derived from it is computed),
    // then RIS, then a continuation that consults every component
    for k in 0..(if thorough { 1500 } else { 200 }) {
        if !em.next_id() { continue; }
        let (c, l) = *rng.pick(&[(10u32, 3u32), (20, 4), (80, 5), (8, 2), (3, 2), (140, 3)]);
        let mut hist: Vec<Op> = Vec::new();
        for _ in 0..(2 + rng.below(5)) { hist.push(match rng.below(14) {
            0 => Op::Cha(Some(1 + rng.below(c as u64) as u32)), 1 => Op::SetTab, 2 => Op::Tbc(Some(3)), 3 => Op::Tab, 4 => Op::Sm(vec![3], true), 5 => Op::Rm(vec![3], true),
            6 => Op::Margins(Some(1 + rng.below(l as u64) as u32), Some(1 + rng.below(l as u64) as u32)), 7 => { let (m, p) = gen_modes(rng); Op::Sm(m, p) } 8 => Op::DefCharset("0".into(), "(".into()),
            9 => Op::ShiftOut, 10 => Op::Sgr(gen_sgr(rng)), 11 => Op::Draw(gen_text(rng)), 12 => Op::Resize(Some(1 + rng.below(l as u64 + 2) as u32), Some(1 + rng.below(c as u64 + 10) as u32)), _ => Op::Tab }); }
        if k % 2 == 0 { hist.push(Op::Tab); }
        let cont: Vec<Op> = vec![Op::Tab, Op::Draw("q".into()), Op::Tab, Op::Cup(Some(2), Some(2)), Op::Linefeed, Op::Draw("lqk~".into()), Op::Tab, Op::Cud(None), Op::Sgr(vec![7]), Op::Draw("z".into()), Op::Index, Op::Tab, Op::Ed(None)];
        let take = 3 + rng.below(cont.len() as u64 - 2) as usize; let cont: Vec<Op> = cont[..take].to_vec();
        em.arm(format!("{}x{} history {:?} then RIS then {:?}", c, l, hist, cont));
        let (h2, c2, c3) = (hist.clone(), cont.clone(), cont.clone());
        let ra = safe(move || { let mut a = Screen::new(c, l); for o in h2.iter() { o.apply(&mut a); } a.reset(); let dims = (a.columns, a.lines); for o in c2.iter() { o.apply(&mut a); } a.savepoints.clear(); (dims, snapshot(&a)) });
        em.bump("ris_pairs");
        match ra { None => em.fail("C01", format!("panic in history {:?} + RIS + {:?}", hist, cont)), Some(((cc, ll), sa)) => {
            let rb = safe(move || { let mut b = Screen::new(cc, ll); for o in c3.iter() { o.apply(&mut b); } b.savepoints.clear(); snapshot(&b) });
            if rb.as_ref() != Some(&sa) { em.fail("C15", format!("{}x{}: history {:?}, RIS, continuation {:?} differs from the continuation on a fresh {}x{} screen", c, l, hist, cont, cc, ll)); } } }
    }
}

// ------------------------------------------------------------------ C17 dirty
fn c17(em: &mut Em, rng: &mut Rng, thorough: bool) {
    // every region x every cursor row (inside, above, below the region) at the pending-wrap column and at column 0, dirty just cleared:
    // the operations that move between rows while changing cells
    for &(c, l) in [(4u32, 5u32), (3, 4)].iter() { for m in all_margins(l) { for row in 0..l { for pending in [true, false] {
        let r = safe(move || { let mut s = Screen::new(c, l); for y in 0..l { s.cursor_position(Some(y + 1), Some(1)); s.draw(&"q".repeat(c as usize - 1)); }
            if let Some((t, b)) = m { s.set_margins(Some(t + 1), Some(b + 1)); } s.cursor_position(Some(row + 1), Some(1)); if pending { s.draw(&"z".repeat(c as usize)); } s.dirty.clear(); s });
        if let Some(st) = r { for o in [Op::Draw("x".into()), Op::Draw("\u{4e2d}".into()), Op::Draw("xy".into()), Op::Draw("\u{301}".into()), Op::Linefeed, Op::Index, Op::RevIndex] {
            if thorough || rng.chance(1, 2) { em.probe(&st, &o); } } } } } } }
    let geos: Vec<(u32, u32)> = SMALL.iter().chain(MED.iter()).cloned().collect();
    let n = if thorough { 6000 } else { 600 };
    for _ in 0..n { let (c, l) = *rng.pick(&geos); let mut sp = random_spec(rng, c, l); sp.clear_dirty = true; sp.fill = *rng.pick(&[1u8, 1, 2, 3]);
        let s = match build(&sp, rng) { Some(s) => s, None => continue };
        // every step from a state whose dirty set the embedder has just cleared
        let mut cur = fork(&s);
        for _ in 0..10 { cur.dirty.clear(); let o = if rng.chance(1, 8) { rng.pick(&[Op::Sm(vec![160], false), Op::Rm(vec![160], false), Op::Sm(vec![5], true), Op::Rm(vec![5], true), Op::Align, Op::Draw("\u{301}".into()), Op::Draw("e\u{308}".into())]).clone() } else { gen_op(rng, &cur) };
            if rng.chance(1, 5) { if let Op::Draw(t) = &o { if !t.contains('\u{1b}') && !t.contains('\u{9b}') && !t.contains('\u{9d}') && t.chars().all(|ch| (ch as u32) >= 32 && ch != '\u{7f}') { em.probe_via_parser(&cur, &o, t, true); } } }
            em.probe(&cur, &o); let oc = o.clone(); if safe(|| oc.apply(&mut cur)).is_none() { break; } }
    }
}

// ------------------------------------------------------------------ C19 OSC title
fn c19(em: &mut Em, rng: &mut Rng, thorough: bool) {
    let alpha: Vec<&str> = vec!["a", "Z", ";", "\\", "]", " ", "0", "~", "\u{e9}", "\u{3042}", "\u{1b}x", "\u{1b}[", "\u{8}", "\n", "\r", "\u{e}", "\u{18}", "\u{7f}", "\u{9b}", "C:\\dir", "\u{301}", "\u{1b}]"];
    let n = if thorough { 30000 } else { 3000 };
    let base = build(&Spec { cols: 6, lines: 2, fill: 1, cur: (2, 1), ..Default::default() }, rng).unwrap();
    for k in 0..n {
        if !em.next_id() { continue; }
        let len = rng.below(7) as usize; let payload: String = if k < 4 { String::new() } else { (0..len).map(|_| *rng.pick(&alpha)).collect() };
        // a payload must not contain a terminator: BEL, U+009C, ESC \
        if payload.contains('\u{7}') || payload.contains('\u{9c}') || payload.contains("\u{1b}\\") { continue; }
        // an ESC at the very end would pair with the terminator's first character
        if payload.ends_with('\u{1b}') { continue; }
        let intro = *rng.pick(&["\u{1b}]", "\u{9d}"]); let term = *rng.pick(&["\u{7}", "\u{9c}", "\u{1b}\\"]);
        let code = *rng.pick(&['0', '1', '2', '0', '1', '2', '3', '4', '9', 'a', 'z', 'L', 'l', 'I', '\u{430}', '\u{431}', '\u{432}', '\u{130}', '\u{131}', '\u{132}', '\u{ff10}', '\u{ff12}', '\u{660}']);
        // state must not leak from one string sequence into the next: precede the sequence under test by 0-2 sequences
        // with codes that have no effect (their payload is arbitrary)
        let mut prefix = String::new();
        if k % 2 == 1 { for _ in 0..(1 + rng.below(2)) { let pl: String = (0..(1 + rng.below(5))).map(|_| *rng.pick(&["p", "q", ";", "/", "\u{e9}", "7"])).collect();
            prefix.push_str(&format!("{}{};{}{}", rng.pick(&["\u{1b}]", "\u{9d}"]), rng.pick(&['3', '4', '7', '9', 'a', 'z', 'L']), pl, rng.pick(&["\u{7}", "\u{9c}", "\u{1b}\\"]))); } }
        let text = format!("{}{}{};{}{}", prefix, intro, code, payload, term);
        let mut pre = fork(&base); pre.title = "old-title".into(); pre.icon_name = "old-icon".into();
        let before = snapshot(&pre);
        em.arm(format!("OSC text {:?}", text));
        let chunks: Vec<String> = { let cs: Vec<char> = text.chars().collect(); let mut v = Vec::new(); let mut i = 0; while i < cs.len() { let k = if rng.chance(1, 2) { cs.len() } else { 1 + rng.below(3) as usize }; let e = (i + k).min(cs.len()); v.push(cs[i..e].iter().collect()); i = e; } v };
        let r = safe(move || { let m = Arc::new(Mutex::new(pre)); { let mut p = Parser::new(m.clone()); for ch in chunks { p.feed(ch); } p.feed("!".into()); } let g = m.lock().unwrap(); fork(&g) });
        em.bump("osc_cases");
        match r { None => em.fail("C01", format!("panic on OSC {:?}", text)), Some(post) => {
            let want_title = if code == '0' || code == '2' { payload.clone() } else { "old-title".into() };
            let want_icon = if code == '0' || code == '1' { payload.clone() } else { "old-icon".into() };
            // the sentinel '!' must be the only thing drawn: compare with the base after drawing '!' alone
            let mut exp = fork(&base); exp.title = want_title; exp.icon_name = want_icon; exp.draw("!");
            if snapshot(&exp) != snapshot(&post) { em.fail("C19", format!("OSC {:?}: title={:?} icon={:?} (wanted payload {:?}); grid/cursor equal to sentinel-only: {}", text, post.title, post.icon_name, payload, { let mut e2 = fork(&post); e2.title = exp.title.clone(); e2.icon_name = exp.icon_name.clone(); snapshot(&e2) == snapshot(&exp) })); }
            let _ = before; } }
    }
    // the same through ByteParser: every byte offset of the UTF-8 encoding is a possible chunk boundary
    for k in 0..(if thorough { 6000 } else { 600 }) {
        if !em.next_id() { continue; }
        let len = 1 + rng.below(6) as usize; let payload: String = (0..len).map(|_| *rng.pick(&["a", "\u{e9}", "\u{3042}", ";", "\u{1f600}", "\\", " ", "\u{301}"])).collect();
        let code = *rng.pick(&['0', '1', '2']); let term = *rng.pick(&["\u{7}", "\u{1b}\\", "\u{9c}"]);
        let text = format!("\u{1b}]{};{}{}", code, payload, term); let bytes = text.clone().into_bytes();
        em.arm(format!("OSC bytes {:02x?} under byte chunkings", bytes));
        for cut in 0..=bytes.len() { if k % 4 != 0 && cut % 2 == 1 { continue; }
            let chunks: Vec<Vec<u8>> = if cut == bytes.len() { bytes.iter().map(|b| vec![*b]).collect() } else { vec![bytes[..cut].to_vec(), bytes[cut..].to_vec()] };
            let r = safe(move || { let m = Arc::new(Mutex::new(Screen::new(6, 2))); { let mut bp = ByteParser::new(m.clone()); for c in chunks.iter() { bp.feed(c); } } let mut g = m.lock().unwrap(); (g.title.clone(), g.icon_name.clone(), g.display(), g.cursor.x) });
            em.bump("osc_byte_cases");
            match r { None => em.fail("C01", format!("panic on OSC bytes {:02x?} cut {}", bytes, cut)), Some((t, i, d, x)) => {
                let wt = if code != '1' { payload.clone() } else { String::new() }; let wi = if code != '2' { payload.clone() } else { String::new() };
                if t != wt || i != wi || x != 0 || d.iter().any(|l| l.trim() != "") { em.fail("C19", format!("OSC bytes {:02x?} cut at {}: title={:?} icon={:?} cursor.x={} rows={:?} (payload {:?})", bytes, cut, t, i, x, d, payload)); break; } } }
        }
    }
    // event-level correspondence with the recogniser model on the same kind of input
    events(em, rng, if thorough { 6000 } else { 600 }, &mut |r| { let mut t = String::new(); for _ in 0..(2 + r.below(3)) { let len = r.below(5) as usize; let p: String = (0..len).map(|_| *r.pick(&alpha)).collect();
        t.push_str(&format!("{}{}{}{}{}", r.pick(&["\u{1b}]", "\u{9d}"]), r.pick(&["0", "1", "2", "7", "4", "52", "x"]), r.pick(&[";", ";", ""]), p, r.pick(&["\u{7}", "\u{9c}", "\u{1b}\\"]))); } t });
    events(em, rng, if thorough { 6000 } else { 600 }, &mut |r| { let len = r.below(6) as usize; let p: String = (0..len).map(|_| *r.pick(&alpha)).collect(); format!("{}{}{}{}{}", r.pick(&["\u{1b}]", "\u{9d}"]), r.pick(&["0", "1", "2", "7", "R", "P", "x"]), r.pick(&[";", "", "x"]), p, r.pick(&["\u{7}", "\u{9c}", "\u{1b}\\", ""])) + *r.pick(&["", "Q", "abcdefgh"]) });
}

/// recorder histories (kind 5): chars through Parser, compared with the recogniser model's events
pub fn events(em: &mut Em, rng: &mut Rng, n: usize, gen: &mut dyn FnMut(&mut Rng) -> String) {
    let mut k = 0usize;
    events_opt(em, rng, &mut |r| { k += 1; if k > n { None } else { Some(gen(r)) } });
}
pub fn events_opt(em: &mut Em, rng: &mut Rng, gen: &mut dyn FnMut(&mut Rng) -> Option<String>) {
    loop {
        let text = match gen(rng) { Some(t) => t, None => break };
        if !em.next_id() { continue; }
        let utf8 = rng.chance(2, 3);
        let cs: Vec<char> = text.chars().collect();
        let mut chunks: Vec<String> = Vec::new(); let mut i = 0; while i < cs.len() { let k = if rng.chance(1, 3) { cs.len() } else { 1 + rng.below(4) as usize }; let e = (i + k).min(cs.len()); chunks.push(cs[i..e].iter().collect()); i = e; }
        let ch2 = chunks.clone();
        em.arm(format!("Parser utf8={} chunks {:?}", utf8, chunks));
        let r = safe(move || { let rec = Arc::new(Mutex::new(Recorder::default())); { let mut p = Parser::new(rec.clone()); p.set_use_utf8(utf8); for c in ch2 { p.feed(c); } } let g = rec.lock().unwrap(); g.ops.clone() });
        em.o.u(5); em.o.i(em.id);
        em.o.u(chunks.len() as u32 + 1);
        // utf8 flag is conveyed as a select segment first: "@" = 8-bit, "G" = UTF-8
        em.o.u(2); em.o.s(if utf8 { "G" } else { "@" });
        for c in chunks.iter() { em.o.u(1); em.o.s(c); }
        match r { Some(ops) => { em.o.u(0); em.o.u(ops.len() as u32); for o in ops.iter() { o.enc(&mut em.o); } } None => em.o.u(1) }
        em.o.nl(); em.bump("event_histories"); em.maybe_flush();
        if em.samples.len() < 12 && em.id % 53 == 0 { em.sample(format!("chars {:?} utf8={}", text, utf8)); }
    }
}

// ------------------------------------------------------------------ C03 recogniser
fn all_strings(reps: &[char], len: usize, f: &mut dyn FnMut(String)) {
    let mut idx = vec![0usize; len];
    loop {
        f(idx.iter().map(|&i| reps[i]).collect());
        let mut p = len;
        loop { if p == 0 { return; } p -= 1; idx[p] += 1; if idx[p] < reps.len() { break; } idx[p] = 0; }
    }
}
fn c03(em: &mut Em, rng: &mut Rng, thorough: bool) {
    // the token grammar is over the decoded stream: sequences interleaved with incomplete / byte-order-mark bytes, every chunking
    cut_invariance("C03", em, false);
    // one representative per character class the grammar distinguishes
    let reps: Vec<char> = "\u{7}\u{8}\t\n\r\u{e}\u{f}\u{18}\u{1a}\u{1b}\u{9b}\u{9d}\u{9c}05;?$ >#%()[]\\8cDMH7ARPmhJr@x~\u{e9}\u{3042}\u{ff12}\u{b2}\u{663}".chars().collect();
    let reps2: Vec<char> = "\u{7}\n\u{18}\u{1b}\u{9b}\u{9d}\u{9c}5;?$ #%(][\\8cRPmHx".chars().collect();
    let reps3: Vec<char> = "\u{7}\u{1b}\u{9c}5;?$][\\PmH".chars().collect();
    let mut all: Vec<String> = Vec::new();
    for len in 1..=3 { all_strings(&reps, len, &mut |s| all.push(s)); }
    if thorough { all_strings(&reps2, 4, &mut |s| all.push(s)); all_strings(&reps3, 5, &mut |s| all.push(s)); }
    else { for _ in 0..30000 { let n = 4 + rng.below(3) as usize; all.push((0..n).map(|_| *rng.pick(&reps2)).collect()); } }
    em.add("exhaustive_strings", all.len() as u64);
    let mut it = all.into_iter();
    events_opt(em, rng, &mut |_r| it.next());
    // random long strings over sequence fragments, digit runs longer than any machine integer
    events(em, rng, if thorough { 60000 } else { 6000 }, &mut |r| { let n = 1 + r.below(14) as usize; gen_stream(r, n) });
    // token-structured streams: mostly valid sequences, aborted (CAN/SUB), skipped ($), truncated ones in between
    events(em, rng, if thorough { 200000 } else { 20000 }, &mut |r| { let n = 1 + r.below(6) as usize; gen_token_stream(r, n) });
    events(em, rng, if thorough { 4000 } else { 600 }, &mut |r| { let n = 1 + r.below(40); let d: String = (0..n).map(|_| char::from_u32(48 + r.below(10) as u32).unwrap()).collect(); let d2: String = (0..r.below(25)).map(|_| char::from_u32(48 + r.below(10) as u32).unwrap()).collect();
        format!("{}{}{};{}{}", r.pick(&["\u{1b}[", "\u{9b}"]), r.pick(&["", "?"]), d, d2, r.pick(&["H", "m", "A", "r", "h", "z", "\u{18}"])) });
    // numerals at the edges of the machine integer types (2^8, 2^16, 2^31, 2^32 +- k, 2^33, 2^64 - 1, 2^64, 2^64 + 1, 2^65 + 1): each must
    // saturate at 9999 — through every parameter position and the finals that act on small values
    { let edge = ["255", "256", "65535", "65536", "65537", "2147483647", "2147483648", "4294967295", "4294967296", "4294967297", "4294967298", "4294967301", "4294967492", "8589934592", "8589934594",
                  "18446744073709551615", "18446744073709551616", "18446744073709551617", "36893488147419103233", "0004294967297"];
      let mut v: Vec<String> = Vec::new();
      for e in edge.iter() { for f in ["A", "B", "C", "D", "G", "H", "J", "K", "L", "M", "P", "X", "@", "d", "m", "r", "g", "h", "l"] { for intro in ["\u{1b}[", "\u{9b}", "\u{1b}[?"] {
          v.push(format!("{}{}{}", intro, e, f)); v.push(format!("{}3;{}{}", intro, e, f)); v.push(format!("{}{};2{}", intro, e, f)); } }
          v.push(format!("\u{1b}[38;5;{}m", e)); v.push(format!("\u{1b}[38;{};1m", e)); v.push(format!("\u{1b}[48;2;1;{};3m", e)); v.push(format!("\u{1b}[31;{}m", e)); }
      let mut it3 = v.into_iter();
      events_opt(em, rng, &mut |_r| it3.next()); }
    // low-byte look-alikes: U+01xx / U+04xx ... characters whose low byte is ESC, BEL, BS, LF, CR, SO, SI, CAN, SUB, CSI, OSC, ST, a digit,
    // ';', '?', '$', '[', ']', '\\', or a final — alone, after ESC, inside a CSI at every position, and inside an OSC payload
    { let looks: Vec<char> = [0x1bu32, 0x07, 0x08, 0x09, 0x0a, 0x0d, 0x0e, 0x0f, 0x18, 0x1a, 0x9b, 0x9d, 0x9c, 0x30, 0x35, 0x39, 0x3b, 0x3f, 0x24, 0x5b, 0x5d, 0x5c, 0x20, 0x3e,
                              0x6d, 0x48, 0x4a, 0x4b, 0x68, 0x6c, 0x41, 0x72, 0x63, 0x37, 0x38, 0x23, 0x25, 0x28, 0x29, 0x50, 0x52, 0x7f]
          .iter().flat_map(|lo| [0x100u32 + lo, 0x400 + lo, 0x3000 + lo]).filter_map(char::from_u32).collect();
      let mut v: Vec<String> = Vec::new();
      for &c in looks.iter() {
          v.push(format!("a{}b", c)); v.push(format!("\u{1b}{}x", c)); v.push(format!("\u{1b}[{}x", c)); v.push(format!("\u{1b}[5{}7m", c)); v.push(format!("\u{1b}[5;{}1m", c));
          v.push(format!("\u{9b}?{}h", c)); v.push(format!("\u{1b}]0;a{}b\u{7}z", c)); v.push(format!("\u{1b}]{};t\u{7}z", c)); v.push(format!("\u{1b}]2;{}\u{1b}\\z", c)); v.push(format!("\u{1b}({}q", c)); v.push(format!("\u{1b}#{}q", c)); }
      em.add("lookalike_strings", v.len() as u64);
      let mut it4 = v.into_iter();
      events_opt(em, rng, &mut |_r| it4.next()); }
    // every final byte 0x20..0x7e (and some non-ASCII) x 0..3 parameters x private flag: the dispatch tables
    let mut finals: Vec<char> = (0x20u32..0x7f).map(|c| char::from_u32(c).unwrap()).collect(); finals.extend(['\u{e9}', '\u{3042}', '\u{7f}', '\u{80}', '\u{ff12}', '\u{b2}', '\u{b9}', '\u{bd}', '\u{663}', '\u{2160}', '\u{96f6}']);
    let mut combos: Vec<String> = Vec::new();
    for f in finals.iter() { for ps in ["", "5", "5;12", "0;0;7", ";", "3;"] { for pv in ["", "?"] { combos.push(format!("\u{1b}[{}{}{}", pv, ps, f)); } } combos.push(format!("\u{1b}{}", f)); combos.push(format!("\u{1b}#{}", f)); combos.push(format!("\u{1b}%{}Z", f)); combos.push(format!("\u{1b}({}", f)); combos.push(format!("\u{1b}){}", f)); combos.push(format!("\u{1b}]{};t\u{7}", f)); }
    let mut it2 = combos.into_iter();
    events_opt(em, rng, &mut |_r| it2.next());
}

/// Arguments at which u32 / i32 arithmetic changes behaviour.
const WILD: [u32; 12] = [0, 1, 2, 9999, 10000, 0x7fff_fffe, 0x7fff_ffff, 0x8000_0000, 0x8000_0001, 0xffff_fff0, 0xffff_fffe, 0xffff_ffff];
fn safety_family(em: &mut Em, rng: &mut Rng, thorough: bool) {
    for &(c, l) in [(0u32, 0u32), (0, 5), (5, 0), (1, 1), (80, 24), (1, 7), (7, 1)].iter() { em.init_probe(c, l); }
    // states: reachable ones, and the same with out-of-contract cursor / geometry written through the pub fields
    let mut pool: Vec<Screen> = Vec::new();
    let ex = exotic_states(rng); let n_ex = ex.len();
    let all = thorough || std::env::var("MT_SAFETY_ALL").is_ok();
    for (k, st) in ex.into_iter().enumerate() { if all || k % 3 == (rng.below(3) as usize) || k + 3 >= n_ex { pool.push(st); } }
    let base: Vec<Screen> = pool.iter().take(if all { 24 } else { 8 }).map(fork).collect();
    for b in base.iter() {
        for (x, y) in [(u32::MAX, 0u32), (0, u32::MAX), (u32::MAX - 1, u32::MAX - 1), (0x8000_0000, 0x7fff_ffff), (b.columns, b.lines), (b.columns + 1, b.lines + 3)] {
            let mut t = fork(b); t.cursor.x = if x == 0 { t.cursor.x } else { x }; t.cursor.y = if y == 0 { t.cursor.y } else { y }; pool.push(t); }
        let mut t = fork(b); t.columns = 0; pool.push(t);
        let mut t = fork(b); t.lines = 0; t.margins = None; pool.push(t);
        let mut t = fork(b); t.columns = 0; t.lines = 0; t.margins = None; t.cursor.x = 0; t.cursor.y = 0; pool.push(t);
    }
    for st in pool.iter() {
        let far_y = st.cursor.y > 100_000; let far_x = st.cursor.x > 100_000;
        let mut ops: Vec<Op> = Vec::new();
        for &a in WILD.iter() {
            let v = Some(a);
            ops.extend([Op::Cuu(v), Op::Cud(v), Op::Cuf(v), Op::Cub(v), Op::Cnl(v), Op::Cpl(v), Op::Cha(v), Op::Vpa(v), Op::Ich(v), Op::Dch(v), Op::Ech(v), Op::Il(v), Op::Dl(v),
                Op::Cup(v, None), Op::Cup(None, v), Op::Cup(v, v), Op::Margins(v, None), Op::Margins(None, v), Op::Margins(Some(1), v), Op::Margins(v, Some(3)),
                Op::Tbc(v), Op::El(v), Op::Sm(vec![a], true), Op::Rm(vec![a], true), Op::Sm(vec![a], false), Op::Sgr(vec![38, 5, a]), Op::Sgr(vec![a])]);
            // ED 1 walks 0..cursor.y: not from a cursor billions of rows down
            if !(far_y && a == 1) { ops.push(Op::Ed(v)); }
        }
        ops.extend([Op::Index, Op::Linefeed, Op::RevIndex, Op::Tab, Op::Backspace, Op::CR, Op::Save, Op::Restore, Op::SetTab, Op::Reset, Op::Align, Op::Display,
            Op::Draw("a".into()), Op::Draw("\u{4e2d}".into()), Op::Draw("\u{301}".into()), Op::Draw("ab\u{4e2d}c".into()),
            Op::Sm(vec![3], true), Op::Rm(vec![3], true), Op::Sm(vec![6], true), Op::Rm(vec![6], true), Op::Sm(vec![4], false), Op::Sm(vec![20], false),
            Op::Resize(Some(0), None), Op::Resize(None, Some(0)), Op::Resize(Some(0), Some(0)), Op::Resize(Some(1), Some(1)), Op::Resize(Some(st.lines.saturating_add(2).min(60)), Some(st.columns.saturating_add(3).min(200))),
            Op::Cud(None), Op::Cuf(None), Op::Cup(None, None), Op::Ed(None), Op::El(None), Op::Ich(None), Op::Il(None), Op::Ech(None), Op::Margins(None, None), Op::Vpa(None)]);
        let _ = far_x;
        let keep = if all { 1 } else { 3 };
        for o in ops.iter() { if rng.below(keep) != 0 { continue; } em.safety_probe(st, o); }
    }
}

// ------------------------------------------------------------------ C11 decoder
fn feed_bytes_rec(chunks: &[Vec<u8>], sel: &[(usize, &str)]) -> Option<Vec<Op>> {
    let ch: Vec<Vec<u8>> = chunks.to_vec(); let sel: Vec<(usize, String)> = sel.iter().map(|(i, s)| (*i, s.to_string())).collect();
    safe(move || { let rec = Arc::new(Mutex::new(Recorder::default())); { let mut bp = ByteParser::new(rec.clone());
        for (i, c) in ch.iter().enumerate() { for (k, code) in sel.iter() { if *k == i { bp.select_other_charset(code); } } bp.feed(c); } }
        let g = rec.lock().unwrap(); g.ops.clone() })
}
fn text_of(ops: &[Op]) -> Option<String> { let mut t = String::new(); for o in ops { match o { Op::Draw(x) => t.push_str(x), _ => return None } } Some(t) }
/// Byte streams whose decoding must not depend on where they are cut or on a redundant charset selection at the cut:
/// the recorded events of every 2- and 3-way chunking (optionally with select_other_charset("G"/"8") between chunks while already
/// in UTF-8 mode) must equal those of the single feed.
fn cut_invariance(prop: &str, em: &mut Em, redundant_select: bool) {
    let streams: Vec<&[u8]> = vec![b"ab\xef\xbb\xbfc", b"\xef\xbb\xbfab\xef\xbb\xbf", b"\xe2\x9e\x1b[5A\x9c", b"\xc21m\xc2\x9b2J", b"\xe2\x82\x1b[1m\xacz", b"a\xe2\x82\xacb", b"\xe2\x82b",
        b"\xf0\x9f\x98\x80x\xf0\x9f", b"\x1b]0;t\xc3\xa9\x07\xc3", b"\xc3\x1b[2Jq\xa9", b"q\xe3\x81\x82\x1b[Aw\xe3\x81"];
    for st in streams.iter() {
        if !em.next_id() { continue; }
        em.arm(format!("cut invariance of {:02x?}", st));
        let whole = feed_bytes_rec(&[st.to_vec()], &[]);
        em.bump("chunkings");
        let Some(whole) = whole else { em.fail("C01", format!("panic feeding {:02x?}", st)); continue; };
        let n = st.len();
        let mut bad: Option<String> = None;
        'cuts: for i in 0..=n { for j in i..=n {
            let chunks = vec![st[..i].to_vec(), st[i..j].to_vec(), st[j..].to_vec()];
            let sels: Vec<Vec<(usize, &str)>> = if redundant_select { vec![vec![], vec![(1, "G")], vec![(2, "8")], vec![(1, "G"), (2, "G")], vec![(1, "x")]] } else { vec![vec![]] };
            for sel in sels.iter() {
                match feed_bytes_rec(&chunks, sel) {
                    None => { bad = Some(format!("panic: chunks {:02x?} select_other_charset before chunk {:?}", chunks, sel)); break 'cuts; }
                    Some(ops) => if ops_text(&ops) != ops_text(&whole) { bad = Some(format!("chunks {:02x?} (select_other_charset before chunk {:?}) deliver {:?}, the single feed delivers {:?}", chunks, sel, ops_text(&ops), ops_text(&whole))); break 'cuts; } } } } }
        if let Some(b) = bad { em.fail(prop, b); }
    }
}
/// events with adjacent draws merged (the plain-text fast path may split text differently for different chunkings)
fn ops_text(ops: &[Op]) -> Vec<String> {
    let mut out: Vec<String> = Vec::new(); let mut acc = String::new();
    for o in ops { match o { Op::Draw(t) => acc.push_str(t), other => { if !acc.is_empty() { out.push(format!("draw {:?}", acc)); acc.clear(); } out.push(format!("{:?}", other)); } } }
    if !acc.is_empty() { out.push(format!("draw {:?}", acc)); }
    out
}
fn c11(em: &mut Em, rng: &mut Rng, thorough: bool) {
    cut_invariance("C11", em, true);
    let reps: Vec<u8> = vec![0x00, 0x41, 0x7f, 0x80, 0x8f, 0x90, 0x9f, 0xa0, 0xbb, 0xbf, 0xc0, 0xc1, 0xc2, 0xdf, 0xe0, 0xe1, 0xec, 0xed, 0xee, 0xef, 0xf0, 0xf1, 0xf3, 0xf4, 0xf5, 0xfe, 0xff];
    let maxlen = if thorough { 4 } else { 3 };
    let mut cases: Vec<Vec<u8>> = Vec::new();
    for len in 1..=maxlen { let mut idx = vec![0usize; len]; 'outer: loop { cases.push(idx.iter().map(|&i| reps[i]).collect()); let mut p = len; loop { if p == 0 { break 'outer; } p -= 1; idx[p] += 1; if idx[p] < reps.len() { break; } idx[p] = 0; } } }
    // every well-formed form: first and last of each range, plus samples
    for cp in [0u32, 0x7f, 0x80, 0x7ff, 0x800, 0xfff, 0x1000, 0xcfff, 0xd000, 0xd7ff, 0xe000, 0xfeff, 0xfffd, 0xffff, 0x10000, 0x3ffff, 0x40000, 0xfffff, 0x100000, 0x10ffff, 0x3042, 0xe9, 0x1f600] {
        if let Some(c) = char::from_u32(cp) { if cp == 0x9b || cp == 0x9d { continue; } let mut b = [0u8; 4]; let e = c.encode_utf8(&mut b).as_bytes().to_vec(); let mut w = e.clone(); w.push(0x41); w.extend(e.clone()); cases.push(e); cases.push(w); } }
    for bad in [&[0xc0u8, 0x80][..], &[0xe0, 0x80, 0x80], &[0xe0, 0x9f, 0xbf], &[0xed, 0xa0, 0x80], &[0xed, 0xbf, 0xbf], &[0xf0, 0x80, 0x80, 0x80], &[0xf0, 0x8f, 0xbf, 0xbf], &[0xf4, 0x90, 0x80, 0x80], &[0xf5, 0x80, 0x80, 0x80], &[0xef, 0xbb, 0xbf], &[0xef, 0xbb, 0xbf, 0xef, 0xbb, 0xbf], &[0x41, 0xef, 0xbb, 0xbf], &[0xef, 0xbb], &[0xef, 0xbb, 0x41], &[0xe3, 0x81], &[0xf0, 0x9f, 0x98]] { cases.push(bad.to_vec()); }
    for _ in 0..(if thorough { 40000 } else { 4000 }) { let n = 1 + rng.below(9) as usize; cases.push((0..n).map(|_| if rng.chance(1, 3) { *rng.pick(&reps) } else { let b = rng.below(256) as u8; if (7..=15).contains(&b) || b == 0x1b || b == 0x9b || b == 0x9d { 0x41 } else { b } }).collect()); }
    em.add("byte_strings", cases.len() as u64);
    for bs in cases.iter() {
        if !em.next_id() { continue; }
        // model-free: every 2-way split (+ sentinel) against Rust's own lossy decoder
        em.arm(format!("ByteParser bytes {:02x?} under all 2-way splits", bs));
        let mut full = bs.clone(); full.push(b'!');
        let lossy = String::from_utf8_lossy(&full).to_string();
        let strip = |s: &str| -> String { s.strip_prefix('\u{feff}').unwrap_or(s).to_string() };
        let starts_bom = bs.starts_with(&[0xef, 0xbb, 0xbf]);
        let mut emit_split = rng.below(bs.len() as u64 + 1) as usize;
        for cut in 0..=bs.len() {
            let chunks = vec![bs[..cut].to_vec(), bs[cut..].to_vec(), vec![b'!']];
            match feed_bytes_rec(&chunks, &[]) { None => { em.fail("C01", format!("panic decoding {:02x?} cut at {}", bs, cut)); emit_split = usize::MAX; break; }
                Some(ops) => { em.bump("decode_runs"); match text_of(&ops) { None => em.fail("C11", format!("bytes {:02x?} cut {}: non-text event {:?}", bs, cut, ops)),
                    Some(t) => { let ok = t == lossy || (starts_bom && t == strip(&lossy)); if !ok { em.fail("C11", format!("bytes {:02x?} cut at {}: decoded {:?}, conforming decoder gives {:?}", bs, cut, t, lossy)); } } } } }
        }
        if emit_split == usize::MAX { continue; }
        // correspondence with the decoder model: one chunking per string, sometimes with a mode switch in between
        let mut segs: Vec<(u8, Vec<u8>)> = Vec::new(); // (0 bytes | 2 select, payload)
        let cut = emit_split; let switch = rng.chance(1, 6);
        segs.push((0, bs[..cut].to_vec())); if switch { segs.push((2, b"@".to_vec())); segs.push((0, vec![0xe9, 0x41, 0xc3])); segs.push((2, (*rng.pick(&[&b"G"[..], &b"8"[..]])).to_vec())); } segs.push((0, bs[cut..].to_vec())); segs.push((0, vec![b'!']));
        let segs2 = segs.clone();
        let r = safe(move || { let rec = Arc::new(Mutex::new(Recorder::default())); { let mut bp = ByteParser::new(rec.clone()); for (k, p) in segs2.iter() { if *k == 0 { bp.feed(p) } else { bp.select_other_charset(std::str::from_utf8(p).unwrap()) } } } let g = rec.lock().unwrap(); g.ops.clone() });
        em.o.u(5); em.o.i(em.id); em.o.u(segs.len() as u32);
        for (k, p) in segs.iter() { if *k == 0 { em.o.u(0); em.o.bytes(p); } else { em.o.u(2); em.o.s(std::str::from_utf8(p).unwrap()); } }
        match r { Some(ops) => { em.o.u(0); em.o.u(ops.len() as u32); for o in ops.iter() { o.enc(&mut em.o); } } None => em.o.u(1) }
        em.o.nl(); em.bump("event_histories"); em.maybe_flush();
        if em.samples.len() < 12 && em.id % 997 == 0 { em.sample(format!("bytes {:02x?} cut {} switch {}", bs, cut, switch)); }
    }
    // 8-bit mode: each byte maps to the code point of equal value
    for _ in 0..(if thorough { 2000 } else { 300 }) { if !em.next_id() { continue; } let n = 1 + rng.below(12) as usize; let bs: Vec<u8> = (0..n).map(|_| { let b = rng.below(256) as u8; if (7..=15).contains(&b) || b == 0x1b || b == 0x9b || b == 0x9d { 0xe9 } else { b } }).collect();
        let cut = rng.below(n as u64 + 1) as usize; let pre: Vec<u8> = if rng.chance(1, 2) { vec![0xe3, 0x81] } else { vec![] };
        let chunks = vec![pre.clone(), bs[..cut].to_vec(), bs[cut..].to_vec()];
        match feed_bytes_rec(&chunks, &[(1, "@")]) { None => em.fail("C01", format!("panic in 8-bit mode on {:02x?}", bs)), Some(ops) => { let want: String = bs.iter().map(|b| *b as char).collect(); em.bump("decode_runs");
            if text_of(&ops).as_deref() != Some(want.as_str()) { em.fail("C11", format!("8-bit mode: bytes {:02x?} (after pending {:02x?}) gave {:?}", bs, pre, ops)); } } } }
}

// ------------------------------------------------------------------ C02 chunking
fn run_chars(c: u32, l: u32, utf8: bool, chunks: &[String]) -> Option<String> {
    let ch: Vec<String> = chunks.to_vec();
    safe(move || { let m = Arc::new(Mutex::new(Screen::new(c, l))); { let mut p = Parser::new(m.clone()); p.set_use_utf8(utf8); for x in ch { p.feed(x); } } let g = m.lock().unwrap(); snapshot(&g) })
}
fn run_bytes(c: u32, l: u32, utf8: bool, chunks: &[&[u8]]) -> Option<String> {
    let ch: Vec<Vec<u8>> = chunks.iter().map(|x| x.to_vec()).collect();
    safe(move || { let m = Arc::new(Mutex::new(Screen::new(c, l))); { let mut p = ByteParser::new(m.clone()); if !utf8 { p.select_other_charset("@"); } for x in ch.iter() { p.feed(x); } } let g = m.lock().unwrap(); snapshot(&g) })
}
fn c02(em: &mut Em, rng: &mut Rng, thorough: bool) {
    let geos: &[(u32, u32)] = &[(1, 1), (3, 2), (5, 4), (10, 5), (20, 6), (80, 24)];
    let n = if thorough { 3000 } else { 260 };
    for _ in 0..n {
        if !em.next_id() { continue; }
        let (c, l) = *rng.pick(geos); let utf8 = rng.chance(2, 3);
        let tl = 2 + rng.below(16) as usize; let text = if rng.chance(1, 2) { gen_stream(rng, tl) } else { gen_token_stream(rng, 1 + tl / 3) }; let cs: Vec<char> = text.chars().collect();
        em.arm(format!("{}x{} utf8={} stream {:?} under chunkings", c, l, utf8, text));
        let whole = run_chars(c, l, utf8, &[text.clone()]);
        em.bump("streams");
        // every 2-way split at a character boundary, empty chunks, char-at-a-time, random k-way
        for cut in 0..=cs.len() { let a: String = cs[..cut].iter().collect(); let b: String = cs[cut..].iter().collect();
            let r = run_chars(c, l, utf8, &[a, String::new(), b]); em.bump("chunkings");
            if r != whole { em.fail("C02", format!("{}x{} utf8={} chars {:?} cut at {}: state differs from single feed", c, l, utf8, text, cut)); break; } }
        let single: Vec<String> = cs.iter().map(|x| x.to_string()).collect();
        if run_chars(c, l, utf8, &single) != whole { em.fail("C02", format!("{}x{} utf8={} chars {:?} fed one character at a time differs", c, l, utf8, text)); }
        // bytes: every byte offset, incl. inside multi-byte characters
        let mut bytes = text.clone().into_bytes(); if rng.chance(1, 4) { let k = rng.below(bytes.len() as u64 + 1) as usize; bytes.insert(k, *rng.pick(&[0xffu8, 0xc3, 0xe3, 0xf0])); }
        let bwhole = run_bytes(c, l, utf8, &[&bytes]);
        for cut in 0..=bytes.len() { let r = run_bytes(c, l, utf8, &[&bytes[..cut], &[], &bytes[cut..]]); em.bump("chunkings");
            if r != bwhole { em.fail("C02", format!("{}x{} utf8={} bytes {:02x?} cut at {}: state differs from single feed", c, l, utf8, bytes, cut)); break; } }
        let one: Vec<&[u8]> = bytes.chunks(1).collect();
        if run_bytes(c, l, utf8, &one) != bwhole { em.fail("C02", format!("{}x{} utf8={} bytes {:02x?} fed byte-at-a-time differs", c, l, utf8, bytes)); }
        if em.samples.len() < 12 && em.id % 41 == 0 { em.sample(format!("{}x{} utf8={} stream {:?}: {} char cuts, {} byte cuts", c, l, utf8, text, cs.len() + 1, bytes.len() + 1)); }
    }
    // exhaustive: every string over one representative per class up to length 4, every 2-way split (3x2 screen)
    {
        let reps: Vec<char> = "\u{1b}\r\n\u{7}\u{18}[]0;?$#(cH\\x\u{9c}".chars().collect();
        let maxlen = if thorough { 5 } else { 4 };
        let mut count = 0u64;
        for len in 2..=maxlen { all_strings(&reps, len, &mut |t: String| {
            if !thorough && len == 4 && (count % 3 != (rng.0 % 3)) { count += 1; return; }
            count += 1; em.id += 1;
            let cs: Vec<char> = t.chars().collect();
            em.arm(format!("3x2 chars {:?} under all 2-way splits", t));
            let whole = run_chars(3, 2, true, &[t.clone()]);
            for cut in 1..cs.len() { let a: String = cs[..cut].iter().collect(); let b: String = cs[cut..].iter().collect();
                if run_chars(3, 2, true, &[a, b]) != whole { em.fail("C02", format!("3x2 chars {:?} cut at {}: state differs from single feed", t, cut)); break; } }
            em.bump("exhaustive_short_streams"); }); }
    }
    // captured sessions: byte-at-a-time makes every offset a call boundary in one run; plus random k-way splits
    let dir = std::path::Path::new("/repo/assets/captured");
    let names = ["cat-gpl3", "find-etc", "htop", "ls", "mc", "top", "vi"];
    for (i, name) in names.iter().enumerate() {
        if !thorough && (i as u64 + rng.0) % 3 != 0 && *name != "ls" { continue; }
        if !em.next_id() { continue; }
        let data = match std::fs::read(dir.join(format!("{}.input", name))) { Ok(d) => d, Err(_) => { em.bump("captured_missing"); continue } };
        let whole = run_bytes(80, 24, true, &[&data]);
        let one: Vec<&[u8]> = data.chunks(1).collect();
        if run_bytes(80, 24, true, &one) != whole { em.fail("C02", format!("captured session {} fed byte-at-a-time differs from a single feed", name)); }
        for _ in 0..(if thorough { 6 } else { 2 }) { let mut v: Vec<&[u8]> = Vec::new(); let mut p = 0; let mut cuts = Vec::new(); while p < data.len() { let kk = *rng.pick(&[3u64, 17, 400, 5000]); let k = 1 + rng.below(kk) as usize; let e = (p + k).min(data.len()); v.push(&data[p..e]); cuts.push(e); p = e; }
            em.bump("chunkings"); if run_bytes(80, 24, true, &v) != whole { em.fail("C02", format!("captured session {} differs under a random {}-way split (first cuts {:?})", name, v.len(), &cuts[..cuts.len().min(8)])); } }
        em.bump("captured_sessions");
    }
    // correspondence: chunked histories against the model (which folds over the concatenation)
    let g2: Vec<(u32, u32)> = geos[..5].to_vec();
    histories(em, rng, if thorough { 1500 } else { 150 }, &g2);
}

// ------------------------------------------------------------------ C01 no crash / hang / wedge
fn c01(em: &mut Em, rng: &mut Rng, thorough: bool) {
    let geos: Vec<(u32, u32)> = SMALL.iter().chain(MED.iter()).chain(BIG.iter()).cloned().collect();
    let n = if thorough { 20000 } else { 2500 };
    // display() (twice) and further drawing from every wide-character edge state and every exotic state, each a watched case
    { let mut sts = wide_edge_states(rng); sts.extend(exotic_states(rng));
      for st in sts.iter() { if !em.next_id() { continue; }
        em.arm(format!("display() on {}x{} state cursor=({},{}) rows={:?}", st.columns, st.lines, st.cursor.x, st.cursor.y, snapshot(st).chars().take(200).collect::<String>()));
        let mut f = fork(st);
        let r = safe(move || { let a = f.display().len(); f.draw("\u{4e2d}x"); f.cariage_return(); f.draw("y"); let b = f.display().len(); (a, b, f.lines as usize) });
        em.bump("api_cases");
        match r { None => em.fail("C01", format!("panic in display()/draw on a {}x{} state with wide characters (cursor ({},{}))", st.columns, st.lines, st.cursor.x, st.cursor.y)),
            Some((a, b, ll)) => if a != b || b != ll { em.fail("C09", format!("display() returned {} then {} rows on a {}-line screen", a, b, ll)); } } } }
    for k in 0..n {
        if !em.next_id() { continue; }
        let (c, l) = *rng.pick(&geos);
        // (a) byte streams, arbitrary chunking, both modes, display() and more input afterwards
        let len = 1 + rng.below(if c > 40 { 12 } else { 40 }) as usize;
        let mut bytes: Vec<u8> = Vec::new();
        match k % 4 { 0 => { for _ in 0..len { bytes.push(rng.below(256) as u8); } }
            1 => { bytes = gen_stream(rng, len).into_bytes(); }
            2 => { bytes = gen_stream(rng, len).into_bytes(); for _ in 0..3 { if !bytes.is_empty() { let i = rng.below(bytes.len() as u64) as usize; match rng.below(3) { 0 => { bytes.remove(i); } 1 => bytes[i] = rng.below(256) as u8, _ => bytes.insert(i, *rng.pick(&[0x1bu8, 0x9b, 0xff, 0xe3, 0x30, 0x3b])) } } } }
            _ => { let t = gen_stream(rng, len / 2 + 1); bytes = t.into_bytes(); bytes.truncate(rng.below(bytes.len() as u64 + 1) as usize); } }
        let utf8 = rng.chance(3, 4);
        let mut chunks: Vec<Vec<u8>> = Vec::new(); let mut p = 0; while p < bytes.len() { let k2 = 1 + rng.below(9) as usize; let e = (p + k2).min(bytes.len()); chunks.push(bytes[p..e].to_vec()); p = e; }
        let tail = gen_stream(rng, 3).into_bytes();
        // every third case: a multi-byte character is cut by a chunk boundary and ByteParser::select_other_charset is called between
        // chunks ("@" 8-bit, "G"/"8" UTF-8, others ignored), also repeatedly and right at the cut
        let mut sels: Vec<(usize, &'static str)> = Vec::new();
        if k % 3 == 0 { let mb: &[u8] = *rng.pick(&[&[0xe3u8, 0x81, 0x82][..], &[0xc3, 0xa9][..], &[0xf0, 0x9f, 0x98, 0x80][..], &[0xe3, 0x81][..]]);
            let cut = 1 + rng.below(mb.len() as u64 - 1) as usize; chunks.push(mb[..cut].to_vec()); let at = chunks.len(); chunks.push(mb[cut..].to_vec()); chunks.push(b"ok\x1b[2J".to_vec());
            for _ in 0..(1 + rng.below(4)) { sels.push((if rng.chance(1, 2) { at } else { rng.below(chunks.len() as u64 + 1) as usize }, *rng.pick(&["@", "G", "8", "@", "G", "x"]))); } }
        // empty chunks are legal input: at the start, between chunks, inside a multi-byte character, at the end
        if k % 5 == 1 { for _ in 0..(1 + rng.below(3)) { let at = rng.below(chunks.len() as u64 + 1) as usize; chunks.insert(at, Vec::new()); for sl in sels.iter_mut() { if sl.0 >= at { sl.0 += 1; } } } }
        let ch2 = chunks.clone(); let tail2 = tail.clone(); let sels2 = sels.clone();
        em.arm(format!("{}x{} utf8={} byte chunks {:02x?} (select_other_charset before chunk: {:?}) then display() then {:02x?}", c, l, utf8, chunks, sels, tail));
        let r = safe(move || { let m = Arc::new(Mutex::new(Screen::new(c, l))); let mut bp = ByteParser::new(m.clone()); if !utf8 { bp.select_other_charset("@"); }
            for (i, x) in ch2.iter().enumerate() { for (j, code) in sels2.iter() { if *j == i { bp.select_other_charset(code); } } bp.feed(x); }
            for (j, code) in sels2.iter() { if *j >= ch2.len() { bp.select_other_charset(code); } }
            let d = m.lock().unwrap().display(); let n1 = d.len(); bp.feed(&tail2); let d2 = m.lock().unwrap().display(); let ll = m.lock().unwrap().lines; drop(bp); (n1, d2.len(), ll) });
        em.bump("byte_cases");
        match r { None => em.fail("C01", format!("panic: {}x{} utf8={} chunks {:02x?} select_other_charset before chunk {:?} then display() then {:02x?}", c, l, utf8, chunks, sels, tail)),
            Some((n1, n2, ll)) => { let _ = n1; if n2 != ll as usize { em.fail("C09", format!("display() returned {} rows on a {}-line screen", n2, ll)); } } }
        // (b) direct API sequences with display() interleaved
        if !em.next_id() { continue; }
        let ops: Vec<Op> = { let t = Screen::new(c, l); (0..(1 + rng.below(if c > 40 { 8 } else { 24 }))).map(|_| match rng.below(8) { 0 => Op::Display, 1 => Op::Resize(Some(1 + rng.below(l as u64 + 3) as u32), Some(1 + rng.below(c as u64 + 3) as u32)), _ => gen_op(rng, &t) }).collect() };
        let ops2 = ops.clone();
        em.arm(format!("{}x{} API sequence {:?}", c, l, ops));
        let r = safe(move || { let mut s = Screen::new(c, l); for o in ops2.iter() { o.apply(&mut s); } s.display().len() == s.lines as usize });
        em.bump("api_cases");
        if r.is_none() { em.fail("C01", format!("panic: {}x{} API sequence {:?}", c, l, ops)); }
        if em.samples.len() < 12 && k % 211 == 0 { em.sample(format!("{}x{} utf8={} bytes {:02x?}", c, l, utf8, bytes)); }
    }
    // (c) character streams through Parser (all C0/C1 controls), recorder histories double as correspondence
    events(em, rng, if thorough { 20000 } else { 2000 }, &mut |r| { let n = 1 + r.below(10) as usize; (0..n).map(|_| match r.below(4) { 0 => char::from_u32(r.below(0xa0) as u32).unwrap(), 1 => *r.pick(&['\u{1b}', '[', ']', ';', '?', '0', '9', 'm', 'H', '\u{9b}', '\u{9d}', '\u{9c}', '\\', '$', 'P', 'R']), 2 => *r.pick(&['\u{3042}', '\u{301}', '\u{feff}', '\u{10ffff}', '\u{d7ff}', '\u{e000}', '\u{fffd}']), _ => char::from_u32(32 + r.below(95) as u32).unwrap() }).collect() });
    events(em, rng, if thorough { 20000 } else { 2000 }, &mut |r| { let n = 1 + r.below(6) as usize; gen_token_stream(r, n) });
    // (d) local probes: every operation with boundary arguments from built states (panic = failing input; model agreement on the way)
    let g2: Vec<(u32, u32)> = SMALL.iter().chain(MED.iter()).cloned().collect();
    for _ in 0..(if thorough { 1500 } else { 150 }) { let (c, l) = *rng.pick(&g2); let sp = random_spec(rng, c, l); if let Some(s) = build(&sp, rng) { walk(em, rng, &s, 10, &mut |r, cur| gen_op(r, cur)); em.display_probe(&s); } else { em.fail("C01", format!("panic while building a state from {:?}", sp)); } }
    // (f) where the Rust text *does* panic: the checked-arithmetic conditions of coq/Safe.v against the real crate, outside the
    //     contract (arguments up to u32::MAX, `as i32` edge values, cursor far outside the grid, zero-sized screens via the pub
    //     fields) and inside it. A panic the model does not predict is an unlisted panic site; inside the contract it is a failure of C01.
    safety_family(em, rng, thorough);
    // (g) a screen of u32::MAX columns (resize allocates nothing per column): the column arithmetic must saturate. Model-free — the
    //     model would iterate over four billion columns; nothing here iterates over the width (no display(), no EL 1 / ICH / DCH far from the right edge)
    if em.next_id() {
        em.arm("resize(None, Some(u32::MAX)); 430 000 x cursor_forward(9999); draw / EL 1 / ECH / ICH / DCH at the right edge".to_string());
        let r = safe(|| { let mut s = Screen::new(80, 2); s.resize(None, Some(u32::MAX));
            for _ in 0..430_000 { s.cursor_forward(Some(9999)); }
            let x_edge = s.cursor.x;
            // at the last column: one-iteration loops
            s.insert_characters(Some(9999)); s.delete_characters(Some(9999)); s.erase_characters(Some(9999));
            s.draw("\u{4e2d}"); let x_wide = s.cursor.x; s.cursor_forward(Some(9999)); let x_back = s.cursor.x;
            s.draw("ab"); let x_wrap = s.cursor.x;          // 'a' in the last column, 'b' wraps to the next row
            s.erase_in_line(Some(1), None); s.erase_characters(Some(9999)); s.cursor_forward(None); s.tab();
            (x_edge, x_wide, x_back, x_wrap, s.cursor.x, s.columns) });
        em.bump("big_cases");
        match r { None => em.fail("C01", "panic: resize(None, Some(u32::MAX)) then 430 000 x cursor_forward(Some(9999)) and editing at the right edge".to_string()),
            Some((a, b, c, d, e, cols)) => { if a != cols - 1 || b != cols || c != cols - 1 || d != 1 || e > cols { em.fail("C05", format!("cursor columns {} {} {} {} {} on a {}-column screen", a, b, c, d, e, cols)); } } } }
    // (e) 132-column switch through the parser on big geometries (coroutine stack, debug build)
    for &(c, l) in BIG.iter() { if !em.next_id() { continue; } let r = safe(move || { let m = Arc::new(Mutex::new(Screen::new(c, l))); let mut p = Parser::new(m.clone()); p.feed("\u{1b}[?3h".into()); p.feed("x".repeat(300)); p.feed("\u{1b}[?3l\u{1b}[2J\u{1b}#8".into()); p.feed("\u{1b}[?5h\u{1b}[?5l\u{1b}c".into()); let n = m.lock().unwrap().display().len(); n });
        em.bump("big_cases"); if r.is_none() { em.fail("C01", format!("panic: DECCOLM round trip through the parser on {}x{}", c, l)); } }
}
