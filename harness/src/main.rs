//! mtprobe — drives the real memterm (path dependency on /repo, rebuilt from the working tree),
//! writes implementation snapshots as an integer stream for driver/driver.ml, and evaluates the
//! model-free (implementation-vs-implementation) oracles itself.
mod enc;
mod gen;
mod plans;
mod tables;

use std::collections::HashSet;
use std::io::Write;
use std::sync::{Arc, Mutex};

use memterm::parser::Parser;
use memterm::parser_listener::ParserListener;
use memterm::screen::Screen;
use unicode_normalization::UnicodeNormalization;
use unicode_width::UnicodeWidthChar;

use enc::{enc_state, fork, Op, Out};
use gen::{safe, Rng, MARKS};

pub struct Em {
    pub o: Out,
    pub sink: Box<dyn Write>,
    pub id: i64,
    pub only: Option<i64>,
    pub nfc_seen: HashSet<String>,
    pub fails: Vec<String>,
    pub stats: std::collections::BTreeMap<String, u64>,
    pub samples: Vec<String>,
    pub progress: Option<std::fs::File>,
    pub watch: Arc<Mutex<(std::time::Instant, String, i64)>>,
}
impl Em {
    pub fn bump(&mut self, k: &str) { *self.stats.entry(k.to_string()).or_insert(0) += 1; }
    pub fn add(&mut self, k: &str, n: u64) { *self.stats.entry(k.to_string()).or_insert(0) += n; }
    pub fn sample(&mut self, s: String) { if self.samples.len() < 12 { self.samples.push(s); } }
    pub fn flush(&mut self) { if !self.o.buf.is_empty() { let _ = self.sink.write_all(self.o.buf.as_bytes()); self.o.buf.clear(); } }
    pub fn maybe_flush(&mut self) { if self.o.buf.len() > (1 << 20) { self.flush(); } }
    pub fn fail(&mut self, prop: &str, what: String) { if self.fails.len() < 50 { self.fails.push(format!("FAIL {} id={} {}", prop, self.id, what)); } self.bump("harness_fail"); }
    /// tell the watchdog what is about to run (a case that does not return is reported with this text)
    pub fn arm(&mut self, what: String) { if let Ok(mut g) = self.watch.lock() { *g = (std::time::Instant::now(), what, self.id); } }
    pub fn next_id(&mut self) -> bool {
        self.id += 1;
        if let Ok(mut g) = self.watch.lock() { g.0 = std::time::Instant::now(); g.2 = self.id; g.1.clear(); }
        if let Some(f) = self.progress.as_mut() { if self.id % 64 == 0 { let _ = writeln!(f, "{}", self.id); } }
        match self.only { Some(k) => k == self.id, None => true }
    }
    pub fn oracle_tables(&mut self) {
        let mut emit = |o: &mut Out, c: u32| { if let Some(ch) = char::from_u32(c) { o.u(1); o.u(c); o.u(ch.width().unwrap_or(0) as u32); o.u(unicode_normalization::char::is_combining_mark(ch) as u32); o.nl(); } };
        for c in 0..0x3400u32 { emit(&mut self.o, c); }
        for c in (0x4e00..0x4e40u32).chain(0xac00..0xac20).chain(0xfe00..0xfe10).chain(0xfeff..0xff00).chain(0xfff0..0x10000).chain(0xff00..0xfff0).chain(0x1f300..0x1f700).chain(0xe0100..0xe0110).chain(0x10ffff..0x110000) { emit(&mut self.o, c); }
        for t in [&memterm::charset::VT100_MAP, &memterm::charset::IBMPC_MAP, &memterm::charset::VAX42_MAP, &memterm::charset::LAT1_MAP] {
            for ch in t.iter() { if *ch as u32 >= 0xC0 { let s = ch.to_string(); self.note_str(&s); } }
        }
        self.flush();
    }
    /// NFC table entries for a cell text and what combining marks can turn it into.
    pub fn note_str(&mut self, s: &str) {
        if self.nfc_seen.contains(s) { return; }
        let mut level = vec![s.to_string()];
        for _depth in 0..3 {
            let mut next = Vec::new();
            for t in level.iter() {
                if !self.nfc_seen.insert(t.clone()) { continue; }
                let n: String = t.nfc().collect();
                if t.chars().any(|c| c as u32 >= 0xC0) { self.o.u(2); self.o.s(t); self.o.s(&n); self.o.nl(); }
                for m in MARKS.iter() { let mut x = n.clone(); x.push(*m); next.push(x); }
            }
            level = next;
        }
    }
    pub fn note_state(&mut self, s: &Screen) {
        let mut v: Vec<String> = Vec::new();
        for l in s.buffer.values() { for c in l.values() { if c.data.chars().any(|c| c as u32 >= 0xC0) { v.push(c.data.clone()); } } }
        for t in v { self.note_str(&t); }
    }
    pub fn note_op(&mut self, op: &Op) {
        if let Op::Draw(t) = op {
            if !t.chars().any(|c| c as u32 >= 0xC0) { return; }
            for ch in t.chars() { self.note_str(&ch.to_string()); }
            // prefixes of base + marks as they accumulate in one cell
            let cs: Vec<char> = t.chars().collect();
            for i in 0..cs.len() { for j in i + 1..=cs.len().min(i + 4) { let sub: String = cs[i..j].iter().collect(); self.note_str(&sub); } }
        }
    }
    /// local probe: fork, apply, dump (pre, op, outcome, post)
    pub fn probe(&mut self, pre: &Screen, op: &Op) {
        if !self.next_id() { return; }
        self.note_state(pre); self.note_op(op);
        self.arm(format!("{}x{} cursor=({},{}) margins={:?} op={:?}", pre.columns, pre.lines, pre.cursor.x, pre.cursor.y, pre.margins.map(|m| (m.top, m.bottom)), op));
        let mut f = fork(pre);
        let opc = op.clone();
        let r = safe(move || { opc.apply(&mut f); f });
        self.o.u(3); self.o.i(self.id); enc_state(&mut self.o, pre); op.enc(&mut self.o);
        match r { Some(post) => { self.o.u(0); enc_state(&mut self.o, &post); } None => { self.o.u(1); } }
        self.o.nl(); self.bump("probes"); self.bump(&format!("op_{}", op.name()));
        if self.samples.len() < 12 && self.id % 97 == 1 { let d = format!("{}x{} cur=({},{}) margins={:?} op={:?}", pre.columns, pre.lines, pre.cursor.x, pre.cursor.y, pre.margins.map(|m| (m.top, m.bottom)), op); self.sample(d); }
        self.maybe_flush();
    }
    /// the same operation reached through the recogniser: `text` is fed to a Parser driving the forked screen
    pub fn probe_via_parser(&mut self, pre: &Screen, op: &Op, text: &str, utf8: bool) {
        if !self.next_id() { return; }
        self.note_state(pre); self.note_op(op);
        self.arm(format!("{}x{} cursor=({},{}) via parser text={:?}", pre.columns, pre.lines, pre.cursor.x, pre.cursor.y, text));
        let f = fork(pre);
        let t = text.to_string();
        let r = safe(move || {
            let scr = Arc::new(Mutex::new(f));
            { let mut p = Parser::new(scr.clone()); p.set_use_utf8(utf8); p.feed(t); }
            let g = scr.lock().unwrap(); fork(&g)
        });
        self.o.u(3); self.o.i(self.id); enc_state(&mut self.o, pre); op.enc(&mut self.o);
        match r { Some(post) => { self.o.u(0); enc_state(&mut self.o, &post); } None => { self.o.u(1); } }
        self.o.nl(); self.bump("probes_via_parser"); self.bump(&format!("op_{}", op.name()));
        self.maybe_flush();
    }
    pub fn display_probe(&mut self, pre: &Screen) {
        if !self.next_id() { return; }
        self.note_state(pre);
        let mut f = fork(pre);
        let r = safe(move || { let out = f.display(); (f, out) });
        self.o.u(4); self.o.i(self.id); enc_state(&mut self.o, pre);
        match r { Some((post, out)) => { self.o.u(0); enc_state(&mut self.o, &post); self.o.u(out.len() as u32); for l in out.iter() { self.o.s(l); } } None => self.o.u(1) }
        self.o.nl(); self.bump("display_probes"); self.maybe_flush();
    }
    /// safety probe: does the operation panic from this (possibly out-of-contract) state? Compared by the driver with the
    /// checked-arithmetic conditions of coq/Safe.v (record kind 9). The caller keeps operations that would loop ~2^32 times away.
    pub fn safety_probe(&mut self, pre: &Screen, op: &Op) {
        if !self.next_id() { return; }
        self.note_state(pre); self.note_op(op);
        self.arm(format!("safety probe {}x{} cursor=({},{}) margins={:?} op={:?}", pre.columns, pre.lines, pre.cursor.x, pre.cursor.y, pre.margins.map(|m| (m.top, m.bottom)), op));
        let mut f = fork(pre);
        let opc = op.clone();
        let r = safe(move || { opc.apply(&mut f); });
        self.o.u(9); self.o.i(self.id); enc_state(&mut self.o, pre); op.enc(&mut self.o); self.o.u(if r.is_some() { 0 } else { 1 });
        self.o.nl(); self.bump("safety_probes"); self.bump(if r.is_some() { "safety_no_panic" } else { "safety_panic" });
        self.maybe_flush();
    }
    /// Screen::new(cols, lines) for sizes including 0: panics or not (record kind 10)
    pub fn init_probe(&mut self, cols: u32, lines: u32) {
        if !self.next_id() { return; }
        self.arm(format!("Screen::new({}, {})", cols, lines));
        let r = safe(move || { let _ = Screen::new(cols, lines); });
        self.o.u(10); self.o.i(self.id); self.o.u(cols); self.o.u(lines); self.o.u(if r.is_some() { 0 } else { 1 });
        self.o.nl(); self.bump("safety_probes"); self.bump(if r.is_some() { "safety_no_panic" } else { "safety_panic" });
    }
    pub fn init_check(&mut self, cols: u32, lines: u32) {
        if !self.next_id() { return; }
        if let Some(s) = safe(|| Screen::new(cols, lines)) { self.o.u(8); self.o.i(self.id); self.o.u(cols); self.o.u(lines); enc_state(&mut self.o, &s); self.o.nl(); self.bump("init_checks"); }
        else { self.fail("C01", format!("Screen::new({},{}) panicked", cols, lines)); }
    }
}

fn main() {
    let args: Vec<String> = std::env::args().collect();
    let mode = args.get(1).cloned().unwrap_or_default();
    let mut seed = 1u64; let mut tier = "quick".to_string(); let mut out: Option<String> = None; let mut report: Option<String> = None; let mut only: Option<i64> = None;
    let mut i = 2;
    while i < args.len() {
        match args[i].as_str() {
            "--seed" => { seed = args[i + 1].parse().unwrap(); i += 1; }
            "--tier" => { tier = args[i + 1].clone(); i += 1; }
            "--out" => { out = Some(args[i + 1].clone()); i += 1; }
            "--report" => { report = Some(args[i + 1].clone()); i += 1; }
            "--only" => { only = Some(args[i + 1].parse().unwrap()); i += 1; }
            _ => {}
        }
        i += 1;
    }
    if mode == "tables" { tables::dump(out.as_deref().unwrap_or("/dev/stdout")); return; }
    std::panic::set_hook(Box::new(|_| {}));
    let sink: Box<dyn Write> = match out.as_deref() { None | Some("-") => Box::new(std::io::BufWriter::with_capacity(1 << 20, std::io::stdout())), Some(p) => Box::new(std::io::BufWriter::with_capacity(1 << 20, std::fs::File::create(p).unwrap())) };
    let progress = report.as_ref().map(|p| std::fs::File::create(format!("{}.progress", p)).unwrap());
    let watch = Arc::new(Mutex::new((std::time::Instant::now(), String::new(), 0i64)));
    {
        // watchdog: a case that does not return within the limit is an input on which processing hangs
        let w = watch.clone(); let rp = report.clone(); let limit = if tier == "thorough" { 10 } else { 5 };
        let mode2 = mode.clone();
        // the limit is on CPU time consumed by this process while one case is running (robust against a loaded machine);
        // a case that blocks without consuming CPU is caught by a wall-clock cap of 8 x limit
        fn cpu_secs() -> f64 {
            let st = std::fs::read_to_string("/proc/self/stat").unwrap_or_default();
            let rest = match st.rfind(')') { Some(i) => &st[i + 1..], None => return 0.0 };
            let f: Vec<&str> = rest.split_whitespace().collect();
            if f.len() < 13 { return 0.0; }
            (f[11].parse::<f64>().unwrap_or(0.0) + f[12].parse::<f64>().unwrap_or(0.0)) / 100.0
        }
        std::thread::spawn(move || {
            let mut cur_id = -1i64; let mut cpu0 = cpu_secs(); let mut wall0 = std::time::Instant::now();
            loop {
                std::thread::sleep(std::time::Duration::from_millis(250));
                let (t0, what, id) = { let g = w.lock().unwrap(); (g.0, g.1.clone(), g.2) };
                if id != cur_id { cur_id = id; cpu0 = cpu_secs(); wall0 = t0; continue; }
                let cpu = cpu_secs() - cpu0;
                if cpu >= limit as f64 || wall0.elapsed().as_secs() >= 8 * limit {
                    if let Some(p) = rp.as_ref() { if let Ok(mut f) = std::fs::OpenOptions::new().create(true).append(true).open(format!("{}.hang", p)) {
                        let _ = writeln!(f, "FAIL C01 id={} processing did not return within {} s of CPU time (plan {}): {}", id, limit, mode2, what); } }
                    std::process::exit(3);
                }
            }
        });
    }
    let mut em = Em { o: Out::new(), sink, id: 0, only, nfc_seen: HashSet::new(), fails: vec![], stats: Default::default(), samples: vec![], progress, watch };
    em.oracle_tables();
    let mut rng = Rng::new(seed);
    let thorough = tier == "thorough";
    plans::run(&mode, &mut em, &mut rng, thorough);
    em.o.u(0); em.o.nl(); em.flush(); let _ = em.sink.flush();
    if let Some(p) = report {
        let mut f = std::fs::File::create(p).unwrap();
        for l in em.fails.iter() { let _ = writeln!(f, "{}", l); }
        for (k, v) in em.stats.iter() { let _ = writeln!(f, "HSTAT {} {}", k, v); }
        for s in em.samples.iter() { let _ = writeln!(f, "SAMPLE {}", s.replace('\n', "\\n")); }
        let _ = writeln!(f, "DONE {}", em.id);
    }
}
