//! PRNG, state builders, operation generators.
use std::panic::{catch_unwind, AssertUnwindSafe};

use memterm::modes::{DECAWM, DECCOLM, DECOM, DECSCNM, DECTCEM, IRM, LNM};
use memterm::parser_listener::ParserListener;
use memterm::screen::Screen;

use crate::enc::{fork, Op};

pub struct Rng(pub u64);
impl Rng {
    pub fn new(seed: u64) -> Rng { Rng(seed.wrapping_mul(0x9E3779B97F4A7C15) ^ 0xD1B54A32D192ED03 | 1) }
    pub fn next(&mut self) -> u64 { self.0 ^= self.0 << 13; self.0 ^= self.0 >> 7; self.0 ^= self.0 << 17; self.0 }
    pub fn below(&mut self, n: u64) -> u64 { if n == 0 { 0 } else { (self.next() >> 11) % n } }
    pub fn chance(&mut self, num: u64, den: u64) -> bool { self.below(den) < num }
    pub fn pick<'a, T>(&mut self, v: &'a [T]) -> &'a T { &v[self.below(v.len() as u64) as usize] }
}

pub const MARKS: [char; 4] = ['\u{0301}', '\u{0308}', '\u{0336}', '\u{0327}'];
pub const TEXTS: &[&str] = &[
    "a", "b", "xyz", "Hello", "\u{3042}", "\u{30b3}\u{30f3}", "e\u{0301}", "\u{0301}", "q\u{0336}\u{0308}", "\u{200b}", "\0", "a\0b",
    "\u{7f}", "\u{85}", "\u{e9}", "\u{e0}q\u{5f}", "W\u{ff37}", "\u{416}\u{43e}", "abcdefghij", "jklmnopq`~", "\u{1f600}", "\u{ad}", "x\u{0308}\u{0301}y",
    "\u{18}", "\u{1a}", "\u{9b}", " ", "\u{feff}", "\u{2500}\u{2502}",
    // a narrow symbol + variation selector 16 (one cell whose STRING is reported double-width), ZWJ, conjoining jamo, regional indicators
    "\u{263a}\u{fe0f}z", "\u{2764}\u{fe0f}", "a\u{200d}b", "\u{1100}\u{1161}\u{11a8}", "\u{1f1e9}\u{1f1ea}", "\u{e01}\u{e33}",
    // the last code point the charset tables translate and the first they do not
    "\u{ff}\u{100}", "\u{100}", "\u{fe}\u{ff}\u{101}",
];
pub const SGRS: &[&[u32]] = &[&[0], &[1], &[31], &[7], &[4, 42], &[38, 5, 196], &[48, 2, 1, 2, 3], &[1, 3, 4, 5, 7, 9, 95, 104], &[27], &[39, 49]];

pub fn safe<F: FnOnce() -> R, R>(f: F) -> Option<R> { catch_unwind(AssertUnwindSafe(f)).ok() }

/// marker for cell (r,c): printable, distinct within small grids
pub fn marker(r: u32, c: u32, cols: u32) -> char { char::from_u32(33 + ((r * cols + c) % 94)).unwrap() }

#[derive(Clone, Debug, Default)]
pub struct Spec {
    pub cols: u32, pub lines: u32,
    pub fill: u8,            // 0 none, 1 full markers, 2 partial, 3 mixed wide/combining
    pub materialise: bool,   // display() once
    pub awm_off: bool, pub irm: bool, pub lnm: bool, pub scnm: bool, pub tcem_off: bool,
    pub charset: u8,         // 0 default, 1 G0=0, 2 G1=U shifted out, 3 G0=V
    pub saves: u8,
    pub margins: Option<(u32, u32)>, // zero-based
    pub decom: bool,
    pub sgr: usize,
    pub cur: (u32, u32),     // (x, y) zero-based, y relative to nothing (absolute); x == cols means pending wrap
    pub clear_dirty: bool,
    pub tabs: u8,            // 0 default, 1 cleared, 2 extra stops
    pub walk: u8,            // random suffix length
}

pub fn fill_full(s: &mut Screen, rng: &mut Rng, vary: bool) {
    let (cols, lines) = (s.columns, s.lines);
    for r in 0..lines {
        if vary { s.select_graphic_rendition(SGRS[(rng.below(SGRS.len() as u64)) as usize]); }
        s.cursor_position(Some(r + 1), Some(1));
        let t: String = (0..cols).map(|c| marker(r, c, cols)).collect();
        s.draw(&t);
    }
    s.select_graphic_rendition(&[0]);
    s.cursor_position(None, None);
}

pub fn build(sp: &Spec, rng: &mut Rng) -> Option<Screen> {
    let sp = sp.clone();
    let mut wr = Rng(rng.next() | 1);
    safe(move || {
        let rng = &mut wr;
        let mut s = Screen::new(sp.cols, sp.lines);
        match sp.fill {
            1 => fill_full(&mut s, rng, true),
            2 => {
                for r in 0..sp.lines { if rng.chance(1, 2) {
                    let c0 = rng.below(sp.cols as u64) as u32; let n = 1 + rng.below((sp.cols - c0) as u64) as u32;
                    s.select_graphic_rendition(SGRS[rng.below(SGRS.len() as u64) as usize]);
                    s.cursor_position(Some(r + 1), Some(c0 + 1));
                    let t: String = (c0..c0 + n).map(|c| marker(r, c, sp.cols)).collect(); s.draw(&t);
                } }
                s.select_graphic_rendition(&[0]);
            }
            3 => {
                for r in 0..sp.lines {
                    s.cursor_position(Some(r + 1), Some(1 + rng.below(sp.cols as u64) as u32));
                    for _ in 0..(1 + rng.below(3)) { s.draw(TEXTS[rng.below(TEXTS.len() as u64) as usize]); if s.cursor.y != r { break; } }
                }
            }
            _ => {}
        }
        if sp.materialise { s.display(); }
        match sp.tabs { 1 => s.clear_tab_stop(Some(3)), 2 => { for _ in 0..3 { s.cursor_to_column(Some(1 + rng.below(sp.cols as u64 + 1) as u32)); s.set_tab_stop(); } } _ => {} }
        if sp.awm_off { s.reset_mode(&[7], true); }
        if sp.irm { s.set_mode(&[IRM], false); }
        if sp.lnm { s.set_mode(&[LNM], false); }
        if sp.scnm { s.set_mode(&[5], true); }
        if sp.tcem_off { s.reset_mode(&[25], true); }
        match sp.charset { 1 => s.define_charset("0", "("), 2 => { s.define_charset("U", ")"); s.shift_out(); } 3 => s.define_charset("V", "("), _ => {} }
        for k in 0..sp.saves {
            s.select_graphic_rendition(SGRS[(k as usize * 3 + 1) % SGRS.len()]);
            s.cursor_position(Some(1 + rng.below(sp.lines as u64) as u32), Some(1 + rng.below(sp.cols as u64) as u32));
            if k == 1 { s.shift_out(); }
            s.save_cursor();
            if k == 1 { s.shift_in(); }
        }
        if let Some((t, b)) = sp.margins { s.set_margins(Some(t + 1), Some(b + 1)); }
        if sp.decom { s.set_mode(&[6], true); }
        s.select_graphic_rendition(SGRS[sp.sgr % SGRS.len()]);
        // cursor placement through the API
        let (x, y) = sp.cur;
        let (top, bottom) = match (s.margins, s.mode.contains(&DECOM)) { (Some(m), true) => (m.top, m.bottom), _ => (0, sp.lines - 1) };
        let yy = y.max(top).min(bottom);
        let rel = yy - top;
        if x >= sp.cols {
            s.cursor_position(Some(rel + 1), Some(sp.cols));
            let keep = s.cursor.attr.clone();
            // reach the pending-wrap column by drawing the marker that is (or would be) there
            let irm = s.mode.contains(&IRM);
            if irm { s.reset_mode(&[IRM], false); }
            s.draw(&marker(yy, sp.cols - 1, sp.cols).to_string());
            if irm { s.set_mode(&[IRM], false); }
            s.cursor.attr = keep;
        } else {
            s.cursor_position(Some(rel + 1), Some(x + 1));
        }
        for _ in 0..sp.walk { let o = gen_op(rng, &s); o.apply(&mut s); }
        if sp.clear_dirty { s.dirty.clear(); }
        s
    })
}

pub fn arg(rng: &mut Rng, size: u32) -> Option<u32> {
    match rng.below(12) { 0 => None, 1 => Some(0), 2 => Some(1), 3 => Some(2), 4 => Some(size.saturating_sub(1)), 5 => Some(size), 6 => Some(size + 1), 7 => Some(size + 2), 8 => Some(9999), _ => Some(rng.below(size as u64 + 3) as u32) }
}

pub fn gen_text(rng: &mut Rng) -> String {
    if rng.chance(1, 3) { (0..1 + rng.below(6)).map(|_| char::from_u32(33 + rng.below(94) as u32).unwrap()).collect() }
    else { TEXTS[rng.below(TEXTS.len() as u64) as usize].to_string() }
}
pub fn gen_sgr(rng: &mut Rng) -> Vec<u32> {
    let v = [0u32, 0, 0, 0, 7, 27, 1, 3, 4, 5, 7, 9, 22, 23, 24, 25, 27, 29, 30, 31, 37, 39, 40, 41, 47, 49, 38, 48, 5, 2, 196, 255, 256, 300, 90, 95, 97, 100, 105, 107, 15, 16, 231, 232, 8, 21, 26, 50, 98, 108, 9999];
    let n = rng.below(7); (0..n).map(|_| *rng.pick(&v)).collect()
}
pub fn gen_modes(rng: &mut Rng) -> (Vec<u32>, bool) {
    let private = rng.chance(1, 2);
    let pm = [3u32, 5, 6, 7, 25, 1, 4, 20, 12, 1049, 9999, 0];
    let am = [4u32, 20, 96, 160, 192, 224, 800, 3, 5, 6, 7, 25, 1, 0, 9999, 640];
    let n = 1 + rng.below(3);
    ((0..n).map(|_| if private { *rng.pick(&pm) } else { *rng.pick(&am) }).collect(), private)
}

/// A random operation suited to the screen's size (arguments absent or 0..=9999).
pub fn gen_op(rng: &mut Rng, s: &Screen) -> Op {
    let (c, l) = (s.columns, s.lines);
    match rng.below(60) {
        0..=9 => Op::Draw(gen_text(rng)),
        10 => Op::Ich(arg(rng, c)), 11 => Op::Dch(arg(rng, c)), 12 => Op::Ech(arg(rng, c)),
        13 => Op::Il(arg(rng, l)), 14 => Op::Dl(arg(rng, l)),
        15 => Op::Cuu(arg(rng, l)), 16 => Op::Cud(arg(rng, l)), 17 => Op::Cuf(arg(rng, c)), 18 => Op::Cub(arg(rng, c)),
        19 => Op::Cnl(arg(rng, l)), 20 => Op::Cpl(arg(rng, l)), 21 => Op::Cha(arg(rng, c)), 22 => Op::Vpa(arg(rng, l)),
        23 | 24 => Op::Cup(arg(rng, l), arg(rng, c)),
        25 => Op::Ed(*rng.pick(&[None, Some(0), Some(1), Some(2), Some(3), Some(4), Some(9999)])),
        26 => Op::El(*rng.pick(&[None, Some(0), Some(1), Some(2), Some(3), Some(9999)])),
        27 | 28 => Op::Index, 29 | 30 => Op::Linefeed, 31 | 32 => Op::RevIndex,
        33 => Op::Tab, 34 => Op::SetTab, 35 => Op::Tbc(*rng.pick(&[None, Some(0), Some(3), Some(1), Some(2)])),
        36 => Op::Save, 37 => Op::Restore, 38 => Op::ShiftOut, 39 => Op::ShiftIn,
        40 => Op::DefCharset(rng.pick(&["B", "0", "U", "V", "X", "", "B0"]).to_string(), rng.pick(&["(", ")", "*", ""]).to_string()),
        41 => Op::Backspace, 42 => Op::CR, 43 => Op::Bell,
        44 | 45 => Op::Sgr(gen_sgr(rng)),
        46 | 47 => { let (m, p) = gen_modes(rng); Op::Sm(m, p) }
        48 | 49 => { let (m, p) = gen_modes(rng); Op::Rm(m, p) }
        50 => Op::Margins(arg(rng, l), arg(rng, l)),
        51 => Op::Margins(Some(1 + rng.below(l as u64) as u32), Some(1 + rng.below(l as u64) as u32)),
        52 => Op::Resize(Some(1 + rng.below(l as u64 + 2) as u32), Some(1 + rng.below(c as u64 + 2) as u32)),
        53 => Op::Display,
        54 => Op::Align,
        55 => if rng.chance(1, 4) { Op::Reset } else { Op::Display },
        56 => Op::Title(gen_text(rng)), 57 => Op::Icon(gen_text(rng)),
        58 => Op::Da(arg(rng, 2), *rng.pick(&[None, Some(true), Some(false)])),
        _ => Op::Draw(gen_text(rng)),
    }
}

pub fn all_margins(lines: u32) -> Vec<Option<(u32, u32)>> {
    let mut v = vec![None];
    for t in 0..lines { for b in t + 1..lines { v.push(Some((t, b))); } }
    v
}
pub fn random_spec(rng: &mut Rng, cols: u32, lines: u32) -> Spec {
    let ms = all_margins(lines);
    Spec {
        cols, lines, fill: rng.below(4) as u8, materialise: rng.chance(1, 4), awm_off: rng.chance(1, 4), irm: rng.chance(1, 5),
        lnm: rng.chance(1, 5), scnm: rng.chance(1, 5), tcem_off: rng.chance(1, 8), charset: if rng.chance(1, 3) { 1 + rng.below(3) as u8 } else { 0 },
        saves: if rng.chance(1, 3) { 1 + rng.below(3) as u8 } else { 0 }, margins: *rng.pick(&ms), decom: rng.chance(1, 3), sgr: rng.below(SGRS.len() as u64) as usize,
        cur: (rng.below(cols as u64 + 1) as u32, rng.below(lines as u64) as u32), clear_dirty: rng.chance(3, 4), tabs: if rng.chance(1, 4) { 1 + rng.below(2) as u8 } else { 0 },
        walk: if rng.chance(1, 3) { rng.below(7) as u8 } else { 0 },
    }
}
#[allow(dead_code)]
pub fn unused() { let _ = (DECAWM, DECCOLM, DECSCNM, DECTCEM, fork); }

/// One token of the recogniser's grammar: mostly well-formed, sometimes aborted / skipped / truncated.
pub fn gen_token(rng: &mut Rng) -> String {
    let num = |r: &mut Rng| -> String { match r.below(8) { 0 => String::new(), 1 => "0".into(), 2 => "00005".into(), 3 => format!("{}", r.below(10000)), 4 => "99999999999999999999999".into(), 5 => (*r.pick(&["4294967296", "4294967297", "4294967301", "4294967295", "8589934594", "2147483648", "65536", "65537", "256", "18446744073709551615", "18446744073709551616", "18446744073709551617", "36893488147419103233", "00004294967298"])).to_string(), _ => format!("{}", r.below(30)) } };
    let params = |r: &mut Rng| -> String { let n = r.below(4); let mut t = String::new(); for i in 0..n { if i > 0 { t.push(';'); } t.push_str(&num(r)); } if r.chance(1, 8) { t.push(';'); } t };
    let intro = |r: &mut Rng| -> &'static str { if r.chance(3, 4) { "\u{1b}[" } else { "\u{9b}" } };
    let finals = ['@', 'A', 'B', 'C', 'D', 'E', 'F', 'G', 'H', 'J', 'K', 'L', 'M', 'P', 'X', 'a', 'c', 'd', 'e', 'f', 'g', 'h', 'l', 'm', 'r', 'h', 'l', 'm', 'H', 'z', 'p', 'q', 'n'];
    match rng.below(18) {
        0..=2 => { let n = 1 + rng.below(3); (0..n).map(|_| *rng.pick(&['a', 'Z', '~', ' ', '\u{e9}', '\u{3042}', '\u{301}', '0', ';', '[', ']', '\u{11b}', '\u{107}', '\u{19b}', '\u{10a}', '\u{13b}', '\u{418}', '\u{100}'])).collect() }
        3 => rng.pick(&["\u{7}", "\u{8}", "\t", "\n", "\u{b}", "\u{c}", "\r", "\u{e}", "\u{f}", "\r\n"]).to_string(),
        4 => format!("\u{1b}{}", rng.pick(&['c', 'D', 'E', 'M', 'H', '7', '8', '=', '>', 'Z', '\\', 'x', '\r', '\u{7}'])),
        5 => format!("\u{1b}#{}", rng.pick(&['8', '3', 'x', '\n'])),
        6 => format!("\u{1b}%{}", rng.pick(&['G', '@', '8', '\r'])),
        7 => format!("\u{1b}{}{}", rng.pick(&['(', ')']), rng.pick(&['0', 'B', 'U', 'V', 'A', 'x', '\n'])),
        8..=11 => { let q = if rng.chance(1, 3) { "?" } else { "" }; let mid = if rng.chance(1, 6) { *rng.pick(&["\u{8}", "\n", " ", ">", "\r", "\u{7}"]) } else { "" };
            // now and then the final is a non-ASCII character that merely looks like a digit / letter (it ends the sequence like any unknown final)
            let fin: char = if rng.chance(1, 12) { *rng.pick(&['\u{ff12}', '\u{b2}', '\u{b9}', '\u{bd}', '\u{663}', '\u{2160}', '\u{ff28}', '\u{e9}', '\u{3042}']) } else { *rng.pick(&finals) };
            format!("{}{}{}{}{}", intro(rng), q, params(rng), mid, fin) }
        12 => { let q = if rng.chance(1, 2) { "?" } else { "" }; format!("{}{}{}{}", intro(rng), q, params(rng), rng.pick(&['\u{18}', '\u{1a}'])) }
        13 => { let q = if rng.chance(1, 2) { "?" } else { "" }; format!("{}{}{}${}", intro(rng), q, params(rng), rng.pick(&['p', 'x', 'm', 'h', '\r'])) }
        14 | 15 => { let pl: String = (0..rng.below(5)).map(|_| *rng.pick(&["a", ";", "\\", " ", "\u{e9}", "\u{3042}", "\u{1b}x", "\r\n", "\n", "0"])).collect();
            format!("{}{}{}{}{}", rng.pick(&["\u{1b}]", "\u{9d}"]), rng.pick(&["0", "1", "2", "4", "R", "P1234567", "l", "\u{430}", "\u{132}", "\u{ff11}"]), rng.pick(&[";", ";", ""]), pl, rng.pick(&["\u{7}", "\u{9c}", "\u{1b}\\"])) }
        16 => rng.pick(&["\u{1b}", "\u{1b}[", "\u{1b}[1;", "\u{1b}[?", "\u{1b}]0;ab", "\u{1b}(", "\u{1b}#", "\u{9b}12", "\u{1b}]"]).to_string(),
        _ => { let (m, p) = gen_modes(rng); format!("{}{}{}{}", intro(rng), if p { "?" } else { "" }, m.iter().map(|x| x.to_string()).collect::<Vec<_>>().join(";"), if rng.chance(1, 2) { 'h' } else { 'l' }) }
    }
}
pub fn gen_token_stream(rng: &mut Rng, n: usize) -> String { let mut s = String::new(); for _ in 0..n { s.push_str(&gen_token(rng)); } s }
