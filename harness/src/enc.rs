//! Integer-stream encoding of screens and operations (must match driver/driver.ml).
use std::collections::BTreeSet;
use std::fmt::Write as _;

use memterm::charset::{IBMPC_MAP, LAT1_MAP, VAX42_MAP, VT100_MAP};
use memterm::parser_listener::ParserListener;
use memterm::screen::{CharOpts, Charset, Cursor, Savepoint, Screen};

pub struct Out {
    pub buf: String,
}
impl Out {
    pub fn new() -> Self { Out { buf: String::with_capacity(1 << 20) } }
    #[inline] pub fn i(&mut self, v: i64) { let _ = write!(self.buf, "{} ", v); }
    #[inline] pub fn u(&mut self, v: u32) { let _ = write!(self.buf, "{} ", v); }
    pub fn nl(&mut self) { self.buf.push('\n'); }
    pub fn s(&mut self, s: &str) { self.u(s.chars().count() as u32); for c in s.chars() { self.u(c as u32); } }
    pub fn opt(&mut self, v: Option<u32>) { match v { Some(x) => self.u(x), None => self.i(-1) } }
    pub fn list(&mut self, v: &[u32]) { self.u(v.len() as u32); for x in v { self.u(*x); } }
    pub fn bytes(&mut self, v: &[u8]) { self.u(v.len() as u32); for x in v { self.u(*x as u32); } }
}

pub fn csid(t: &[char; 256]) -> u32 {
    if *t == LAT1_MAP { 0 } else if *t == VT100_MAP { 1 } else if *t == IBMPC_MAP { 2 } else if *t == VAX42_MAP { 3 } else { 9 }
}
pub fn enc_cell(o: &mut Out, c: &CharOpts) {
    o.s(&c.data); o.s(&c.fg); o.s(&c.bg);
    let fl = (c.bold as u32) | (c.italics as u32) << 1 | (c.underscore as u32) << 2 | (c.strikethrough as u32) << 3
        | (c.reverse as u32) << 4 | (c.blink as u32) << 5;
    o.u(fl);
}
pub fn enc_cursor(o: &mut Out, c: &Cursor) { o.u(c.x); o.u(c.y); o.u(c.hidden as u32); enc_cell(o, &c.attr); }
pub fn enc_state(o: &mut Out, s: &Screen) {
    o.u(s.columns); o.u(s.lines);
    enc_cursor(o, &s.cursor);
    match s.margins { None => o.u(0), Some(m) => { o.u(1); o.u(m.top); o.u(m.bottom); } }
    // written against `iter()` only, so that the container types of these fields may change
    fn set_of<'a, I: Iterator<Item = &'a u32>>(o: &mut Out, it: I) { let v: BTreeSet<u32> = it.cloned().collect(); o.u(v.len() as u32); for x in v { o.u(x); } }
    set_of(o, s.mode.iter()); set_of(o, s.tabstops.iter()); set_of(o, s.dirty.iter());
    o.u(if s.charset == Charset::G0 { 0 } else { 1 }); o.u(csid(&s.g0_charset)); o.u(csid(&s.g1_charset));
    o.s(&s.title); o.s(&s.icon_name);
    o.opt(s.saved_columns);
    o.u(s.savepoints.len() as u32);
    for p in s.savepoints.iter().rev() {
        enc_cursor(o, &p.cursor); o.u(csid(&p.g0_charset)); o.u(csid(&p.g1_charset));
        o.u(if p.charset == Charset::G0 { 0 } else { 1 }); o.u(p.origin as u32); o.u(p.wrap as u32);
    }
    let mut rows: Vec<&u32> = s.buffer.keys().collect(); rows.sort();
    o.u(rows.len() as u32);
    for r in rows {
        let line = &s.buffer[r];
        let mut cols: Vec<&u32> = line.keys().collect(); cols.sort();
        o.u(*r); o.u(cols.len() as u32);
        for c in cols { o.u(*c); enc_cell(o, &line[c]); }
    }
}

/// A reached state is forked with the `Clone` derived under cfg(memterm_verif) (the hook in /repo), so that the harness keeps
/// compiling — and keeps copying everything — when `Screen` gains a field.
pub fn fork(s: &Screen) -> Screen { s.clone() }

/// Operations of the public surface (same numbering as the driver's rd_op).
#[derive(Clone, Debug, PartialEq)]
pub enum Op {
    Align, DefCharset(String, String), Reset, Index, Linefeed, RevIndex, SetTab, Save, Restore, ShiftOut, ShiftIn,
    Bell, Backspace, Tab, CR, Draw(String),
    Ich(Option<u32>), Cuu(Option<u32>), Cud(Option<u32>), Cuf(Option<u32>), Cub(Option<u32>), Cnl(Option<u32>), Cpl(Option<u32>),
    Cha(Option<u32>), Cup(Option<u32>, Option<u32>), Ed(Option<u32>), El(Option<u32>), Il(Option<u32>), Dl(Option<u32>),
    Dch(Option<u32>), Ech(Option<u32>), Da(Option<u32>, Option<bool>), Vpa(Option<u32>), Tbc(Option<u32>),
    Sm(Vec<u32>, bool), Rm(Vec<u32>, bool), Sgr(Vec<u32>), Title(String), Icon(String), Margins(Option<u32>, Option<u32>),
    Resize(Option<u32>, Option<u32>), Display,
}
impl Op {
    pub fn apply(&self, s: &mut Screen) {
        match self {
            Op::Align => s.alignment_display(), Op::DefCharset(c, m) => s.define_charset(c, m), Op::Reset => s.reset(),
            Op::Index => s.index(), Op::Linefeed => s.linefeed(), Op::RevIndex => s.reverse_index(), Op::SetTab => s.set_tab_stop(),
            Op::Save => s.save_cursor(), Op::Restore => s.restore_cursor(), Op::ShiftOut => s.shift_out(), Op::ShiftIn => s.shift_in(),
            Op::Bell => s.bell(), Op::Backspace => s.backspace(), Op::Tab => s.tab(), Op::CR => s.cariage_return(),
            Op::Draw(t) => s.draw(t), Op::Ich(n) => s.insert_characters(*n), Op::Cuu(n) => s.cursor_up(*n), Op::Cud(n) => s.cursor_down(*n),
            Op::Cuf(n) => s.cursor_forward(*n), Op::Cub(n) => s.cursor_back(*n), Op::Cnl(n) => s.cursor_down1(*n), Op::Cpl(n) => s.cursor_up1(*n),
            Op::Cha(n) => s.cursor_to_column(*n), Op::Cup(l, c) => s.cursor_position(*l, *c), Op::Ed(h) => s.erase_in_display(*h, None),
            Op::El(h) => s.erase_in_line(*h, None), Op::Il(n) => s.insert_lines(*n), Op::Dl(n) => s.delete_lines(*n),
            Op::Dch(n) => s.delete_characters(*n), Op::Ech(n) => s.erase_characters(*n), Op::Da(m, p) => s.report_device_attributes(*m, *p),
            Op::Vpa(n) => s.cursor_to_line(*n), Op::Tbc(h) => s.clear_tab_stop(*h), Op::Sm(ms, p) => s.set_mode(ms, *p),
            Op::Rm(ms, p) => s.reset_mode(ms, *p), Op::Sgr(ps) => s.select_graphic_rendition(ps), Op::Title(t) => s.set_title(t),
            Op::Icon(t) => s.set_icon_name(t), Op::Margins(t, b) => s.set_margins(*t, *b), Op::Resize(l, c) => s.resize(*l, *c),
            Op::Display => { s.display(); }
        }
    }
    pub fn enc(&self, o: &mut Out) {
        match self {
            Op::Align => o.u(0), Op::DefCharset(c, m) => { o.u(1); o.s(c); o.s(m); } Op::Reset => o.u(2), Op::Index => o.u(3),
            Op::Linefeed => o.u(4), Op::RevIndex => o.u(5), Op::SetTab => o.u(6), Op::Save => o.u(7), Op::Restore => o.u(8),
            Op::ShiftOut => o.u(9), Op::ShiftIn => o.u(10), Op::Bell => o.u(11), Op::Backspace => o.u(12), Op::Tab => o.u(13), Op::CR => o.u(14),
            Op::Draw(t) => { o.u(15); o.s(t); }
            Op::Ich(n) => { o.u(16); o.opt(*n); } Op::Cuu(n) => { o.u(17); o.opt(*n); } Op::Cud(n) => { o.u(18); o.opt(*n); }
            Op::Cuf(n) => { o.u(19); o.opt(*n); } Op::Cub(n) => { o.u(20); o.opt(*n); } Op::Cnl(n) => { o.u(21); o.opt(*n); }
            Op::Cpl(n) => { o.u(22); o.opt(*n); } Op::Cha(n) => { o.u(23); o.opt(*n); }
            Op::Cup(l, c) => { o.u(24); o.opt(*l); o.opt(*c); } Op::Ed(h) => { o.u(25); o.opt(*h); } Op::El(h) => { o.u(26); o.opt(*h); }
            Op::Il(n) => { o.u(27); o.opt(*n); } Op::Dl(n) => { o.u(28); o.opt(*n); } Op::Dch(n) => { o.u(29); o.opt(*n); }
            Op::Ech(n) => { o.u(30); o.opt(*n); }
            Op::Da(m, p) => { o.u(31); o.opt(*m); match p { None => o.i(-1), Some(b) => o.u(*b as u32) } }
            Op::Vpa(n) => { o.u(32); o.opt(*n); } Op::Tbc(h) => { o.u(33); o.opt(*h); }
            Op::Sm(ms, p) => { o.u(34); o.list(ms); o.u(*p as u32); } Op::Rm(ms, p) => { o.u(35); o.list(ms); o.u(*p as u32); }
            Op::Sgr(ps) => { o.u(36); o.list(ps); } Op::Title(t) => { o.u(37); o.s(t); } Op::Icon(t) => { o.u(38); o.s(t); }
            Op::Margins(t, b) => { o.u(39); o.opt(*t); o.opt(*b); } Op::Resize(l, c) => { o.u(40); o.opt(*l); o.opt(*c); }
            Op::Display => o.u(41),
        }
    }
    pub fn name(&self) -> &'static str {
        match self {
            Op::Align => "alignment_display", Op::DefCharset(..) => "define_charset", Op::Reset => "reset", Op::Index => "index",
            Op::Linefeed => "linefeed", Op::RevIndex => "reverse_index", Op::SetTab => "set_tab_stop", Op::Save => "save_cursor",
            Op::Restore => "restore_cursor", Op::ShiftOut => "shift_out", Op::ShiftIn => "shift_in", Op::Bell => "bell",
            Op::Backspace => "backspace", Op::Tab => "tab", Op::CR => "cariage_return", Op::Draw(_) => "draw", Op::Ich(_) => "insert_characters",
            Op::Cuu(_) => "cursor_up", Op::Cud(_) => "cursor_down", Op::Cuf(_) => "cursor_forward", Op::Cub(_) => "cursor_back",
            Op::Cnl(_) => "cursor_down1", Op::Cpl(_) => "cursor_up1", Op::Cha(_) => "cursor_to_column", Op::Cup(..) => "cursor_position",
            Op::Ed(_) => "erase_in_display", Op::El(_) => "erase_in_line", Op::Il(_) => "insert_lines", Op::Dl(_) => "delete_lines",
            Op::Dch(_) => "delete_characters", Op::Ech(_) => "erase_characters", Op::Da(..) => "report_device_attributes",
            Op::Vpa(_) => "cursor_to_line", Op::Tbc(_) => "clear_tab_stop", Op::Sm(..) => "set_mode", Op::Rm(..) => "reset_mode",
            Op::Sgr(_) => "select_graphic_rendition", Op::Title(_) => "set_title", Op::Icon(_) => "set_icon_name",
            Op::Margins(..) => "set_margins", Op::Resize(..) => "resize", Op::Display => "display",
        }
    }
}

/// Recording listener: sees exactly the trait-method calls the recogniser makes (after the default dispatch methods).
#[derive(Default)]
pub struct Recorder { pub ops: Vec<Op> }
impl ParserListener for Recorder {
    fn alignment_display(&mut self) { self.ops.push(Op::Align) }
    fn define_charset(&mut self, code: &str, mode: &str) { self.ops.push(Op::DefCharset(code.into(), mode.into())) }
    fn reset(&mut self) { self.ops.push(Op::Reset) }
    fn index(&mut self) { self.ops.push(Op::Index) }
    fn linefeed(&mut self) { self.ops.push(Op::Linefeed) }
    fn reverse_index(&mut self) { self.ops.push(Op::RevIndex) }
    fn set_tab_stop(&mut self) { self.ops.push(Op::SetTab) }
    fn save_cursor(&mut self) { self.ops.push(Op::Save) }
    fn restore_cursor(&mut self) { self.ops.push(Op::Restore) }
    fn shift_out(&mut self) { self.ops.push(Op::ShiftOut) }
    fn shift_in(&mut self) { self.ops.push(Op::ShiftIn) }
    fn bell(&mut self) { self.ops.push(Op::Bell) }
    fn backspace(&mut self) { self.ops.push(Op::Backspace) }
    fn tab(&mut self) { self.ops.push(Op::Tab) }
    fn cariage_return(&mut self) { self.ops.push(Op::CR) }
    fn draw(&mut self, input: &str) { self.ops.push(Op::Draw(input.into())) }
    fn insert_characters(&mut self, n: Option<u32>) { self.ops.push(Op::Ich(n)) }
    fn cursor_up(&mut self, n: Option<u32>) { self.ops.push(Op::Cuu(n)) }
    fn cursor_down(&mut self, n: Option<u32>) { self.ops.push(Op::Cud(n)) }
    fn cursor_forward(&mut self, n: Option<u32>) { self.ops.push(Op::Cuf(n)) }
    fn cursor_back(&mut self, n: Option<u32>) { self.ops.push(Op::Cub(n)) }
    fn cursor_down1(&mut self, n: Option<u32>) { self.ops.push(Op::Cnl(n)) }
    fn cursor_up1(&mut self, n: Option<u32>) { self.ops.push(Op::Cpl(n)) }
    fn cursor_to_column(&mut self, n: Option<u32>) { self.ops.push(Op::Cha(n)) }
    fn cursor_position(&mut self, l: Option<u32>, c: Option<u32>) { self.ops.push(Op::Cup(l, c)) }
    fn erase_in_display(&mut self, h: Option<u32>, _p: Option<bool>) { self.ops.push(Op::Ed(h)) }
    fn erase_in_line(&mut self, h: Option<u32>, _p: Option<bool>) { self.ops.push(Op::El(h)) }
    fn insert_lines(&mut self, n: Option<u32>) { self.ops.push(Op::Il(n)) }
    fn delete_lines(&mut self, n: Option<u32>) { self.ops.push(Op::Dl(n)) }
    fn delete_characters(&mut self, n: Option<u32>) { self.ops.push(Op::Dch(n)) }
    fn erase_characters(&mut self, n: Option<u32>) { self.ops.push(Op::Ech(n)) }
    fn report_device_attributes(&mut self, m: Option<u32>, p: Option<bool>) { self.ops.push(Op::Da(m, p)) }
    fn cursor_to_line(&mut self, n: Option<u32>) { self.ops.push(Op::Vpa(n)) }
    fn clear_tab_stop(&mut self, h: Option<u32>) { self.ops.push(Op::Tbc(h)) }
    fn set_mode(&mut self, ms: &[u32], p: bool) { self.ops.push(Op::Sm(ms.to_vec(), p)) }
    fn reset_mode(&mut self, ms: &[u32], p: bool) { self.ops.push(Op::Rm(ms.to_vec(), p)) }
    fn select_graphic_rendition(&mut self, ms: &[u32]) { self.ops.push(Op::Sgr(ms.to_vec())) }
    fn set_title(&mut self, t: &str) { self.ops.push(Op::Title(t.into())) }
    fn set_icon_name(&mut self, t: &str) { self.ops.push(Op::Icon(t.into())) }
    fn set_margins(&mut self, t: Option<u32>, b: Option<u32>) { self.ops.push(Op::Margins(t, b)) }
    fn display(&mut self) -> Vec<String> { Vec::new() }
}

/// Full observable snapshot for model-free implementation-vs-implementation comparisons.
pub fn snapshot(s: &Screen) -> String {
    let mut o = Out::new();
    // view, not raw buffer: absent cells read as default_char
    let d = s.default_char();
    o.u(s.columns); o.u(s.lines); enc_cursor(&mut o, &s.cursor);
    match s.margins { None => o.u(0), Some(m) => { o.u(1); o.u(m.top); o.u(m.bottom); } }
    for h in [&s.mode, &s.tabstops, &s.dirty] { let v: BTreeSet<u32> = h.iter().cloned().collect(); o.u(v.len() as u32); for x in v { o.u(x); } }
    o.u(if s.charset == Charset::G0 { 0 } else { 1 }); o.u(csid(&s.g0_charset)); o.u(csid(&s.g1_charset));
    o.s(&s.title); o.s(&s.icon_name); o.opt(s.saved_columns); o.u(s.savepoints.len() as u32);
    for p in s.savepoints.iter() { enc_cursor(&mut o, &p.cursor); o.u(csid(&p.g0_charset)); o.u(csid(&p.g1_charset)); o.u(p.origin as u32); o.u(p.wrap as u32); }
    for y in 0..s.lines { for x in 0..s.columns { enc_cell(&mut o, s.buffer.get(&y).and_then(|l| l.get(&x)).unwrap_or(&d)); } }
    o.buf
}
