#!/bin/sh
# run_all.sh [tier] [seed] — every check once on the current tree; one line per property
tier=${1:-quick}; seed=${2:-1}
cd /verif
for i in 01 02 03 04 05 06 07 08 09 10 11 12 13 14 15 16 17 18 19 20; do
  s=$(date +%s); out=$(./check C$i --tier $tier --seed $seed 2>&1); rc=$?
  echo "C$i rc=$rc $(($(date +%s)-s))s $(echo "$out" | grep -a 'VIOLATION\|KNOWN-FINDING\|^OK' | head -2 | tr '\n' ' ')"
done
