#!/usr/bin/env python3
"""sweep.py [seeds...] — every seeded change x every given seed through the quick check of its property; prints one line per
(change, seed) and a summary of the fragile ones (detected with some seeds only). Does not touch seeded/*/meta.json."""
import glob, os, subprocess, sys, json
V = "/verif"
seeds = [int(x) for x in sys.argv[1:]] or [1, 2, 3]
def sh(c, cwd=None, timeout=3000):
    p = subprocess.run(c, shell=True, cwd=cwd, stdout=subprocess.PIPE, stderr=subprocess.STDOUT, timeout=timeout, env=dict(os.environ, CARGO_NET_OFFLINE="true"))
    return p.returncode, p.stdout.decode("utf-8", "replace")
res = {}
for d in sorted(glob.glob(V + "/seeded/*/patch.diff")):
    name = os.path.basename(os.path.dirname(d)); prop = name.split("-")[0]
    if os.environ.get("SWEEP_ONLY") and not any(name.endswith(x) for x in os.environ["SWEEP_ONLY"].split(",")): continue
    rc, out = sh("git -C /repo status --porcelain --untracked-files=no")
    if out.strip(): print("/repo is not clean, abort"); break
    rc, out = sh("git -C /repo apply %s" % d)
    if rc != 0: print(name, "patch does not apply"); continue
    try:
        for sd in seeds:
            rc, out = sh("./check %s --tier quick --seed %d" % (prop, sd), cwd=V)
            line = next((l for l in out.splitlines() if l.startswith("VIOLATION") or l.startswith("OK ")), "?")
            res.setdefault(name, {})[sd] = (rc, "nfif" if "no-failing-input-found" in line else ("hit" if rc == 1 else "miss"))
            print(name, sd, res[name][sd][1]); sys.stdout.flush()
    finally:
        sh("git -C /repo checkout -- .")
json.dump(res, open(V + "/build/sweep.json", "w"), indent=1)
frag = {k: v for k, v in res.items() if any(x[1] != "hit" for x in v.values())}
print("fragile or missed:", json.dumps(frag))
