#!/usr/bin/env python3
"""set_level.py Cxx category 'text' ['note'] — update one check's claimed level in MANIFEST.json"""
import json, sys
m = json.load(open('/verif/MANIFEST.json'))
for c in m['checks']:
    if c['property_id'] == sys.argv[1]:
        c['level_claimed']['category'] = sys.argv[2]
        c['level_claimed']['text'] = sys.argv[3]
        if len(sys.argv) > 4: c['level_note'] = sys.argv[4]
        if len(sys.argv) > 5: c['technique'] = sys.argv[5]
json.dump(m, open('/verif/MANIFEST.json', 'w'), indent=1)
