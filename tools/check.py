#!/usr/bin/env python3
"""check.py — orchestration of one property check (see DESIGN.md section 4).

  ./check Cxx [--tier quick|thorough] [--seed N]      run the check, write evidence/Cxx.json
  ./check Cxx --replay build/replays/Cxx-....json     re-run one recorded case and show where it fails
  ./check --setup                                      build everything once (MANIFEST.setup_cmd)

Exit 0: property held on everything explored (KNOWN-FINDING lines for listed findings).
Exit 1: "VIOLATION property=<id> replay=<path>" (ends with no-failing-input-found when only a proof
obligation or the model/implementation correspondence broke and no concrete failing input was found).
"""
import json, os, re, subprocess, sys, time, hashlib, shutil, fcntl

V = os.path.dirname(os.path.dirname(os.path.abspath(__file__)))
B = os.path.join(V, "build")
COQ = os.path.join(V, "coq")
REPO = "/repo"
ENV = dict(os.environ, CARGO_NET_OFFLINE="true", CARGO_TARGET_DIR=os.path.join(B, "target"),
           RUSTFLAGS="--cfg memterm_verif")
PROPS = ["C%02d" % i for i in range(1, 21)]

# which regenerated-table lemmas each property's theorems rest on
TABLE_DEPS = {"C03": ["C03"], "C19": ["C19", "C03"], "C08": ["C08"], "C09": ["C08"], "C12": ["C12"],
              "C20": ["C20"], "C15": ["C12", "C08"], "C04": [], "C02": ["C03"], "C01": []}
# failure kinds (driver BAD / harness FAIL) that are failures of the property's own statement
# evaluated on the implementation; everything else found in the property's plan is a broken
# model/implementation correspondence
STATEMENT = {
    "C01": {"panic", "FAIL"}, "C02": {"FAIL", "panic"}, "C03": {"FAIL", "panic", "events"},
    "C04": {"spec", "panic", "events"}, "C05": {"spec", "panic", "events"}, "C06": {"spec", "panic", "events"}, "C07": {"spec", "panic", "events"},
    "C08": {"spec", "panic", "events"}, "C09": {"wf", "hidden", "panic", "FAIL"}, "C10": {"display", "display-impure", "panic", "FAIL"},
    "C11": {"FAIL", "panic", "events"}, "C12": {"spec", "dirty", "panic", "events"}, "C13": {"spec", "hidden", "panic", "events"}, "C14": {"spec", "panic", "events"},
    "C15": {"spec", "dirty", "panic", "FAIL", "events"}, "C16": {"spec", "dirty", "wf", "hidden", "panic"}, "C17": {"dirty", "panic"},
    "C18": {"spec", "panic", "events"}, "C19": {"FAIL", "panic", "events"}, "C20": {"spec", "panic", "FAIL", "events"},
}
TRUSTED = [
    "Coq 8.16.1 kernel incl. vm_compute (table equalities, finite sweeps); no native_compute",
    "axioms: none (Print Assumptions of every property theorem is checked to be 'Closed under the global context')",
    "extraction: ExtrOcamlBasic only (bool, option, unit, list, prod, sumbool, sumor -> OCaml; andb/orb inlined); N/positive/nat stay Coq datatypes; OCaml 4.13.1",
    "hand-written model coq/{Screen,Parser,Utf8,World}.v: faithfulness to src/screen.rs, parser.rs, parser_listener.rs, byte_parser.rs is CHECKED by the per-step correspondence run, not proved",
    "coq/Safe.v (which Rust additions/subtractions are checked, guarded or saturating): by inspection of src/screen.rs, CHECKED by comparing its panic predictions with the real crate on out-of-contract safety probes (C01)",
    "driver/driver.ml (parsing of dumps, injection of implementation states), harness/ (state dumper, recording listener), tools/check.py",
    "oracles: unicode-width, unicode-normalization values dumped from the real crates for the code points used; encoding_rs decoder modelled; generator coroutine modelled as explicit state",
    "rustc/cargo; debug build with overflow-checks and debug-assertions",
]


def sh(cmd, cwd=V, timeout=3600, env=None, stdout=subprocess.PIPE):
    try:
        p = subprocess.run(cmd, shell=isinstance(cmd, str), cwd=cwd, env=env or ENV, stdout=stdout,
                           stderr=subprocess.STDOUT, timeout=timeout)
        out = p.stdout.decode("utf-8", "replace") if p.stdout is not None else ""
        return p.returncode, out
    except subprocess.TimeoutExpired as e:
        out = e.stdout.decode("utf-8", "replace") if e.stdout else ""
        return 124, out + "\n[timeout after %ss]" % timeout


def build_harness():
    lock_src, lock_dst = os.path.join(REPO, "Cargo.lock"), os.path.join(V, "harness", "Cargo.lock")
    if not os.path.exists(lock_dst) and os.path.exists(lock_src):
        shutil.copy(lock_src, lock_dst)
    rc, out = sh("cargo build --offline 2>&1", cwd=os.path.join(V, "harness"), timeout=1500)
    return rc == 0, out


def gen_tables():
    os.makedirs(os.path.join(COQ, "Gen"), exist_ok=True)
    new = os.path.join(B, "run", "GenTables.v.new")
    os.makedirs(os.path.dirname(new), exist_ok=True)
    rc, out = sh([os.path.join(B, "target", "debug", "mtprobe"), "tables", "--out", new], stdout=subprocess.DEVNULL)
    if rc != 0 or not os.path.exists(new):
        return False
    dst = os.path.join(COQ, "Gen", "GenTables.v")
    if not os.path.exists(dst) or open(dst).read() != open(new).read():
        shutil.copy(new, dst)
    return True


def coq_make(targets, timeout=2400):
    if not os.path.exists(os.path.join(COQ, "Makefile")) or \
            os.path.getmtime(os.path.join(COQ, "Makefile")) < os.path.getmtime(os.path.join(COQ, "_CoqProject")):
        sh("coq_makefile -f _CoqProject -o Makefile", cwd=COQ)
    rc, out = sh("make -j16 %s 2>&1" % " ".join(targets), cwd=COQ, timeout=timeout)
    return rc == 0, out


def build_driver():
    ml = os.path.join(B, "ml")
    os.makedirs(ml, exist_ok=True)
    srcs = [os.path.join(COQ, "mt.ml"), os.path.join(COQ, "mt.mli"), os.path.join(V, "driver", "driver.ml")]
    drv = os.path.join(ml, "driver")
    if os.path.exists(drv) and all(os.path.getmtime(s) <= os.path.getmtime(drv) for s in srcs):
        return True, ""
    for s in srcs:
        shutil.copy(s, ml)
    rc, out = sh("ocamlfind ocamlopt -O2 -w -a mt.mli mt.ml driver.ml -o driver 2>&1", cwd=ml, timeout=600)
    return rc == 0, out


def audit():
    """no Admitted/admit/Axiom/Parameter/Conjecture, no switched-off checks anywhere in coq/"""
    bad = []
    for root, _, files in os.walk(COQ):
        for f in files:
            if not f.endswith(".v"):
                continue
            txt = open(os.path.join(root, f)).read()
            txt = re.sub(r"\(\*.*?\*\)", "", txt, flags=re.S)
            for m in re.finditer(r"\b(Admitted|admit|Axiom|Axioms|Parameter|Parameters|Conjecture|Admit Obligations|bypass_check|type-in-type|impredicative-set)\b|Unset\s+(Guard|Positivity|Universe)", txt):
                bad.append("%s: %s" % (f, m.group(0)))
            if re.search(r"^\s*(Variable|Variables|Hypothesis|Hypotheses|Context)\b", txt, flags=re.M) and "Section" not in txt:
                bad.append("%s: Variable/Hypothesis outside a section" % f)
    return bad


def theorems_of(prop):
    path = os.path.join(COQ, "Properties", prop + ".v")
    if not os.path.exists(path):
        return [], path
    txt = re.sub(r"\(\*.*?\*\)", "", open(path).read(), flags=re.S)
    return re.findall(r"^\s*(?:Theorem|Lemma|Corollary|Example)\s+(\w+)", txt, flags=re.M), path


def print_assumptions(prop):
    """recompile Properties/Cxx.v alone to capture its Print Assumptions output"""
    names, path = theorems_of(prop)
    if not names:
        return True, [], ""
    rc, out = sh("coqc -Q . MT -w -notation-overridden Properties/%s.v 2>&1" % prop, cwd=COQ, timeout=900)
    if rc != 0:
        return False, [], out
    axioms = []
    # every Print Assumptions answer is either "Closed under the global context" or "Axioms:\n name : type"
    for blk in re.split(r"\n(?=Closed under|Axioms:)", out):
        if blk.startswith("Axioms:"):
            axioms += re.findall(r"^\s*([\w.']+)\s*:", blk[7:], flags=re.M)
    return True, axioms, out


def load_known(prop):
    known = []
    p = os.path.join(V, "known_findings.txt")
    if os.path.exists(p):
        for line in open(p):
            m = re.match(r"known:\s+property=(\w+)\s+key=(\S+)\s+(.*)", line.strip())
            if m and m.group(1) == prop:
                known.append((m.group(2), m.group(3)))
    return known


SAFETY_ALL = False


def site_diff():
    """panic-site inventory of the current src/screen.rs against the one coq/Safe.v was written for (informational; see tools/sites.py)"""
    try:
        sys.path.insert(0, os.path.join(V, "tools"))
        import sites
        cur = sites.inventory("/repo/src/screen.rs")
        base = [l.rstrip("\n") for l in open(os.path.join(V, "tools", "safe_sites.txt"))]
        from collections import Counter
        a, b = Counter(cur), Counter(base)
        return {"count": len(cur), "added": sorted((a - b).elements())[:40], "removed": sorted((b - a).elements())[:40]}
    except Exception as e:     # the inventory is a search hint, never a verdict
        return {"count": 0, "added": [], "removed": [], "error": str(e)[:200]}


def run_plan(prop, tier, seed, only=None, timeout=None):
    run = os.path.join(B, "run")
    os.makedirs(run, exist_ok=True)
    stream = os.path.join(run, "%s.stream" % prop)
    report = os.path.join(run, "%s.report" % prop)
    for f in (stream, report, report + ".progress", report + ".hang"):
        if os.path.exists(f):
            os.remove(f)
    cmd = [os.path.join(B, "target", "debug", "mtprobe"), prop, "--seed", str(seed), "--tier", tier,
           "--out", stream, "--report", report]
    if only is not None:
        cmd += ["--only", str(only)]
    t = timeout or (3000 if tier == "thorough" else 900)
    rc, _ = sh(cmd, stdout=subprocess.DEVNULL, timeout=t, env=dict(ENV, MT_SAFETY_ALL="1") if SAFETY_ALL else None)
    fails, hstats, samples, done = [], {}, [], False
    if os.path.exists(report):
        for line in open(report, errors="replace"):
            line = line.rstrip("\n")
            if line.startswith("FAIL "):
                fails.append(line)
            elif line.startswith("HSTAT "):
                _, k, v = line.split(" ", 2)
                hstats[k] = int(v)
            elif line.startswith("SAMPLE "):
                samples.append(line[7:])
            elif line.startswith("DONE"):
                done = True
    if os.path.exists(report + ".hang"):
        fails += [l.rstrip("\n") for l in open(report + ".hang", errors="replace") if l.startswith("FAIL ")]
    progress = None
    if os.path.exists(report + ".progress"):
        ls = open(report + ".progress").read().split()
        progress = int(ls[-1]) if ls else 0
    bads, dstats, drc = [], {}, 0
    if os.path.exists(stream):
        drc, out = sh([os.path.join(B, "ml", "driver"), stream], timeout=t)
        for line in out.splitlines():
            if line.startswith("BAD "):
                bads.append(line)
            elif line.startswith("STAT "):
                _, k, v = line.split(" ", 2)
                try:
                    dstats[k] = int(v)
                except ValueError:
                    pass
        if drc != 0 and not done:
            drc = 0  # truncated stream of a harness that died: the harness verdict below covers it
        elif drc != 0:
            bads.append("BAD 0 0 driver driver failed: " + out[-400:].replace("\n", " "))
        if only is None and os.path.getsize(stream) > (64 << 20):
            os.remove(stream)
    return dict(rc=rc, done=done, fails=fails, hstats=hstats, samples=samples, progress=progress, bads=bads, dstats=dstats)


def kind_of(line):
    if line.startswith("FAIL "):
        return "FAIL"
    return line.split(" ", 4)[3]


def write_replay(prop, tier, seed, items, note):
    d = os.path.join(B, "replays")
    os.makedirs(d, exist_ok=True)
    path = os.path.join(d, "%s-%s-%d.json" % (prop, tier, seed))
    ids = []
    for it in items:
        m = re.match(r"BAD \d+ (\d+) ", it) or re.search(r"\bid=(\d+)", it)
        if m:
            ids.append(int(m.group(1)))
    json.dump({"property": prop, "tier": tier, "seed": seed, "case_ids": ids[:20], "note": note,
               "failures": [x[:4000] for x in items[:20]],
               "how": "./check %s --replay %s  (re-runs the listed cases: mtprobe %s --seed %d --tier %s --only <id> | driver)" % (prop, path, prop, seed, tier)},
              open(path, "w"), indent=1)
    return path


def evidence(prop, tier, seed, t0, cov, violations, assumptions):
    os.makedirs(os.path.join(V, "evidence"), exist_ok=True)
    level = "other"
    try:
        for c in json.load(open(os.path.join(V, "MANIFEST.json")))["checks"]:
            if c["property_id"] == prop:
                level = c["level_claimed"]["category"]
    except Exception:
        pass
    cov.setdefault("explanation", "partial: model-level theorems in coq/Properties/%s.v (closed under the global context), among them the absence of failing checked arithmetic (coq/Safe.v, whose panic predictions are compared with the real crate by the safety probes counted below) + exploration of the real implementation (overflow-checked build, watchdog) — unwrap/expect/index sites, coroutine, mutex, decoder library and loop termination are explored, not proved" % prop if level == "other" else "property theorems in coq/Properties/%s.v (closed under the global context), plus table lemmas, statement oracle and correspondence" % prop)
    ev = {"property_id": prop, "tier": tier, "seed": seed, "level": level, "coverage": cov,
          "assumptions": assumptions, "wall_s": round(time.time() - t0, 2), "violations": violations}
    json.dump(ev, open(os.path.join(V, "evidence", prop + ".json"), "w"), indent=1)


def setup():
    ok, out = build_harness()
    if not ok:
        print(out[-3000:]); return 1
    gen_tables()
    ok, out = coq_make([])
    if not ok:
        print(out[-3000:]); return 1
    ok, out = build_driver()
    if not ok:
        print(out[-3000:]); return 1
    print("setup ok")
    return 0


def main():
    args = sys.argv[1:]
    if args and args[0] == "--setup":
        sys.exit(setup())
    prop = args[0]
    tier = os.environ.get("VERIF_TIER", "quick")
    seed = int(os.environ.get("VERIF_SEED", "1") or 1)
    replay = None
    i = 1
    while i < len(args):
        if args[i] == "--tier": tier = args[i + 1]; i += 1
        elif args[i] == "--seed": seed = int(args[i + 1]); i += 1
        elif args[i] == "--replay": replay = args[i + 1]; i += 1
        i += 1
    assert prop in PROPS and tier in ("quick", "thorough")
    t0 = time.time()
    broken = []      # broken proof obligations / correspondence infrastructure (no concrete input yet)

    # the build phase (cargo target dir, coq/Gen, make in coq/, driver) is shared between checks: serialise it
    os.makedirs(B, exist_ok=True)
    build_lock = open(os.path.join(B, ".build.lock"), "w")
    fcntl.flock(build_lock, fcntl.LOCK_EX)
    ok, out = build_harness()
    if not ok:
        # rule 6, third bullet: the harness no longer compiles against the tree = broken correspondence
        os.makedirs(os.path.join(B, "replays"), exist_ok=True)
        path = os.path.join(B, "replays", "%s-harness-build.txt" % prop)
        open(path, "w").write("correspondence harness does not compile against /repo's working tree\n" + out[-6000:])
        evidence(prop, tier, seed, t0, {"obligations": 1, "discharged": 0, "checker_cmd": "cargo build --offline (harness)", "trusted_base": TRUSTED,
                                         "evaluations": 0, "distinct_nontrivial": 0, "rule": "harness build failed", "samples": ["harness build failure"]}, 1, [])
        print("VIOLATION property=%s replay=%s no-failing-input-found" % (prop, path))
        sys.exit(1)
    gen_tables()
    names, ppath = theorems_of(prop)
    targets = ["Extract.vo"] + ["TablesOk_%s.vo" % t for t in TABLE_DEPS.get(prop, [])]
    if names:
        targets.append("Properties/%s.vo" % prop)
    ok, mout = coq_make(["-k"] + targets)
    if not ok:
        failed = re.findall(r"\*\*\* \[[^\]]*?: ([\w/]+)\.vo\] Error", mout)
        errs = re.findall(r'File "\./([\w/]+\.v)", line (\d+)', mout)
        broken.append("proof obligation no longer checks: coq targets %s failed (%s)" % (sorted(set(failed)), errs[:3]))
        # the model itself must still extract for the search below
        ok2, _ = coq_make(["Extract.vo"])
        if not ok2:
            broken.append("the Coq model itself no longer compiles")
    okd, dout = build_driver()
    if not okd:
        broken.append("driver build failed: " + dout[-500:])
    aud = audit()
    if aud:
        broken.append("audit: " + "; ".join(aud[:5]))
    pa_ok, axioms, pa_out = print_assumptions(prop) if ok else (True, [], "")
    if not pa_ok:
        broken.append("Properties/%s.v does not compile: %s" % (prop, pa_out[-300:]))
    if axioms:
        broken.append("Print Assumptions reports axioms: %s" % axioms)
    chk_note = "not run in the quick tier"
    if tier == "thorough" and ok and names and not replay:
        # independent re-check of the compiled property file and everything it depends on
        rc_c, out_c = sh("coqchk -silent -o -Q . MT MT.Properties.%s 2>&1" % prop, cwd=COQ, timeout=1800)
        m_ax = re.search(r"\* Axioms:\s*(.*?)\n\s*\n", out_c + "\n\n", flags=re.S)
        ax_txt = (m_ax.group(1).strip() if m_ax else "?")
        chk_note = "coqchk -o: rc=%s Axioms: %s" % (rc_c, ax_txt[:200])
        if rc_c != 0 or ax_txt != "<none>" or "type-in-type: <none>" not in out_c or "positivity is assumed: <none>" not in out_c:
            broken.append("coqchk does not accept Properties/%s.vo cleanly: %s" % (prop, out_c[-600:]))

    fcntl.flock(build_lock, fcntl.LOCK_UN)

    sd = None
    if prop == "C01":
        # a changed inventory of arithmetic / unwrap / index sites is not a verdict; it widens the search (all safety probes)
        global SAFETY_ALL
        sd = site_diff()
        SAFETY_ALL = bool(sd["added"] or sd["removed"])

    if replay:
        rp = json.load(open(replay))
        for cid in rp.get("case_ids", [])[:10] or [None]:
            r = run_plan(prop, rp.get("tier", tier), rp.get("seed", seed), only=cid)
            print("case", cid, "->", len(r["bads"]) + len(r["fails"]), "failure(s)")
            for x in r["bads"] + r["fails"]:
                print(x[:3000])
        sys.exit(0)

    r = run_plan(prop, tier, seed)
    items = r["bads"] + r["fails"]
    if not r["done"] and not any("did not return within" in x for x in r["fails"]):
        # the child process died (abort, stack overflow, kill) or hung: an input on which processing does not return
        items.append("FAIL %s id=%s implementation process %s while running the plan (last progress marker: case %s)"
                     % (prop if prop != "C01" else "C01", r["progress"], "timed out" if r["rc"] == 124 else "died with status %s" % r["rc"], r["progress"]))
    # the driver must have consumed every record the harness emitted (a silently skipped record would hide a failure)
    if r["done"] and r["dstats"]:
        hh, dd = r["hstats"], r["dstats"]
        for hk, dk in (("probes", "probes"), ("event_histories", "event_histories"), ("state_histories", "state_histories"), ("display_probes", "display_probes"), ("init_checks", "init_checks"), ("safety_probes", "safety_probes")):
            want = hh.get(hk, 0) + (hh.get("probes_via_parser", 0) if hk == "probes" else 0)
            if dk in dd and dd.get(dk, 0) != want:
                broken.append("driver processed %d %s records, the harness emitted %d" % (dd.get(dk, 0), dk, want))
    stmt_kinds = STATEMENT[prop]
    def is_stmt(x):
        if x.startswith("FAIL "):
            return x.split()[1] in (prop, "C01")      # a panic (C01) is a failure of whatever was being done
        return kind_of(x) in stmt_kinds
    stmt = [x for x in items if is_stmt(x)]
    other = [x for x in items if x not in stmt]
    known = load_known(prop)
    known_hits, new_stmt = [], []
    for x in stmt:
        k = next((kk for kk in known if kk[0] in x), None)
        (known_hits if k else new_stmt).append((x, k))
    ev_theorems = names
    d = r["dstats"]; h = r["hstats"]
    evaluations = sum(h.get(k, 0) for k in ("probes", "probes_via_parser", "display_probes", "event_histories", "state_histories", "init_checks", "safety_probes",
                                           "purity_pairs", "ris_pairs", "chunkings", "decode_runs", "osc_cases", "byte_cases", "api_cases", "big_cases", "osc_byte_cases", "exhaustive_short_streams"))
    distinct = d.get("distinct_nontrivial", 0) + sum(h.get(k, 0) for k in ("streams", "byte_strings", "osc_cases", "purity_pairs", "ris_pairs", "byte_cases", "api_cases")) \
        + d.get("event_histories", 0) + d.get("state_histories", 0)
    obligations = len(names) + len(TABLE_DEPS.get(prop, []))
    discharged = obligations if ok and pa_ok and not axioms and not aud else 0
    cov = {
        "obligations": max(obligations, 1), "discharged": discharged if obligations else (1 if ok else 0),
        "checker_cmd": "make -C coq -j16 %s && coqc Properties/%s.v (Print Assumptions) && grep audit" % (" ".join(targets), prop),
        "trusted_base": TRUSTED,
        "theorems_in_property_file": len(names),
        "theorems": ev_theorems + ["tables_ok_%s" % t for t in TABLE_DEPS.get(prop, [])],
        "print_assumptions": "Closed under the global context" if not axioms else axioms,
        "coqchk": chk_note,
        "evaluations": evaluations, "distinct_nontrivial": distinct,
        "rule": "local probes: (implementation pre-state, operation) pairs from systematically built reachable states; distinct = distinct hash of (pre-state, op); non-trivial = observable post-state differs from pre-state. histories/streams: each generated input counted once.",
        "samples": r["samples"][:10] or ["(no sample recorded)"],
        "harness_counts": h, "driver_counts": {k: v for k, v in d.items()},
        "correspondence_failures": len([x for x in other if kind_of(x) in ("model", "events", "final", "hidden", "driver")]),
        "statement_failures": len(stmt), "broken_obligations": broken,
        "exhaustive": False,
    }
    if sd is not None:
        cov["panic_site_inventory"] = dict(sd, note="sites of src/screen.rs that can panic (tools/sites.py) vs. the inventory coq/Safe.v was written for; a difference widens the safety-probe search, it is not a verdict")
    assumptions = ["model faithfulness is checked by differential correspondence (not proved)",
                   "unicode-width / unicode-normalization / encoding_rs behave as dumped for the code points used"]
    rcode = 0
    if new_stmt:
        path = write_replay(prop, tier, seed, [x for x, _ in new_stmt], "statement of %s fails on the implementation" % prop)
        evidence(prop, tier, seed, t0, cov, len(new_stmt), assumptions)
        print("first failure:", new_stmt[0][0][:1500])
        print("VIOLATION property=%s replay=%s" % (prop, path))
        sys.exit(1)
    for x, k in known_hits[:20]:
        print("KNOWN-FINDING: property=%s %s" % (prop, k[1]))
    corr = [x for x in other if kind_of(x) in ("model", "events", "final", "hidden", "driver", "spec", "dirty", "wf", "panic", "display", "display-impure", "safe")]
    if broken or corr:
        note = "; ".join(broken) if broken else "model/implementation correspondence broke in the plan of %s" % prop
        path = write_replay(prop, tier, seed, corr, note + " — no input found on which the statement of %s itself fails" % prop)
        evidence(prop, tier, seed, t0, cov, 1, assumptions)
        print("broken:", note[:1500])
        if corr:
            print("first diverging probe:", corr[0][:1500])
        print("VIOLATION property=%s replay=%s no-failing-input-found" % (prop, path))
        sys.exit(1)
    evidence(prop, tier, seed, t0, cov, 0, assumptions)
    print("OK %s tier=%s seed=%d: %d theorem(s) + %d table lemma(s) checked, %d evaluations, %d distinct non-trivial, %.1fs"
          % (prop, tier, seed, len(names), len(TABLE_DEPS.get(prop, [])), evaluations, distinct, time.time() - t0))
    sys.exit(rcode)


if __name__ == "__main__":
    main()
