#!/usr/bin/env python3
"""seeded_table.py — markdown table of the seeded changes and what the checks reported (from seeded/*/meta.json)."""
import json, glob, os, re
rows = []
for d in sorted(glob.glob('/verif/seeded/*/meta.json')):
    name = os.path.basename(os.path.dirname(d)); m = json.load(open(d))
    notes = m.get('needs', '')
    title = next((l for l in notes.splitlines() if l.strip()), '').lstrip('# ').strip()
    if not title or len(title) < 8: title = next((l for l in open(os.path.dirname(d) + '/patch.diff').read().splitlines() if l.startswith('+') and not l.startswith('+++') and l.strip('+ ').startswith('//')), '').strip('+ /')
    title = re.sub(r'^Mutant \d+\s*[—-]\s*', '', title)
    title = title.replace('|', '/')[:150]
    res = []
    for p, r in m.get('checks', {}).items():
        v = r.get('verdict', '')
        kind = 'VIOLATION (replay with failing input)' if v.startswith('VIOLATION') and 'no-failing-input-found' not in v else ('VIOLATION no-failing-input-found' if v.startswith('VIOLATION') else ('not detected' if r.get('exit') == 0 else v[:40]))
        first = r.get('first', '')
        kindtag = re.search(r'first failure: (?:BAD \d+ \d+ )?(\w+)', first)
        res.append('%s: %s%s' % (p, kind, (' [' + kindtag.group(1) + ']') if kindtag else ''))
    rows.append('| %s | %s | %s |' % (name, title, '; '.join(res)))
print('| id | change (from the author\'s notes) | quick check of the property, seed 1 |\n|---|---|---|')
print('\n'.join(rows))
