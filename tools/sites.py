#!/usr/bin/env python3
"""sites.py — inventory of the expressions in the non-test part of src/screen.rs that can panic in an overflow-checked
build: checked + - += -= on integers, `as i32`, unwrap()/expect(), indexing. One line per site: `<function>: <expression>`.
It is regenerated on every C01 run and compared with tools/safe_sites.txt, the inventory that coq/Safe.v and the audit table
of DESIGN.md section 7 were written against. A difference is NOT a verdict (a harmless rewrite changes it too); it is recorded
in the evidence and makes the C01 plan run its safety family without subsampling, so that a new panic site is searched for
where it was introduced.
usage: sites.py [path/to/screen.rs]      prints the inventory
"""
import re, sys


def inventory(path="/repo/src/screen.rs"):
    src = open(path, encoding="utf-8").read()
    cut = src.find("#[cfg(test)]\nmod test")
    if cut < 0:
        cut = src.find("#[cfg(test)]")
    if cut > 0:
        src = src[:cut]
    out = []
    fn = "<top>"
    for raw in src.splitlines():
        line = raw.split("//")[0].rstrip()
        m = re.search(r"\bfn\s+(\w+)", line)
        if m:
            fn = m.group(1)
        s = line.strip()
        if not s or s.startswith("#") or s.startswith("use ") or s.startswith("///"):
            continue
        # strip string literals so that "+" inside text does not count
        t = re.sub(r'"(?:[^"\\]|\\.)*"', '""', s)
        found = []
        for m in re.finditer(r"[\w\)\]\.]+\s*(?:\+=|-=)\s*[^;]+", t):
            found.append(m.group(0))
        for m in re.finditer(r"[\w\)\]\.]+(?:\s+as\s+\w+)?\s(?:\+|-)\s[\w\(\.]+(?:\s+as\s+\w+)?", t):
            if "->" in m.group(0):
                continue
            found.append(m.group(0))
        for m in re.finditer(r"\.unwrap\(\)|\.expect\(", t):
            found.append(t[max(0, m.start() - 40):m.end()].strip())
        for m in re.finditer(r"\b\w+\[[^\]\"]+\]", t):
            if re.match(r"(vec|derive|cfg|cfg_attr|allow)\b", m.group(0)) or "; 256]" in m.group(0) or m.group(0).startswith("u8["):
                continue
            if re.match(r"^\w+\[(char|u32|u8|String|&str)", m.group(0)):
                continue
            found.append(m.group(0))
        for f in found:
            out.append("%s: %s" % (fn, re.sub(r"\s+", " ", f)))
    return out


if __name__ == "__main__":
    for l in inventory(sys.argv[1] if len(sys.argv) > 1 else "/repo/src/screen.rs"):
        print(l)
