#!/usr/bin/env python3
"""seeded.py — confirm sub-agent mutants in a scratch worktree, then run our checks against each.
usage: seeded.py confirm|check [ids...]
  confirm: for /tmp/mut/Cxx/out/patchK.diff + demoK.rs -> verifies (a) 91 tests pass with patch, (b) demo fails with patch,
           (c) demo passes without; on success copies to /verif/seeded/Cxx-K/{patch.diff,demo.rs,notes.md,meta.json}
  check:   for every /verif/seeded/*/patch.diff: git -C /repo apply; ./check <prop> (+ extra props); git checkout; records in meta.json
"""
import json, os, re, subprocess, sys, shutil, glob, time
V = "/verif"
def sh(c, cwd=None, timeout=1800):
    p = subprocess.run(c, shell=True, cwd=cwd, stdout=subprocess.PIPE, stderr=subprocess.STDOUT, timeout=timeout, env=dict(os.environ, CARGO_NET_OFFLINE="true"))
    return p.returncode, p.stdout.decode("utf-8", "replace")

def confirm(ids):
    wt = "/tmp/mut/verify"
    if not os.path.exists(wt):
        sh("git -C /repo worktree add -q --detach %s HEAD" % wt)
    for d in sorted(glob.glob("/tmp/mut/C??/out")):
        prop = d.split("/")[3]
        if ids and prop not in ids: continue
        for k in (1, 2, 3, 4, 5, 6, 7, 8, 9, 10, 11):
            patch, demo, notes = ["%s/%s%d.%s" % (d, n, k, e) for n, e in (("patch", "diff"), ("demo", "rs"), ("notes", "md"))]
            if not (os.path.exists(patch) and os.path.exists(demo)): continue
            dst = "%s/seeded/%s-%d" % (V, prop, k)
            if os.path.exists(dst + "/meta.json"): continue
            sh("git checkout -q -- . && git clean -fdq -e target", cwd=wt)
            rc, out = sh("git apply %s" % patch, cwd=wt)
            if rc != 0: print(prop, k, "patch does not apply", out[-200:]); continue
            rc, out = sh("cargo test --offline --lib 2>&1 | grep -a 'test result'", cwd=wt)
            a_ok = " 91 passed; 0 failed" in out
            os.makedirs(wt + "/tests", exist_ok=True); shutil.copy(demo, wt + "/tests/demo.rs")
            rc_b, out_b = sh("cargo test --offline --test demo 2>&1 | grep -a 'test result'", cwd=wt)
            b_ok = "FAILED" in out_b or ("failed" in out_b and " 0 failed" not in out_b)
            sh("git checkout -q -- src", cwd=wt)
            rc_c, out_c = sh("cargo test --offline --test demo 2>&1 | grep -a 'test result'", cwd=wt)
            c_ok = "test result: ok" in out_c and " 0 failed" in out_c
            os.remove(wt + "/tests/demo.rs")
            print(prop, k, "a(tests pass with patch)=%s b(demo fails with patch)=%s c(demo passes without)=%s" % (a_ok, b_ok, c_ok)); sys.stdout.flush()
            if a_ok and b_ok and c_ok:
                os.makedirs(dst, exist_ok=True)
                shutil.copy(patch, dst + "/patch.diff"); shutil.copy(demo, dst + "/demo.rs")
                if os.path.exists(notes): shutil.copy(notes, dst + "/notes.md")
                json.dump({"property": prop, "source": "independent sub-agent given only the property text and a scratch worktree",
                           "needs": (open(notes).read()[:1500] if os.path.exists(notes) else ""),
                           "confirmed": {"existing_91_tests_pass_with_patch": True, "demo_fails_with_patch": True, "demo_passes_without_patch": True,
                                         "how": "scratch worktree: git apply; cargo test --offline --lib; cargo test --offline --test demo; git checkout -- src; cargo test --offline --test demo"},
                           "checks": {}}, open(dst + "/meta.json", "w"), indent=1)

def check(ids, props_extra=None):
    for d in sorted(glob.glob(V + "/seeded/*/patch.diff")):
        sd = os.path.dirname(d); name = os.path.basename(sd); prop = name.split("-")[0]
        if ids and name not in ids and prop not in ids: continue
        meta = json.load(open(sd + "/meta.json"))
        rc, out = sh("git -C /repo status --porcelain --untracked-files=no")
        if out.strip(): print("/repo is not clean, abort"); return
        rc, out = sh("git -C /repo apply %s" % d)
        if rc != 0: print(name, "patch does not apply to /repo"); continue
        try:
            for p in [prop] + (props_extra or []):
                t = time.time(); rc, out = sh("./check %s --tier quick" % p, cwd=V, timeout=3000)
                line = [l for l in out.splitlines() if l.startswith("VIOLATION") or l.startswith("OK ")]
                first = [l for l in out.splitlines() if l.startswith("first ")]
                meta["checks"][p] = {"exit": rc, "verdict": (line[-1] if line else out[-300:]), "first": (first[0][:600] if first else ""), "wall_s": round(time.time() - t, 1)}
                print(name, p, "exit", rc, (line[-1] if line else "")[:160]); sys.stdout.flush()
        finally:
            sh("git -C /repo checkout -- .")
        json.dump(meta, open(sd + "/meta.json", "w"), indent=1)

if __name__ == "__main__":
    if sys.argv[1] == "confirm": confirm(sys.argv[2:])
    elif sys.argv[1] == "check":
        extra = [a[1:] for a in sys.argv[2:] if a.startswith("+")]
        check([a for a in sys.argv[2:] if not a.startswith("+")], extra)
